#!/usr/bin/env python3
"""Generates the as-built tables of DESIGN.md (§10.3 rule inventory, §10.7 kill matrix) from the code, the evidence files and /verif/seeded."""
import glob
import importlib
import json
import os
import sys

VERIF = os.path.dirname(os.path.dirname(os.path.abspath(__file__)))
sys.path.insert(0, VERIF)
from msdmlint import variants   # noqa: E402


def main():
    print("| property | obligations on the tree (pass / unknown / known) | rules (instances) | hand-written mutants / twins | seeds |")
    print("|---|---|---|---|---|")
    for i in range(1, 21):
        p = f"C{i:02d}"
        ev = json.load(open(os.path.join(VERIF, "evidence", f"{p}.json")))
        cov = ev["coverage"]
        per = cov["per_rule"]
        rules = ", ".join(f"{r} ({sum(v.values())})" for r, v in sorted(per.items()))
        nm, nt = len(variants.MUTANTS.get(p, [])), len(variants.TWINS.get(p, []))
        seeds = []
        for d in sorted(glob.glob(os.path.join(VERIF, "seeded", f"{p}-*"))):
            m = json.load(open(os.path.join(d, "meta.json")))
            tag = os.path.basename(d)
            if m.get("expected_detected"):
                seeds.append(f"{tag}: {'/'.join(m.get('expected_rules', []))}" + (f" (under {m['detected_under_property']})" if m.get("detected_under_property") else ""))
            else:
                seeds.append(f"{tag}: missed")
        print(f"| {p} | {cov['obligations']} ({cov['discharged']} / {cov['unknown']} / {cov['known_findings_seen']}) | {rules} | {nm} / {nt} | {'; '.join(seeds)} |")


if __name__ == "__main__":
    main()

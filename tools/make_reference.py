#!/usr/bin/env python3
"""Writes /verif/reference.json from the tree that the rules were reviewed against (run on the pinned /repo after every `fix:` commit):
   functions : 'relpath::qualname' -> {statement fingerprint: count}     (msdmlint/reference.py)
   scope     : property -> sorted list of files in which the property's obligations are located on that tree"""
import json
import os
import sys
import warnings

warnings.simplefilter("ignore")
VERIF = os.path.dirname(os.path.dirname(os.path.abspath(__file__)))
sys.path.insert(0, VERIF)
os.environ.setdefault("VERIF_EVIDENCE_DIR", "/tmp/ev_reference")
from msdmlint.model import Program                       # noqa: E402
from msdmlint.reference import program_fingerprints, REFERENCE   # noqa: E402
from msdmlint.cli import run_property                    # noqa: E402


def main():
    repo = sys.argv[1] if len(sys.argv) > 1 else "/repo"
    P = Program(repo)
    fns = program_fingerprints(P)
    if os.path.exists(REFERENCE):
        os.remove(REFERENCE)        # the scope is computed without any reference in force
    scope = {}
    for i in range(1, 21):
        p = f"C{i:02d}"
        ctx, _ = run_property(p, repo, "quick")
        scope[p] = sorted({o.site.rsplit(":", 1)[0] for o in ctx.obs if o.site and ":" in o.site})
    import subprocess
    head = subprocess.run(["git", "-C", repo, "rev-parse", "HEAD"], capture_output=True, text=True).stdout.strip()
    json.dump({"reviewed_tree": head, "digest": P.digest, "functions": fns, "scope": scope}, open(REFERENCE, "w"), indent=0, sort_keys=True)
    print(f"reference: {len(fns)} functions, tree {head[:12]}")


if __name__ == "__main__":
    main()

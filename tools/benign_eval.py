#!/usr/bin/env python3
"""Runs every check against behaviour-preserving refactorings delivered as unified diffs (<dir>/<Cxx>/r*.diff, produced by independent
sub-agents that were given only the property text).  Any VIOLATION / ANALYSIS-ERROR is a false alarm (or the refactoring is not
behaviour-preserving — decided separately with the library's tests / by reading).   usage: tools/benign_eval.py <dir> [--props own|all]"""
import glob
import json
import os
import shutil
import subprocess
import sys
import tempfile
import warnings
from concurrent.futures import ProcessPoolExecutor

warnings.simplefilter("ignore")
VERIF = os.path.dirname(os.path.dirname(os.path.abspath(__file__)))
sys.path.insert(0, VERIF)
os.environ.setdefault("VERIF_EVIDENCE_DIR", "/tmp/ev_benign")
PROPS = ["C%02d" % i for i in range(1, 21)]


def overrides(patch_path):
    txt = open(patch_path).read()
    files = [l[6:].strip() for l in txt.splitlines() if l.startswith("+++ b/")]
    if not files:
        return None
    td = tempfile.mkdtemp(prefix="msdmlint-benign-")
    try:
        for rel in files:
            src = os.path.join("/repo", rel)
            os.makedirs(os.path.dirname(os.path.join(td, rel)), exist_ok=True)
            if os.path.exists(src):
                shutil.copy(src, os.path.join(td, rel))
        r = subprocess.run(["patch", "-p1", "-s", "-f", "--no-backup-if-mismatch", "-d", td, "-i", os.path.abspath(patch_path)], stdout=subprocess.PIPE, stderr=subprocess.STDOUT, text=True)
        if r.returncode != 0:
            return None
        return {rel: open(os.path.join(td, rel), encoding="utf-8").read() for rel in files if rel.startswith("msdm/") and "/tests/" not in rel and os.path.exists(os.path.join(td, rel))}
    finally:
        shutil.rmtree(td, ignore_errors=True)


def one(args):
    patch, prop = args
    from msdmlint.report import load_known
    from msdmlint.cli import run_property
    from msdmlint.model import AnalysisError
    ov = overrides(patch)
    tag = "/".join(patch.split("/")[-2:])
    if ov is None:
        return tag, prop, "PATCH-DOES-NOT-APPLY"
    known = {k["key"] for k in load_known().get("known", []) if k.get("property") == prop}
    try:
        ctx, _ = run_property(prop, "/repo", "quick", ov)
    except AnalysisError as e:
        return tag, prop, "EXIT2 " + str(e)[:160]
    except Exception as e:
        return tag, prop, f"CRASH {type(e).__name__}: {e}"[:200]
    v = [o for o in ctx.obs if o.verdict == "VIOLATION" and o.key(prop) not in known]
    return tag, prop, ("VIOLATION " + "; ".join(f"{o.rule} {o.function} [{o.instance[:70]}]" for o in v[:4])) if v else "silent"


def main():
    d = sys.argv[1].rstrip("/")
    mode = sys.argv[sys.argv.index("--props") + 1] if "--props" in sys.argv else "all"
    tasks = []
    for p in sorted(glob.glob(os.path.join(d, "C*", "[re]*.diff"))):
        if os.path.getsize(p) == 0:
            continue
        own = os.path.basename(os.path.dirname(p))
        for prop in (PROPS if mode == "all" else [own]):
            tasks.append((p, prop))
    bad = 0
    seen = set()
    with ProcessPoolExecutor(12) as ex:
        for tag, prop, res in ex.map(one, tasks, chunksize=2):
            seen.add(tag)
            if res != "silent":
                bad += 1
                print(f"{tag} {prop}: {res}"[:300])
    print(f"refactorings={len(seen)} runs={len(tasks)} alarms={bad}")


if __name__ == "__main__":
    main()

#!/usr/bin/env python3
"""Behaviour-preserving variants of the current tree, generated mechanically, against which every check must
not print a VIOLATION (exit 2 = idiom no longer recognised is reported separately):

  noop / flipcmp / extract / inline : see the docstrings below (a `pass` before compound statements; a < b -> b > a; call arguments
              extracted into temporaries; single-use call-free temporaries inlined)
  unparse   : every module re-emitted by ast.unparse (formatting, comments and line numbers change)
  rename    : in every function that does not call locals()/vars()/eval and defines no class, all local
              variables (not parameters, not global/nonlocal) are renamed consistently (x -> x_rn)

usage: tools/refactor_twins.py [--kind unparse|rename] [--module relpath ...] [--props C01,C02]
"""
import ast
import os
import sys
from concurrent.futures import ProcessPoolExecutor

sys.path.insert(0, os.path.dirname(os.path.dirname(os.path.abspath(__file__))))
from msdmlint.model import Program, AnalysisError          # noqa: E402
from msdmlint.registry import PROPS, has_checker            # noqa: E402
from msdmlint.report import load_known                      # noqa: E402

REPO = os.environ.get("MSDM_REPO", "/repo")


class Renamer(ast.NodeTransformer):
    def __init__(self, names):
        self.names = names

    def visit_Name(self, node):
        if node.id in self.names:
            return ast.copy_location(ast.Name(id=node.id + "_rn", ctx=node.ctx), node)
        return node

    def visit_arg(self, node):
        if node.arg in self.names:
            node.arg = node.arg + "_rn"
        return node

    def visit_ExceptHandler(self, node):
        self.generic_visit(node)
        if node.name and node.name in self.names:
            node.name = node.name + "_rn"
        return node


def local_names(fn, kwnames=frozenset()):
    params = set()
    stored = set()
    banned = set()
    unsafe = False
    for n in ast.walk(fn):
        if isinstance(n, (ast.FunctionDef, ast.AsyncFunctionDef, ast.Lambda)):
            a = n.args
            for x in a.posonlyargs + a.args + a.kwonlyargs:
                if n is not fn and x.arg not in kwnames and x.arg not in ("self", "cls"):
                    stored.add(x.arg)        # parameters of lambdas / nested defs never passed by keyword: renamed too
                else:
                    params.add(x.arg)
            if a.vararg:
                params.add(a.vararg.arg)
            if a.kwarg:
                params.add(a.kwarg.arg)
            if not isinstance(n, ast.Lambda) and n is not fn:
                banned.add(n.name)          # nested function names may be referenced by keyword elsewhere; keep
        elif isinstance(n, ast.ClassDef):
            unsafe = True
        elif isinstance(n, (ast.Global, ast.Nonlocal)):
            banned.update(n.names)
        elif isinstance(n, ast.Call) and isinstance(n.func, ast.Name) and n.func.id in ("locals", "vars", "eval", "exec"):
            unsafe = True
        elif isinstance(n, ast.Name) and isinstance(n.ctx, (ast.Store, ast.Del)):
            stored.add(n.id)
        elif isinstance(n, ast.ExceptHandler) and n.name:
            stored.add(n.name)
        elif isinstance(n, (ast.Import, ast.ImportFrom)):
            for al in n.names:
                banned.add((al.asname or al.name).split(".")[0])
    if unsafe:
        return set()
    return {x for x in stored if x not in params and x not in banned and not x.startswith("__")}


def rename_module(src):
    tree = ast.parse(src)
    changed = 0
    kwnames = frozenset(k.arg for n in ast.walk(tree) if isinstance(n, ast.Call) for k in n.keywords if k.arg)

    def do(body):
        nonlocal changed
        for st in body:
            if isinstance(st, (ast.FunctionDef, ast.AsyncFunctionDef)):
                names = local_names(st, kwnames)
                if names:
                    Renamer(names).visit(st)
                    changed += len(names)
            elif isinstance(st, ast.ClassDef):
                do(st.body)
    do(tree.body)
    ast.fix_missing_locations(tree)
    return ast.unparse(tree) + "\n", changed


# ---------------------------------------------------------------------------------------------- other mechanical twins
class NoopInserter(ast.NodeTransformer):
    """a `pass` after the docstring of every function and before every compound statement (for/while/if/with/try) of a block"""

    def _block(self, body):
        out = []
        for i, st in enumerate(body):
            if isinstance(st, (ast.For, ast.While, ast.If, ast.With, ast.Try)) and i > 0:
                out.append(ast.Pass())
            out.append(st)
        return out

    def generic_visit(self, node):
        super().generic_visit(node)
        for fld in ("body", "orelse", "finalbody"):
            b = getattr(node, fld, None)
            if isinstance(b, list) and b and isinstance(b[0], ast.stmt):
                nb = self._block(b)
                if isinstance(node, (ast.FunctionDef, ast.AsyncFunctionDef)) and fld == "body":
                    k = 1 if (isinstance(nb[0], ast.Expr) and isinstance(nb[0].value, ast.Constant) and isinstance(nb[0].value.value, str)) else 0
                    nb = nb[:k] + [ast.Pass()] + nb[k:]
                setattr(node, fld, nb)
        return node


FLIP = {ast.Lt: ast.Gt, ast.Gt: ast.Lt, ast.LtE: ast.GtE, ast.GtE: ast.LtE, ast.Eq: ast.Eq, ast.NotEq: ast.NotEq}


def _pure(n):
    return all(isinstance(x, (ast.Name, ast.Attribute, ast.Constant, ast.Subscript, ast.BinOp, ast.UnaryOp, ast.Load, ast.operator, ast.unaryop,
                              ast.Tuple, ast.Slice, ast.expr_context)) for x in ast.walk(n))


class CmpFlipper(ast.NodeTransformer):
    """a < b  ->  b > a   (both operands free of calls)"""

    def visit_Compare(self, node):
        self.generic_visit(node)
        if len(node.ops) == 1 and type(node.ops[0]) in FLIP and _pure(node.left) and _pure(node.comparators[0]):
            return ast.copy_location(ast.Compare(left=node.comparators[0], ops=[FLIP[type(node.ops[0])]()], comparators=[node.left]), node)
        return node


def extract_temps(src):
    """x = f(a, g(b))  ->  _t1 = g(b); x = f(a, _t1)   for simple assignment / return statements whose call has a call argument
    preceded only by call-free arguments (evaluation order is preserved)."""
    tree = ast.parse(src)
    n = [0]

    def do_block(body):
        out = []
        for st in body:
            for fld in ("body", "orelse", "finalbody"):
                b = getattr(st, fld, None)
                if isinstance(b, list) and b and isinstance(b[0], ast.stmt):
                    setattr(st, fld, do_block(b))
            for h in getattr(st, "handlers", []) or []:
                h.body = do_block(h.body)
            v = st.value if isinstance(st, (ast.Assign, ast.Return)) else None
            if isinstance(v, ast.Call) and _pure(v.func) and not any(isinstance(a, ast.Starred) for a in v.args):
                for i, a in enumerate(v.args):
                    if isinstance(a, ast.Call) and all(_pure(b) for b in v.args[:i]) and not any(isinstance(x, (ast.Lambda, ast.NamedExpr, ast.Yield, ast.Await)) for x in ast.walk(a)):
                        n[0] += 1
                        t = f"_xt{n[0]}"
                        out.append(ast.Assign(targets=[ast.Name(id=t, ctx=ast.Store())], value=a, lineno=st.lineno))
                        v.args[i] = ast.Name(id=t, ctx=ast.Load())
                        break
                    if not _pure(a):
                        break
            out.append(st)
        return out

    def walk_fns(body, infn):
        for st in body:
            if isinstance(st, (ast.FunctionDef, ast.AsyncFunctionDef)):
                st.body = do_block(st.body)
                walk_fns(st.body, True)
            elif isinstance(st, ast.ClassDef):
                walk_fns(st.body, infn)
    walk_fns(tree.body, False)
    ast.fix_missing_locations(tree)
    return ast.unparse(tree) + "\n", n[0]


def inline_temps(src):
    """t = <call-free expr>; <next stmt uses t exactly once, t used nowhere else>  ->  next stmt with the expression inlined."""
    tree = ast.parse(src)
    n = [0]

    def uses(fn, name):
        return [x for x in ast.walk(fn) if isinstance(x, ast.Name) and x.id == name]

    def do_fn(fn):
        def do_block(body):
            out = []
            i = 0
            while i < len(body):
                st = body[i]
                for fld in ("body", "orelse", "finalbody"):
                    b = getattr(st, fld, None)
                    if isinstance(b, list) and b and isinstance(b[0], ast.stmt):
                        setattr(st, fld, do_block(b))
                if (isinstance(st, ast.Assign) and len(st.targets) == 1 and isinstance(st.targets[0], ast.Name) and _pure(st.value) and i + 1 < len(body)
                        and not isinstance(body[i + 1], (ast.For, ast.While, ast.If, ast.With, ast.Try, ast.FunctionDef, ast.ClassDef, ast.AugAssign))):
                    name = st.targets[0].id
                    us = uses(fn, name)
                    nxt = [x for x in ast.walk(body[i + 1]) if isinstance(x, ast.Name) and x.id == name and isinstance(x.ctx, ast.Load)]
                    inlam = any(isinstance(p, (ast.Lambda, ast.ListComp, ast.SetComp, ast.DictComp, ast.GeneratorExp)) and any(x is y for y in ast.walk(p) for x in nxt) for p in ast.walk(body[i + 1]))
                    if len(us) == 2 and len(nxt) == 1 and not inlam:
                        class R(ast.NodeTransformer):
                            def visit_Name(s_, node):
                                return st.value if node is nxt[0] else node
                        body[i + 1] = R().visit(body[i + 1])
                        n[0] += 1
                        i += 1
                        continue
                out.append(st)
                i += 1
            return out
        fn.body = do_block(fn.body)

    for node in ast.walk(tree):
        if isinstance(node, (ast.FunctionDef, ast.AsyncFunctionDef)) and not any(isinstance(x, ast.Call) and isinstance(x.func, ast.Name) and x.func.id in ("locals", "vars") for x in ast.walk(node)):
            do_fn(node)
    ast.fix_missing_locations(tree)
    return ast.unparse(tree) + "\n", n[0]


def inline_all(tree):
    """a local assigned once in its function and read once, in the immediately following simple statement of the same block
    (not inside a lambda / comprehension), is replaced by its defining expression."""
    for fn in [n for n in ast.walk(tree) if isinstance(n, (ast.FunctionDef, ast.AsyncFunctionDef))]:
        if any(isinstance(x, ast.Call) and isinstance(x.func, ast.Name) and x.func.id in ("locals", "vars") for x in ast.walk(fn)):
            continue
        changed = True
        while changed:
            changed = False
            cnt = {}
            for x in ast.walk(fn):
                if isinstance(x, ast.Name):
                    cnt.setdefault(x.id, [0, 0])[0 if isinstance(x.ctx, ast.Load) else 1] += 1
            for blk_owner in ast.walk(fn):
                for fld in ("body", "orelse", "finalbody"):
                    b = getattr(blk_owner, fld, None)
                    if not (isinstance(b, list) and b and isinstance(b[0], ast.stmt)):
                        continue
                    i = 0
                    while i + 1 < len(b):
                        st, nx = b[i], b[i + 1]
                        if (isinstance(st, ast.Assign) and len(st.targets) == 1 and isinstance(st.targets[0], ast.Name) and cnt.get(st.targets[0].id) == [1, 1]
                                and isinstance(nx, (ast.Assign, ast.AugAssign, ast.Return, ast.Expr, ast.Assert))):
                            name = st.targets[0].id
                            uses = [x for x in ast.walk(nx) if isinstance(x, ast.Name) and x.id == name and isinstance(x.ctx, ast.Load)]
                            scoped = any(isinstance(p, (ast.Lambda, ast.ListComp, ast.SetComp, ast.DictComp, ast.GeneratorExp)) and any(u is y for y in ast.walk(p) for u in uses) for p in ast.walk(nx))
                            if len(uses) == 1 and not scoped:
                                val = st.value

                                class R(ast.NodeTransformer):
                                    def visit_Name(s_, node):
                                        return val if node is uses[0] else node
                                b[i + 1] = R().visit(nx)
                                del b[i]
                                changed = True
                                continue
                        i += 1
    return tree




def _terminates(body):
    return bool(body) and isinstance(body[-1], (ast.Return, ast.Continue, ast.Break, ast.Raise))


class IfSwapper(ast.NodeTransformer):
    """if c: A else: B   ->   if not c: B else: A      (B not an elif chain)"""

    def visit_If(self, node):
        self.generic_visit(node)
        if node.orelse and not (len(node.orelse) == 1 and isinstance(node.orelse[0], ast.If)):
            t = node.test.operand if isinstance(node.test, ast.UnaryOp) and isinstance(node.test.op, ast.Not) else ast.UnaryOp(op=ast.Not(), operand=node.test)
            return ast.copy_location(ast.If(test=t, body=node.orelse, orelse=node.body), node)
        return node


def _blocks(tree):
    for node in ast.walk(tree):
        for fld in ("body", "orelse", "finalbody"):
            b = getattr(node, fld, None)
            if isinstance(b, list) and b and isinstance(b[0], ast.stmt):
                yield node, fld, b


def else_wrap(tree):
    """if c: ...; return   followed by REST in the same block   ->   if c: ...; return  else: REST"""
    n = 0
    for node, fld, b in list(_blocks(tree)):
        for i, st in enumerate(b):
            if isinstance(st, ast.If) and not st.orelse and _terminates(st.body) and i + 1 < len(b) and not isinstance(node, (ast.Try,)):
                st.orelse = b[i + 1:]
                del b[i + 1:]
                n += 1
                break
    return tree, n


def un_else(tree):
    """if c: ...; return  else: REST   ->   if c: ...; return   REST"""
    n = 0
    changed = True
    while changed:
        changed = False
        for node, fld, b in list(_blocks(tree)):
            for i, st in enumerate(b):
                if isinstance(st, ast.If) and st.orelse and _terminates(st.body) and not (len(st.orelse) == 1 and isinstance(st.orelse[0], ast.If) and False):
                    rest = st.orelse
                    st.orelse = []
                    b[i + 1:i + 1] = rest
                    n += 1
                    changed = True
                    break
            if changed:
                break
    return tree, n


def ifexp_to_if(tree):
    """x = A if C else B   ->   if C: x = A  else: x = B      (single plain target; also `return A if C else B`)"""
    n = 0
    for node, fld, b in list(_blocks(tree)):
        out = []
        for st in b:
            if isinstance(st, ast.Assign) and len(st.targets) == 1 and isinstance(st.targets[0], (ast.Name, ast.Attribute)) and isinstance(st.value, ast.IfExp):
                v = st.value
                out.append(ast.If(test=v.test, body=[ast.Assign(targets=st.targets, value=v.body, lineno=st.lineno)],
                                  orelse=[ast.Assign(targets=st.targets, value=v.orelse, lineno=st.lineno)]))
                n += 1
            elif isinstance(st, ast.Return) and isinstance(st.value, ast.IfExp):
                v = st.value
                out.append(ast.If(test=v.test, body=[ast.Return(value=v.body)], orelse=[ast.Return(value=v.orelse)]))
                n += 1
            else:
                out.append(st)
        setattr(node, fld, out)
    return tree, n


def transform(kind, src):
    if kind == "unparse":
        return ast.unparse(ast.parse(src)) + "\n", 1
    if kind == "rename":
        return rename_module(src)
    if kind == "noop":
        t = NoopInserter().visit(ast.parse(src))
        ast.fix_missing_locations(t)
        return ast.unparse(t) + "\n", 1
    if kind == "flipcmp":
        t = CmpFlipper().visit(ast.parse(src))
        ast.fix_missing_locations(t)
        return ast.unparse(t) + "\n", 1
    if kind == "extract":
        return extract_temps(src)
    if kind == "inline":
        return inline_temps(src)
    if kind == "ifswap":
        t = IfSwapper().visit(ast.parse(src))
        ast.fix_missing_locations(t)
        return ast.unparse(t) + "\n", 1
    if kind in ("elsewrap", "unelse"):
        t, n = (else_wrap if kind == "elsewrap" else un_else)(ast.parse(src))
        ast.fix_missing_locations(t)
        return ast.unparse(t) + "\n", n
    if kind == "ifexp":
        t, n = ifexp_to_if(ast.parse(src))
        ast.fix_missing_locations(t)
        return ast.unparse(t) + "\n", n
    if kind == "inlineall":
        t = inline_all(ast.parse(src))
        ast.fix_missing_locations(t)
        return ast.unparse(t) + "\n", 1
    raise ValueError(kind)


def run(args):
    kind, rel, props = args
    src = open(os.path.join(REPO, rel), encoding="utf-8").read()
    try:
        new, changed = transform(kind, src)
        if not changed:
            return rel, kind, {}
        compile(new, rel, "exec")
    except Exception as e:
        return rel, kind, {"<generator>": f"skipped: {e}"}
    from msdmlint.cli import run_property
    out = {}
    for p in props:
        known = {k["key"] for k in load_known().get("known", []) if k.get("property") == p}
        try:
            ctx, _ = run_property(p, REPO, "quick", {rel: new})
            v = [o for o in ctx.obs if o.verdict == "VIOLATION" and o.key(p) not in known]
            if v:
                out[p] = "VIOLATION " + "; ".join(f"{o.rule} {o.function} [{o.instance[:60]}]" for o in v[:40])
        except AnalysisError as e:
            out[p] = "EXIT2 " + str(e)[:160]
        except Exception as e:
            out[p] = f"CRASH {type(e).__name__}: {e}"[:200]
    return rel, kind, out


def main():
    kinds = ["unparse", "rename", "noop", "flipcmp", "extract", "inline", "inlineall", "ifswap", "elsewrap", "unelse", "ifexp"]
    mods = []
    props = [p for p in PROPS if has_checker(p)]
    argv = sys.argv[1:]
    while argv:
        a = argv.pop(0)
        if a == "--kind":
            kinds = [argv.pop(0)]
        elif a == "--module":
            mods.append(argv.pop(0))
        elif a == "--props":
            props = argv.pop(0).split(",")
    P = Program(REPO)
    rels = mods or sorted(m.relpath for m in P.modules.values() if not m.relpath.endswith("__init__.py"))
    tasks = [(k, r, props) for k in kinds for r in rels]
    bad = exit2 = 0
    with ProcessPoolExecutor(max_workers=16) as ex:
        for rel, kind, out in ex.map(run, tasks):
            for p, msg in sorted(out.items()):
                print(f"{kind:8s} {rel:55s} {p}: {msg}")
                if msg.startswith(("VIOLATION", "CRASH")):
                    bad += 1
                elif msg.startswith("EXIT2"):
                    exit2 += 1
    print(f"variants={len(tasks)} false_alarms={bad} idiom_not_recognised={exit2}")
    return 1 if bad else 0


if __name__ == "__main__":
    sys.exit(main())

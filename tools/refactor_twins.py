#!/usr/bin/env python3
"""Behaviour-preserving variants of the current tree, generated mechanically, against which every check must
not print a VIOLATION (exit 2 = idiom no longer recognised is reported separately):

  unparse   : every module re-emitted by ast.unparse (formatting, comments and line numbers change)
  rename    : in every function that does not call locals()/vars()/eval and defines no class, all local
              variables (not parameters, not global/nonlocal) are renamed consistently (x -> x_rn)

usage: tools/refactor_twins.py [--kind unparse|rename] [--module relpath ...] [--props C01,C02]
"""
import ast
import os
import sys
from concurrent.futures import ProcessPoolExecutor

sys.path.insert(0, os.path.dirname(os.path.dirname(os.path.abspath(__file__))))
from msdmlint.model import Program, AnalysisError          # noqa: E402
from msdmlint.registry import PROPS, has_checker            # noqa: E402
from msdmlint.report import load_known                      # noqa: E402

REPO = os.environ.get("MSDM_REPO", "/repo")


class Renamer(ast.NodeTransformer):
    def __init__(self, names):
        self.names = names

    def visit_Name(self, node):
        if node.id in self.names:
            return ast.copy_location(ast.Name(id=node.id + "_rn", ctx=node.ctx), node)
        return node

    def visit_arg(self, node):
        if node.arg in self.names:
            node.arg = node.arg + "_rn"
        return node

    def visit_ExceptHandler(self, node):
        self.generic_visit(node)
        if node.name and node.name in self.names:
            node.name = node.name + "_rn"
        return node


def local_names(fn, kwnames=frozenset()):
    params = set()
    stored = set()
    banned = set()
    unsafe = False
    for n in ast.walk(fn):
        if isinstance(n, (ast.FunctionDef, ast.AsyncFunctionDef, ast.Lambda)):
            a = n.args
            for x in a.posonlyargs + a.args + a.kwonlyargs:
                if n is not fn and x.arg not in kwnames and x.arg not in ("self", "cls"):
                    stored.add(x.arg)        # parameters of lambdas / nested defs never passed by keyword: renamed too
                else:
                    params.add(x.arg)
            if a.vararg:
                params.add(a.vararg.arg)
            if a.kwarg:
                params.add(a.kwarg.arg)
            if not isinstance(n, ast.Lambda) and n is not fn:
                banned.add(n.name)          # nested function names may be referenced by keyword elsewhere; keep
        elif isinstance(n, ast.ClassDef):
            unsafe = True
        elif isinstance(n, (ast.Global, ast.Nonlocal)):
            banned.update(n.names)
        elif isinstance(n, ast.Call) and isinstance(n.func, ast.Name) and n.func.id in ("locals", "vars", "eval", "exec"):
            unsafe = True
        elif isinstance(n, ast.Name) and isinstance(n.ctx, (ast.Store, ast.Del)):
            stored.add(n.id)
        elif isinstance(n, ast.ExceptHandler) and n.name:
            stored.add(n.name)
        elif isinstance(n, (ast.Import, ast.ImportFrom)):
            for al in n.names:
                banned.add((al.asname or al.name).split(".")[0])
    if unsafe:
        return set()
    return {x for x in stored if x not in params and x not in banned and not x.startswith("__")}


def rename_module(src):
    tree = ast.parse(src)
    changed = 0
    kwnames = frozenset(k.arg for n in ast.walk(tree) if isinstance(n, ast.Call) for k in n.keywords if k.arg)

    def do(body):
        nonlocal changed
        for st in body:
            if isinstance(st, (ast.FunctionDef, ast.AsyncFunctionDef)):
                names = local_names(st, kwnames)
                if names:
                    Renamer(names).visit(st)
                    changed += len(names)
            elif isinstance(st, ast.ClassDef):
                do(st.body)
    do(tree.body)
    ast.fix_missing_locations(tree)
    return ast.unparse(tree) + "\n", changed


def run(args):
    kind, rel, props = args
    src = open(os.path.join(REPO, rel), encoding="utf-8").read()
    try:
        if kind == "unparse":
            new = ast.unparse(ast.parse(src)) + "\n"
        else:
            new, changed = rename_module(src)
            if not changed:
                return rel, kind, {}
        compile(new, rel, "exec")
    except Exception as e:
        return rel, kind, {"<generator>": f"skipped: {e}"}
    from msdmlint.cli import run_property
    out = {}
    for p in props:
        known = {k["key"] for k in load_known().get("known", []) if k.get("property") == p}
        try:
            ctx, _ = run_property(p, REPO, "quick", {rel: new})
            v = [o for o in ctx.obs if o.verdict == "VIOLATION" and o.key(p) not in known]
            if v:
                out[p] = "VIOLATION " + "; ".join(f"{o.rule} {o.function} [{o.instance[:60]}]" for o in v[:40])
        except AnalysisError as e:
            out[p] = "EXIT2 " + str(e)[:160]
        except Exception as e:
            out[p] = f"CRASH {type(e).__name__}: {e}"[:200]
    return rel, kind, out


def main():
    kinds = ["unparse", "rename"]
    mods = []
    props = [p for p in PROPS if has_checker(p)]
    argv = sys.argv[1:]
    while argv:
        a = argv.pop(0)
        if a == "--kind":
            kinds = [argv.pop(0)]
        elif a == "--module":
            mods.append(argv.pop(0))
        elif a == "--props":
            props = argv.pop(0).split(",")
    P = Program(REPO)
    rels = mods or sorted(m.relpath for m in P.modules.values() if not m.relpath.endswith("__init__.py"))
    tasks = [(k, r, props) for k in kinds for r in rels]
    bad = exit2 = 0
    with ProcessPoolExecutor(max_workers=16) as ex:
        for rel, kind, out in ex.map(run, tasks):
            for p, msg in sorted(out.items()):
                print(f"{kind:8s} {rel:55s} {p}: {msg}")
                if msg.startswith(("VIOLATION", "CRASH")):
                    bad += 1
                elif msg.startswith("EXIT2"):
                    exit2 += 1
    print(f"variants={len(tasks)} false_alarms={bad} idiom_not_recognised={exit2}")
    return 1 if bad else 0


if __name__ == "__main__":
    sys.exit(main())

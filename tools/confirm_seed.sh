#!/bin/sh
# tools/confirm_seed.sh <src dir with patch.diff demo.py notes.md> <seed id>
# Confirms a seeded defect in a scratch worktree (outside /repo and /verif): demo passes on the clean tree,
# fails with the patch, and the baseline suite still passes with the patch.  On success copies it to /verif/seeded/<id>/.
set -u
SRC="$1"; ID="$2"
WT="/tmp/confirm_$ID"
git -C /repo worktree remove --force "$WT" >/dev/null 2>&1
git -C /repo worktree add --detach "$WT" HEAD >/dev/null 2>&1 || { echo "cannot create worktree"; exit 2; }
cd "$WT"
/venv/bin/python "$SRC/demo.py" >/tmp/confirm_$ID.clean.log 2>&1; RC_CLEAN=$?
git apply "$SRC/patch.diff" || { echo "patch does not apply"; git -C /repo worktree remove --force "$WT"; exit 2; }
/venv/bin/python "$SRC/demo.py" >/tmp/confirm_$ID.patched.log 2>&1; RC_PATCHED=$?
BASELINE_XDIST=8 /venv/bin/python /verif/tools/run_baseline.py "$WT" >/tmp/confirm_$ID.tests.log 2>&1; RC_TESTS=$?
cd /; git -C /repo worktree remove --force "$WT"
echo "$ID: demo clean rc=$RC_CLEAN patched rc=$RC_PATCHED; baseline with patch rc=$RC_TESTS ($(head -1 /tmp/confirm_$ID.tests.log))"
tail -3 /tmp/confirm_$ID.patched.log | cut -c1-300
if [ "$RC_CLEAN" = 0 ] && [ "$RC_PATCHED" = 1 ] && [ "$RC_TESTS" = 0 ]; then
  mkdir -p /verif/seeded/$ID && cp "$SRC/patch.diff" "$SRC/demo.py" /verif/seeded/$ID/ && cp "$SRC/notes.md" /verif/seeded/$ID/notes.md 2>/dev/null
  echo "CONFIRMED -> /verif/seeded/$ID"
else
  echo "NOT CONFIRMED"
fi

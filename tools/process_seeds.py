#!/usr/bin/env python3
"""Takes the deliverables of a round of seeding agents (<dir>/<id>/{patch.diff,demo.py,notes.md}) and
   1. records which check reports each patch with the checks AS THEY STAND (static; written to <dir>/matrix.json, never overwritten
      for an id that is already in it, so that later tightening of rules cannot rewrite history),
   2. with --confirm: confirms each in a scratch worktree (tools/confirm_seed.sh, 3 at a time) — confirmed seeds are copied to /verif/seeded,
   3. with --meta: writes /verif/seeded/<id>/meta.json for the confirmed ones (detection re-evaluated now; the step-1 verdict is kept as
      `detected_before_any_change_for_this_round`).
usage: tools/process_seeds.py <dir> [--confirm] [--meta] [--round N]"""
import ast
import glob
import json
import os
import subprocess
import sys
import warnings
from concurrent.futures import ProcessPoolExecutor

warnings.simplefilter("ignore")
VERIF = os.path.dirname(os.path.dirname(os.path.abspath(__file__)))
sys.path.insert(0, VERIF)
os.environ.setdefault("VERIF_EVIDENCE_DIR", "/tmp/ev_process_seeds")
PROPS = ["C%02d" % i for i in range(1, 21)]


def detect(args):
    patch, sid, prop = args
    from msdmlint import selftest
    from msdmlint.report import load_known
    from msdmlint.cli import run_property
    ov = selftest._seeded_overrides("/repo", patch)
    if ov is None:
        return sid, prop, None, "patch does not apply"
    known = {k["key"] for k in load_known().get("known", []) if k.get("property") == prop}
    try:
        ctx, _ = run_property(prop, "/repo", "quick", ov)
    except Exception as e:
        return sid, prop, None, "ERROR " + str(e)[:150]
    v = [o for o in ctx.obs if o.verdict == "VIOLATION" and o.key(prop) not in known]
    return sid, prop, sorted({o.rule for o in v}), "; ".join(f"{o.rule} {o.function} [{o.instance[:80]}]" for o in v[:2]) or "silent"


def main():
    d = sys.argv[1].rstrip("/")
    confirm, meta = "--confirm" in sys.argv, "--meta" in sys.argv
    rnd = sys.argv[sys.argv.index("--round") + 1] if "--round" in sys.argv else "?"
    ids = sorted(os.path.basename(x) for x in glob.glob(os.path.join(d, "C*-*")) if os.path.isdir(x)
                 and os.path.exists(os.path.join(x, "patch.diff")) and os.path.getsize(os.path.join(x, "patch.diff")) > 0 and os.path.exists(os.path.join(x, "demo.py")))
    mpath = os.path.join(d, "matrix.json")
    done = json.load(open(mpath)) if os.path.exists(mpath) else {}
    todo = [s for s in ids if s not in done]
    with ProcessPoolExecutor(6) as ex:
        for sid, prop, rules, txt in ex.map(detect, [(os.path.join(d, s, "patch.diff"), s, s[:3]) for s in todo]):
            done[sid] = {"own": rules, "txt": txt}
            print(f"{sid}: {txt}"[:230])
    json.dump(done, open(mpath, "w"), indent=1)
    if confirm:
        pend = [s for s in ids if not os.path.exists(os.path.join(VERIF, "seeded", s, "patch.diff"))]
        procs = []
        for s in pend:
            while len([p for p in procs if p[1].poll() is None]) >= 3:
                import time
                time.sleep(2)
            procs.append((s, subprocess.Popen([os.path.join(VERIF, "tools", "confirm_seed.sh"), os.path.join(d, s), s], stdout=open(os.path.join(d, s + ".confirm.log"), "w"), stderr=subprocess.STDOUT)))
        for s, p in procs:
            p.wait()
        for s in pend:      # one retry (a flaky baseline test)
            if not os.path.exists(os.path.join(VERIF, "seeded", s, "patch.diff")):
                subprocess.run([os.path.join(VERIF, "tools", "confirm_seed.sh"), os.path.join(d, s), s], stdout=open(os.path.join(d, s + ".confirm.log"), "a"), stderr=subprocess.STDOUT)
            print(s, "confirmed" if os.path.exists(os.path.join(VERIF, "seeded", s, "patch.diff")) else "NOT CONFIRMED")
    if meta:
        conf = [s for s in ids if os.path.exists(os.path.join(VERIF, "seeded", s, "patch.diff"))]
        with ProcessPoolExecutor(6) as ex:
            now = {sid: (rules, txt) for sid, prop, rules, txt in ex.map(detect, [(os.path.join(VERIF, "seeded", s, "patch.diff"), s, s[:3]) for s in conf])}
        for sid in conf:
            sd = os.path.join(VERIF, "seeded", sid)
            mp = os.path.join(sd, "meta.json")
            old = json.load(open(mp)) if os.path.exists(mp) else {}
            try:
                doc = " ".join((ast.get_docstring(ast.parse(open(os.path.join(sd, "demo.py")).read())) or "").split())
            except Exception:
                doc = ""
            changed = [l[1:].strip() for l in open(os.path.join(sd, "patch.diff")) if l.startswith("+") and not l.startswith("+++")][:2] or \
                      ["removed: " + l[1:].strip() for l in open(os.path.join(sd, "patch.diff")) if l.startswith("-") and not l.startswith("---")][:2]
            m = {"id": sid, "property": sid[:3],
                 "source": f"independent sub-agent (round {rnd}) given only the property text and a scratch worktree",
                 "needs_to_manifest": (doc[:330] + ("…" if len(doc) > 330 else "")) + " | changed line(s): " + " / ".join(changed)[:200],
                 "confirmed_by": "tools/confirm_seed.sh: scratch worktree of /repo HEAD under /tmp; demo.py on the clean tree (exit 0), git apply patch.diff, demo.py again (exit 1), "
                                 "tools/run_baseline.py on the patched worktree (88/88 baseline tests pass); worktree removed"}
            rules, txt = now[sid]
            if rules:
                m.update(expected_detected=True, expected_rules=rules, detected_by=f"{sid[:3]} " + txt)
            else:
                m.update(expected_detected=False, expected_rules=[], detected_by="", miss_reason=old.get("miss_reason", "no rule covers the clause / site that was changed"))
            m["detected_before_any_change_for_this_round"] = bool(done.get(sid, {}).get("own"))
            for k in ("rule_written_after_seed",):
                if k in old:
                    m[k] = old[k]
            json.dump(m, open(mp, "w"), indent=1)
            print(sid, "->", rules or "MISSED", "| before:", m["detected_before_any_change_for_this_round"])


if __name__ == "__main__":
    main()

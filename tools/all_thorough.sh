#!/bin/bash
# run every check at the thorough tier in parallel and print only anomalies (non-zero exit, unkilled mutants, noisy twins)
cd "$(dirname "$0")/.."
tmp=$(mktemp -d)
for i in 01 02 03 04 05 06 07 08 09 10 11 12 13 14 15 16 17 18 19 20; do
  ( ./check C$i --tier thorough > $tmp/C$i.out 2>&1; echo $? > $tmp/C$i.rc ) &
done
wait
bad=0
for i in 01 02 03 04 05 06 07 08 09 10 11 12 13 14 15 16 17 18 19 20; do
  rc=$(cat $tmp/C$i.rc); last=$(tail -1 $tmp/C$i.out)
  m=$(echo "$last" | sed -n 's/.*mutants=\([0-9]*\) killed=\([0-9]*\) skipped=\([0-9]*\) twins=\([0-9]*\) twins_silent=\([0-9]*\).*/\1 \2 \3 \4 \5/p')
  set -- $m
  if [ "$rc" != "0" ] || [ -z "$m" ] || [ "$1" != "$2" ] || [ "$3" != "0" ] || [ "$4" != "$5" ]; then
    bad=1; echo "C$i rc=$rc $last"; grep "VIOLATION\|ANALYSIS-ERROR\|selftest:" $tmp/C$i.out | head -8
  fi
done
[ $bad = 0 ] && echo "all 20 thorough checks: exit 0, every mutant killed, every twin silent"
rm -rf $tmp
exit $bad

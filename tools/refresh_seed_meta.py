#!/usr/bin/env python3
"""re-evaluates which check reports each stored seed and updates meta.json (expected_detected / expected_rules / detected_by);
usage: tools/refresh_seed_meta.py <seed id> [--after "<rule note>"] ..."""
import json
import os
import sys
import warnings

warnings.simplefilter("ignore")
VERIF = os.path.dirname(os.path.dirname(os.path.abspath(__file__)))
sys.path.insert(0, VERIF)
os.environ.setdefault("VERIF_EVIDENCE_DIR", "/tmp/ev_refresh")
from msdmlint import selftest            # noqa: E402
from msdmlint.report import load_known   # noqa: E402
from msdmlint.cli import run_property    # noqa: E402


def detect(sid, prop):
    ov = selftest._seeded_overrides("/repo", os.path.join(VERIF, "seeded", sid, "patch.diff"))
    known = {k["key"] for k in load_known().get("known", []) if k.get("property") == prop}
    ctx, _ = run_property(prop, "/repo", "quick", ov)
    v = [o for o in ctx.obs if o.verdict == "VIOLATION" and o.key(prop) not in known]
    return sorted({o.rule for o in v}), "; ".join(f"{o.rule} {o.function} [{o.instance[:80]}]" for o in v[:2])


def main():
    argv = sys.argv[1:]
    while argv:
        sid = argv.pop(0)
        after = None
        if argv and argv[0] == "--after":
            argv.pop(0)
            after = argv.pop(0)
        p = os.path.join(VERIF, "seeded", sid, "meta.json")
        m = json.load(open(p))
        rules, txt = detect(sid, m["property"])
        if rules:
            m.update(expected_detected=True, expected_rules=rules, detected_by=f"{m['property']} {txt}")
            m.pop("miss_reason", None)
            m.pop("detected_under_property", None)
        if after:
            m["rule_written_after_seed"] = after
        json.dump(m, open(p, "w"), indent=1)
        print(sid, "->", rules or "still silent")


if __name__ == "__main__":
    main()

#!/usr/bin/env python3
"""Whole-tree behaviour-preserving variants: every module of a scratch copy of the repository is transformed by one of the
mechanical refactorings of tools/refactor_twins.py, (optionally) the library's own test-suite is run on the result to confirm that
behaviour is preserved, and every check is run against the scratch copy.  A VIOLATION here is a false alarm.

usage: tools/whole_tree_twins.py [--kinds rename,noop,...] [--baseline] [--props C01,...] [--keep]
"""
import os
import shutil
import subprocess
import sys
import tempfile
import warnings

warnings.simplefilter("ignore")
HERE = os.path.dirname(os.path.abspath(__file__))
VERIF = os.path.dirname(HERE)
sys.path.insert(0, HERE)
sys.path.insert(0, VERIF)
import refactor_twins as rt   # noqa: E402

REPO = os.environ.get("MSDM_REPO", "/repo")


def build(kind, root):
    subprocess.run(f"git -C {REPO} archive HEAD | tar -x -C {root}", shell=True, check=True)
    n = 0
    for dp, dn, fns in os.walk(os.path.join(root, "msdm")):
        if "/tests" in dp:
            continue
        for f in fns:
            if f.endswith(".py") and f != "__init__.py":
                p = os.path.join(dp, f)
                src = open(p).read()
                try:
                    new, ch = rt.transform(kind, src)
                    compile(new, p, "exec")
                except Exception as e:
                    print("  skip", p, e)
                    continue
                if ch:
                    open(p, "w").write(new)
                    n += 1
    return n


def main():
    kinds = ["rename", "noop", "flipcmp", "extract", "inline", "inlineall", "ifswap", "elsewrap", "unelse", "ifexp"]
    props = ["C%02d" % i for i in range(1, 21)]
    baseline = keep = False
    argv = sys.argv[1:]
    while argv:
        a = argv.pop(0)
        if a == "--kinds":
            kinds = argv.pop(0).split(",")
        elif a == "--props":
            props = argv.pop(0).split(",")
        elif a == "--baseline":
            baseline = True
        elif a == "--keep":
            keep = True
    total = 0
    for k in kinds:
        root = tempfile.mkdtemp(prefix=f"msdm_tw_{k}_")
        ev = tempfile.mkdtemp(prefix=f"msdm_ev_{k}_")
        try:
            n = build(k, root)
            print(f"=== {k}: {n} modules transformed  ({root})")
            if baseline:
                r = subprocess.run(["/venv/bin/python", os.path.join(HERE, "run_baseline.py"), root], capture_output=True, text=True,
                                   env={**os.environ, "BASELINE_XDIST": "8"})
                print("  " + (r.stdout.strip().splitlines() or ["?"])[-1])
            procs = {p: subprocess.Popen([os.path.join(VERIF, "check"), p, "--repo", root], stdout=subprocess.PIPE, stderr=subprocess.STDOUT, text=True,
                                         env={**os.environ, "VERIF_EVIDENCE_DIR": ev}) for p in props}
            for p, pr in procs.items():
                out = pr.communicate()[0].splitlines()
                bad = [i for i, l in enumerate(out) if l.startswith("VIOLATION") or "ANALYSIS-ERROR" in l]
                for i in bad:
                    total += 1
                    nxt = out[i + 1].strip() if i + 1 < len(out) and out[i].startswith("VIOLATION") else out[i]
                    print(f"  {p} {nxt[:230]}")
        finally:
            shutil.rmtree(ev, ignore_errors=True)
            if not keep:
                shutil.rmtree(root, ignore_errors=True)
    print(f"alarms={total}")
    return 1 if total else 0


if __name__ == "__main__":
    sys.exit(main())

#!/usr/bin/env python3
"""Whole-tree twins that change only HOW arguments are passed at call sites whose callee is resolved inside the repository
(all candidate callees must agree on the positional parameter list):
   kw2pos : f(x, b=B, c=C)  ->  f(x, B, C)      when the keywords continue the positional parameters in order
   pos2kw : f(x, B, C)      ->  f(x, b=B, c=C)  for every positional argument after the first
The transformed tree is written to a scratch directory, the library's own tests can be run on it (--baseline) and every check is
run against it; a VIOLATION is a false alarm.   usage: tools/argstyle_twins.py [--kinds kw2pos,pos2kw] [--baseline] [--keep]"""
import ast
import os
import shutil
import subprocess
import sys
import tempfile
import warnings

warnings.simplefilter("ignore")
HERE = os.path.dirname(os.path.abspath(__file__))
VERIF = os.path.dirname(HERE)
sys.path.insert(0, VERIF)
from msdmlint.model import Program            # noqa: E402
from msdmlint.dag import Expander             # noqa: E402
from msdmlint.callgraph import CallGraph      # noqa: E402

REPO = os.environ.get("MSDM_REPO", "/repo")


def plan(kind):
    """{relpath: [(lineno, col, end_lineno, end_col, new_call_text)]} computed on the ORIGINAL (unstripped) sources."""
    P = Program(REPO)
    X = Expander(P)
    G = CallGraph(P, X)
    edits = {}
    for fi in P.all_functions():
        for cs in G.sites(fi):
            if cs.kind not in ("direct", "self", "constructor") or not cs.targets:
                continue
            c = cs.node
            if any(isinstance(a, ast.Starred) for a in c.args) or any(k.arg is None for k in c.keywords):
                continue
            sigs = set()
            for t in cs.targets:
                pp = list(t.positional_params)
                if t.cls is not None and pp and pp[0] in ("self", "cls") and "staticmethod" not in t.decorators:
                    pp = pp[1:]
                if t.args.vararg or t.args.posonlyargs:
                    pp = None
                sigs.add(tuple(pp) if pp is not None else None)
            if len(sigs) != 1 or None in sigs:
                continue
            params = list(next(iter(sigs)))
            new = None
            if kind == "kw2pos" and c.keywords:
                args = list(c.args)
                kws = list(c.keywords)
                while kws and len(args) < len(params) and kws[0].arg == params[len(args)]:
                    args.append(kws.pop(0).value)
                if len(args) != len(c.args):
                    new = ast.Call(func=c.func, args=args, keywords=kws)
            elif kind == "pos2kw" and len(c.args) > 1 and len(c.args) <= len(params):
                kws = [ast.keyword(arg=params[i], value=a) for i, a in enumerate(c.args) if i >= 1]
                new = ast.Call(func=c.func, args=c.args[:1], keywords=kws + list(c.keywords))
            if new is not None:
                edits.setdefault(fi.module.relpath, []).append((c, ast.unparse(ast.fix_missing_locations(ast.copy_location(new, c)))))
    return P, edits


def build(kind, root):
    subprocess.run(f"git -C {REPO} archive HEAD | tar -x -C {root}", shell=True, check=True)
    P, edits = plan(kind)
    n = 0
    for rel, es in edits.items():
        path = os.path.join(root, rel)
        lines = open(path, encoding="utf-8").read().split("\n")
        # innermost-last: apply from the end of the file backwards, skipping edits nested inside an already edited span
        es.sort(key=lambda e: (e[0].lineno, e[0].col_offset), reverse=True)
        done = []
        for c, txt in es:
            if any(d.lineno <= c.lineno <= d.end_lineno and (c.lineno, c.col_offset) >= (d.lineno, d.col_offset) and (c.end_lineno, c.end_col_offset) <= (d.end_lineno, d.end_col_offset) for d in done):
                continue
            if any(c.lineno <= d.lineno and d.end_lineno <= c.end_lineno and (d.lineno, d.col_offset) >= (c.lineno, c.col_offset) and (d.end_lineno, d.end_col_offset) <= (c.end_lineno, c.end_col_offset) for d in done):
                continue       # an inner call was already rewritten: the outer text would be stale
            l0, c0, l1, c1 = c.lineno - 1, c.col_offset, c.end_lineno - 1, c.end_col_offset
            # col offsets are utf-8 byte offsets
            b0 = lines[l0].encode("utf-8")
            b1 = lines[l1].encode("utf-8")
            head, tail = b0[:c0].decode("utf-8"), b1[c1:].decode("utf-8")
            lines[l0:l1 + 1] = [head + txt + tail]
            done.append(c)
            n += 1
        src = "\n".join(lines)
        compile(src, path, "exec")
        open(path, "w", encoding="utf-8").write(src)
    return n


def main():
    kinds = ["kw2pos", "pos2kw"]
    props = ["C%02d" % i for i in range(1, 21)]
    baseline = keep = False
    argv = sys.argv[1:]
    while argv:
        a = argv.pop(0)
        if a == "--kinds":
            kinds = argv.pop(0).split(",")
        elif a == "--baseline":
            baseline = True
        elif a == "--keep":
            keep = True
        elif a == "--props":
            props = argv.pop(0).split(",")
    total = 0
    for k in kinds:
        root = tempfile.mkdtemp(prefix=f"msdm_tw_{k}_")
        ev = tempfile.mkdtemp(prefix=f"msdm_ev_{k}_")
        try:
            n = build(k, root)
            print(f"=== {k}: {n} call sites rewritten  ({root})")
            if baseline:
                r = subprocess.run(["/venv/bin/python", os.path.join(HERE, "run_baseline.py"), root], capture_output=True, text=True, env={**os.environ, "BASELINE_XDIST": "8"})
                print("  " + (r.stdout.strip().splitlines() or ["?"])[-1])
            procs = {p: subprocess.Popen([os.path.join(VERIF, "check"), p, "--repo", root], stdout=subprocess.PIPE, stderr=subprocess.STDOUT, text=True,
                                         env={**os.environ, "VERIF_EVIDENCE_DIR": ev}) for p in props}
            for p, pr in procs.items():
                out = pr.communicate()[0].splitlines()
                for i, l in enumerate(out):
                    if l.startswith("VIOLATION") or "ANALYSIS-ERROR" in l:
                        total += 1
                        print(f"  {p} {(out[i + 1].strip() if l.startswith('VIOLATION') and i + 1 < len(out) else l)[:230]}")
        finally:
            shutil.rmtree(ev, ignore_errors=True)
            if not keep:
                shutil.rmtree(root, ignore_errors=True)
    print(f"alarms={total}")
    return 1 if total else 0


if __name__ == "__main__":
    sys.exit(main())

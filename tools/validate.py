#!/usr/bin/env python3
"""validate MANIFEST.json and evidence/*.json against the schemas (run with python3-vt, which has jsonschema)."""
import json, glob, sys, jsonschema
ok = True
try:
    jsonschema.validate(json.load(open('/verif/MANIFEST.json')), json.load(open('/root/.vp/MANIFEST.schema.json')))
    print('MANIFEST ok')
except Exception as e:
    ok = False; print('MANIFEST INVALID', e)
sch = json.load(open('/root/.vp/EVIDENCE.schema.json'))
for p in sorted(glob.glob('/verif/evidence/*.json')):
    try:
        jsonschema.validate(json.load(open(p)), sch); print('ok', p)
    except Exception as e:
        ok = False; print('INVALID', p, str(e)[:300])
sys.exit(0 if ok else 1)

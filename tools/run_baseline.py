#!/usr/bin/env python3
"""Run the repository's pinned baseline test command (hooks: none exist, so guard is a no-op)
and compare with /root/.vp/BASELINE.json stable_pass.  Exit 0 iff every stable test passes."""
import json, os, subprocess, sys, tempfile, xml.etree.ElementTree as ET

def main():
    repo = sys.argv[1] if len(sys.argv) > 1 else "/repo"
    base = json.load(open("/root/.vp/BASELINE.json"))
    stable = set(base["stable_pass"])
    with tempfile.TemporaryDirectory() as td:
        xml = os.path.join(td, "junit.xml")
        env = dict(os.environ)
        env.pop("MSDM_VERIF", None)
        cmd = ["/venv/bin/python", "-m", "pytest", "-ra", "-q", "-p", "no:cacheprovider",
               "--timeout=900", "--continue-on-collection-errors", f"--junitxml={xml}"]
        if os.environ.get("BASELINE_XDIST"):
            cmd += ["-n", os.environ["BASELINE_XDIST"]]
        p = subprocess.run(cmd, cwd=repo, env=env, stdout=subprocess.PIPE, stderr=subprocess.STDOUT, text=True)
        passed = set()
        failed = set()
        for tc in ET.parse(xml).getroot().iter("testcase"):
            name = f"{tc.get('classname')}::{tc.get('name')}"
            bad = any(ch.tag in ("failure", "error", "skipped") for ch in tc)
            (failed if bad else passed).add(name)
    missing = sorted(stable - passed)
    print(f"baseline: {len(stable & passed)}/{len(stable)} stable tests pass; extra passing: {len(passed - stable)}")
    for m in missing:
        print("  NOT PASSING:", m)
    if missing:
        print(p.stdout[-4000:])
    return 1 if missing else 0

if __name__ == "__main__":
    sys.exit(main())

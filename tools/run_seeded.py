#!/usr/bin/env python3
"""Run the registered checks against every seeded defect in /verif/seeded (in-memory variant of the
current /repo tree with the patch applied to a scratch copy of the touched files).  Prints a kill matrix.
usage: tools/run_seeded.py [seed-id ...] [--all-props]"""
import glob, json, os, sys
sys.path.insert(0, os.path.dirname(os.path.dirname(os.path.abspath(__file__))))
from msdmlint.selftest import _seeded_overrides
from msdmlint.cli import run_property
from msdmlint.model import AnalysisError
from msdmlint.registry import PROPS, has_checker
from msdmlint.report import load_known

repo = os.environ.get("MSDM_REPO", "/repo")
ids = [a for a in sys.argv[1:] if not a.startswith("--")]
allprops = "--all-props" in sys.argv
for meta_path in sorted(glob.glob("/verif/seeded/*/meta.json")):
    meta = json.load(open(meta_path))
    sid = meta["id"]
    if ids and sid not in ids:
        continue
    ov = _seeded_overrides(repo, os.path.join(os.path.dirname(meta_path), "patch.diff"))
    if ov is None:
        print(f"{sid}: patch does not apply"); continue
    props = [p for p in PROPS if has_checker(p)] if allprops else [meta["property"]]
    hits = []
    for p in props:
        if not has_checker(p):
            hits.append(f"{p}: no checker"); continue
        known = {k["key"] for k in load_known().get("known", []) if k.get("property") == p}
        try:
            ctx, _ = run_property(p, repo, "quick", ov)
            v = [o for o in ctx.obs if o.verdict == "VIOLATION" and o.key(p) not in known]
            if v:
                hits.append(f"{p}: " + "; ".join(f"{o.rule} {o.function} [{o.instance}]" for o in v[:3]))
            elif not allprops:
                hits.append(f"{p}: silent")
        except AnalysisError as e:
            hits.append(f"{p}: ANALYSIS-ERROR {str(e)[:120]}")
    print(f"{sid} ({meta['property']}): " + (" | ".join(hits) if hits else "silent"))

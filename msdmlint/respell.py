"""Behaviour-preserving respellings of a module (used by the confirmation step of the CLI and by the twin generators in /verif/tools):
   inline_all    : every local assigned once and read once, in the immediately following simple statement, is replaced by its definition
   extract_temps : a call argument that is itself a call is moved into a fresh temporary
Both keep evaluation order (up to the purity of names / attribute reads) and therefore behaviour."""
from __future__ import annotations

import ast


def _pure(n):
    return all(isinstance(x, (ast.Name, ast.Attribute, ast.Constant, ast.Subscript, ast.BinOp, ast.UnaryOp, ast.Load, ast.operator, ast.unaryop,
                              ast.Tuple, ast.Slice, ast.expr_context)) for x in ast.walk(n))


def extract_temps(src):
    """x = f(a, g(b))  ->  _t1 = g(b); x = f(a, _t1)   for simple assignment / return statements whose call has a call argument
    preceded only by call-free arguments (evaluation order is preserved)."""
    tree = ast.parse(src)
    n = [0]

    def do_block(body):
        out = []
        for st in body:
            for fld in ("body", "orelse", "finalbody"):
                b = getattr(st, fld, None)
                if isinstance(b, list) and b and isinstance(b[0], ast.stmt):
                    setattr(st, fld, do_block(b))
            for h in getattr(st, "handlers", []) or []:
                h.body = do_block(h.body)
            v = st.value if isinstance(st, (ast.Assign, ast.Return)) else None
            if isinstance(v, ast.Call) and _pure(v.func) and not any(isinstance(a, ast.Starred) for a in v.args):
                for i, a in enumerate(v.args):
                    if isinstance(a, ast.Call) and all(_pure(b) for b in v.args[:i]) and not any(isinstance(x, (ast.Lambda, ast.NamedExpr, ast.Yield, ast.Await)) for x in ast.walk(a)):
                        n[0] += 1
                        t = f"_xt{n[0]}"
                        out.append(ast.Assign(targets=[ast.Name(id=t, ctx=ast.Store())], value=a, lineno=st.lineno))
                        v.args[i] = ast.Name(id=t, ctx=ast.Load())
                        break
                    if not _pure(a):
                        break
            out.append(st)
        return out

    def walk_fns(body, infn):
        for st in body:
            if isinstance(st, (ast.FunctionDef, ast.AsyncFunctionDef)):
                st.body = do_block(st.body)
                walk_fns(st.body, True)
            elif isinstance(st, ast.ClassDef):
                walk_fns(st.body, infn)
    walk_fns(tree.body, False)
    ast.fix_missing_locations(tree)
    return ast.unparse(tree) + "\n", n[0]


def inline_all(tree):
    """a local assigned once in its function and read once, in the immediately following simple statement of the same block
    (not inside a lambda / comprehension), is replaced by its defining expression."""
    for fn in [n for n in ast.walk(tree) if isinstance(n, (ast.FunctionDef, ast.AsyncFunctionDef))]:
        if any(isinstance(x, ast.Call) and isinstance(x.func, ast.Name) and x.func.id in ("locals", "vars") for x in ast.walk(fn)):
            continue
        changed = True
        while changed:
            changed = False
            cnt = {}
            for x in ast.walk(fn):
                if isinstance(x, ast.Name):
                    cnt.setdefault(x.id, [0, 0])[0 if isinstance(x.ctx, ast.Load) else 1] += 1
            for blk_owner in ast.walk(fn):
                for fld in ("body", "orelse", "finalbody"):
                    b = getattr(blk_owner, fld, None)
                    if not (isinstance(b, list) and b and isinstance(b[0], ast.stmt)):
                        continue
                    i = 0
                    while i + 1 < len(b):
                        st, nx = b[i], b[i + 1]
                        if (isinstance(st, ast.Assign) and len(st.targets) == 1 and isinstance(st.targets[0], ast.Name) and cnt.get(st.targets[0].id) == [1, 1]
                                and isinstance(nx, (ast.Assign, ast.AugAssign, ast.Return, ast.Expr, ast.Assert))):
                            name = st.targets[0].id
                            uses = [x for x in ast.walk(nx) if isinstance(x, ast.Name) and x.id == name and isinstance(x.ctx, ast.Load)]
                            scoped = any(isinstance(p, (ast.Lambda, ast.ListComp, ast.SetComp, ast.DictComp, ast.GeneratorExp)) and any(u is y for y in ast.walk(p) for u in uses) for p in ast.walk(nx))
                            if len(uses) == 1 and not scoped:
                                val = st.value

                                class R(ast.NodeTransformer):
                                    def visit_Name(s_, node):
                                        return val if node is uses[0] else node
                                b[i + 1] = R().visit(nx)
                                del b[i]
                                changed = True
                                continue
                        i += 1
    return tree


def respell(kind: str, src: str) -> str:
    import warnings
    with warnings.catch_warnings():
        warnings.simplefilter("ignore")
        return _respell(kind, src)


def _respell(kind: str, src: str) -> str:
    if kind == "inlineall":
        t = inline_all(ast.parse(src))
        ast.fix_missing_locations(t)
        return ast.unparse(t) + "\n"
    if kind == "extract":
        return extract_temps(src)[0]
    raise ValueError(kind)

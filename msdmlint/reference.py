"""The reviewed reference.

Every rule of this machinery was written against, and confirmed by reading on, one particular tree (the pinned commit plus the `fix:` commits).
`/verif/reference.json` (written by `tools/make_reference.py` from that tree) records, per function, a multiset of fingerprints of its
statements with the spelling of locals removed, and per property the files in which the property's obligations were found.

At check time the same fingerprints are computed for the tree under analysis.  A function whose statements differ from the reference by
at least RESTRUCTURED (statements removed + statements added; a changed statement counts twice), or a property whose files changed by SCOPE_TOTAL statements / SCOPE_FUNCTIONS functions in all, is *restructured*: it has been rewritten, not
locally edited.  The structural rules of this machinery state necessary conditions on the shape of the reviewed code; on a rewritten function
they can no longer tell a defect from a different spelling of the same behaviour, so their reports there are withdrawn (UNKNOWN, printed as
NOT-DECIDED) instead of being raised as violations.  A local edit — which is what a slip or a seeded defect is — stays below the threshold and is
judged with the full rule set.  Measured when this was introduced: 97 confirmed seeded defects have a largest per-function distance of 0–11
(92 of them below 7); 43 behaviour-preserving refactorings written by independent agents have 4–27 (38 of them 7 or more)."""
from __future__ import annotations

import ast
import builtins
import copy
import hashlib
import json
import os
from collections import Counter
from typing import Dict, Optional

VERIF = os.path.dirname(os.path.dirname(os.path.abspath(__file__)))
REFERENCE = os.path.join(VERIF, "reference.json")
RESTRUCTURED = 12
_BI = set(dir(builtins))


class _Norm(ast.NodeTransformer):
    def __init__(self, keep):
        self.keep = keep

    def visit_Name(self, n):
        return n if n.id in self.keep else ast.copy_location(ast.Name(id="_", ctx=n.ctx), n)

    def visit_arg(self, n):
        return ast.arg(arg="_", annotation=None)


def module_fingerprints(tree: ast.Module) -> Dict[str, Counter]:
    """qualified function name (Class.method, outer.inner) -> multiset of statement fingerprints (headers only for compound statements)."""
    mod_names = set()
    for st in tree.body:
        if isinstance(st, (ast.Import, ast.ImportFrom)):
            for a in st.names:
                mod_names.add((a.asname or a.name).split(".")[0])
        elif isinstance(st, (ast.FunctionDef, ast.AsyncFunctionDef, ast.ClassDef)):
            mod_names.add(st.name)
        elif isinstance(st, ast.Assign):
            for t in st.targets:
                if isinstance(t, ast.Name):
                    mod_names.add(t.id)
    keep = _BI | mod_names | {"self", "cls"}
    out: Dict[str, Counter] = {}

    def visit(body, prefix):
        for st in body:
            if isinstance(st, (ast.FunctionDef, ast.AsyncFunctionDef)):
                q = prefix + st.name
                items = []
                for n in ast.walk(st):
                    if not isinstance(n, ast.stmt) or n is st or isinstance(n, ast.Pass) or (isinstance(n, ast.Expr) and isinstance(n.value, ast.Constant)):
                        continue
                    if isinstance(n, (ast.FunctionDef, ast.AsyncFunctionDef, ast.ClassDef)):
                        items.append("def")
                        continue
                    m = copy.deepcopy(n)
                    for f in ("body", "orelse", "finalbody", "handlers"):
                        if hasattr(m, f):
                            setattr(m, f, [])
                    m = _Norm(keep).visit(m)
                    items.append(hashlib.md5(ast.dump(m).encode()).hexdigest()[:10])
                out[q] = Counter(items)
                visit(st.body, q + ".")
            elif isinstance(st, ast.ClassDef):
                visit(st.body, prefix + st.name + ".")
    visit(tree.body, "")
    return out


def program_fingerprints(P) -> Dict[str, Dict[str, int]]:
    """'relpath::qualname' -> {fingerprint: count} for every function of the analysed package (computed from the ORIGINAL source text)."""
    out = {}
    for m in P.modules.values():
        try:
            import warnings
            with warnings.catch_warnings():
                warnings.simplefilter("ignore")
                tree = ast.parse(m.source)
        except SyntaxError:
            continue
        for q, c in module_fingerprints(tree).items():
            out[f"{m.relpath}::{q}"] = dict(c)
    return out


def load_reference() -> Optional[dict]:
    try:
        return json.load(open(REFERENCE))
    except Exception:
        return None


SCOPE_TOTAL = 12        # statements changed over all functions of a property's files
SCOPE_FUNCTIONS = 4     # functions changed in a property's files


def function_distances(P) -> Dict[str, int]:
    """'relpath::qualname' -> distance to the reference, for every function that differs (functions that are new or gone count with their size)."""
    ref = load_reference()
    if ref is None:
        return {}
    old = ref.get("functions", {})
    new = program_fingerprints(P)
    out = {}
    for k in set(old) | set(new):
        a, b = Counter(old.get(k, {})), Counter(new.get(k, {}))
        d = sum(((a - b) + (b - a)).values())
        if d:
            out[k] = d
    return out


def restructured_functions(P) -> Dict[str, int]:
    return {k: d for k, d in function_distances(P).items() if d >= RESTRUCTURED}


def scope_rewritten(dist: Dict[str, int]) -> bool:
    """the edit over a property's files is a refactoring, not a local edit: many statements, or many functions, changed.
    Measured: 97 confirmed seeded defects change 0-3 functions (96 of them at most 2) with a total distance of 0-11 (one: 22);
    51 behaviour-preserving refactorings by independent agents change 2-18 functions (50 of them at least 3) with a total of 13-109."""
    return sum(dist.values()) >= SCOPE_TOTAL or len(dist) >= SCOPE_FUNCTIONS


def key_of(site: str, function: str) -> str:
    """obligation (site 'relpath:line', function 'Class.method[.inner][.<lambda>]') -> fingerprint key."""
    rel = site.rsplit(":", 1)[0]
    f = function
    while f.endswith(".<lambda>"):
        f = f[: -len(".<lambda>")]
    return f"{rel}::{f}"

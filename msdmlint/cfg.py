"""Per-function statement CFG, dominators / post-dominators / control dependence and
reaching definitions (with partial stores modelled as re-definitions that remember the
previous value)."""
from __future__ import annotations

import ast
from dataclasses import dataclass, field
from typing import Dict, List, Optional, Set, Tuple

from .model import FunctionInfo, dotted

MUTATORS = {"append", "extend", "add", "update", "insert", "setdefault", "remove", "discard",
            "clear", "shuffle", "sort", "reverse", "popitem", "appendleft", "extendleft"}
# methods that both mutate and return something useful
MUT_RETURNING = {"pop", "popleft"}


@dataclass(eq=False)
class Node:
    id: int
    kind: str                      # entry | exit | raise | stmt | if | while | for | with | except | loopelse
    ast: Optional[ast.AST] = None  # the statement (for compound statements: the statement itself)
    succ: List[Tuple[int, str]] = field(default_factory=list)
    pred: List[Tuple[int, str]] = field(default_factory=list)
    loops: Tuple[int, ...] = ()    # ids of enclosing loop header nodes (outermost first)
    trys: Tuple[int, ...] = ()

    @property
    def lineno(self):
        return getattr(self.ast, "lineno", 0)


@dataclass(eq=False)
class Def:
    id: int
    node: int
    var: str
    kind: str           # param | assign | aug | store | augstore | mut | for | with | import | funcdef | classdef | except | del | viewstore
    value: Optional[ast.AST] = None     # rhs expression / iter / context expr
    path: Tuple = ()                    # unpack path for tuple targets, e.g. (1,) or ('star', 2)
    index: Optional[ast.AST] = None     # subscript index for stores
    op: Optional[ast.AST] = None        # operator for aug
    method: Optional[str] = None        # for mut
    args: Tuple = ()                    # for mut: the call node
    via: Optional[str] = None           # for viewstore: name of the view variable
    view_index: Optional[ast.AST] = None  # for viewstore: the subscript that created the view (None: reshape/view())
    stmt: Optional[ast.AST] = None


def var_key(node: ast.AST) -> Optional[str]:
    """Key of a variable-like expression: Name or Name.attr.attr chain."""
    return dotted(node)


class FunctionCFG:
    def __init__(self, fi: FunctionInfo):
        self.fi = fi
        self.nodes: List[Node] = []
        self.defs: List[Def] = []
        self.node_defs: Dict[int, List[Def]] = {}
        self.node_of_stmt: Dict[int, int] = {}      # id(ast stmt) -> node id
        self._loop_stack: List[Tuple[int, List, List]] = []   # (header id, break preds, continue target)
        self._try_stack: List[List[int]] = []       # handler entry node ids
        self.entry = self._new("entry")
        self.exit = self._new("exit")
        self.raise_exit = self._new("raise")
        self._params()
        outs = self._seq(fi.body, [(self.entry.id, "next")])
        for p, lab in outs:
            self._edge(p, self.exit.id, lab)
        self._stmt_owner: Dict[int, int] = {}
        self._index_exprs()
        self._compute_rd()
        self._dom = None
        self._pdom = None

    # ------------------------------------------------------------------ construction
    def _new(self, kind, node=None) -> Node:
        n = Node(len(self.nodes), kind, node,
                 loops=tuple(l[0] for l in self._loop_stack) if hasattr(self, "_loop_stack") else (),
                 trys=tuple(range(len(self._try_stack))) if hasattr(self, "_try_stack") else ())
        self.nodes.append(n)
        if node is not None and id(node) not in self.node_of_stmt:
            self.node_of_stmt[id(node)] = n.id
        return n

    def _edge(self, a: int, b: int, label: str = "next"):
        self.nodes[a].succ.append((b, label))
        self.nodes[b].pred.append((a, label))

    def _connect(self, preds, target: int):
        for p, lab in preds:
            self._edge(p, target, lab)

    def _adddef(self, node: Node, var: str, kind: str, **kw) -> Def:
        d = Def(len(self.defs), node.id, var, kind, stmt=node.ast, **kw)
        self.defs.append(d)
        self.node_defs.setdefault(node.id, []).append(d)
        return d

    def _params(self):
        for p in self.fi.param_names:
            self._adddef(self.entry, p, "param")

    def _exc_edges(self, n: Node):
        """a statement inside try may jump to each handler of the innermost try (and outward)."""
        if self._try_stack:
            for h in self._try_stack[-1]:
                self._edge(n.id, h, "exc")

    def _seq(self, stmts, preds):
        for st in stmts:
            preds = self._stmt(st, preds)
        return preds

    def _stmt(self, st: ast.stmt, preds):
        if isinstance(st, ast.If):
            n = self._new("if", st)
            self._connect(preds, n.id)
            self._exc_edges(n)
            t = self._seq(st.body, [(n.id, "T")])
            f = self._seq(st.orelse, [(n.id, "F")]) if st.orelse else [(n.id, "F")]
            return t + f
        if isinstance(st, (ast.While, ast.For, ast.AsyncFor)):
            kind = "while" if isinstance(st, ast.While) else "for"
            n = self._new(kind, st)
            self._connect(preds, n.id)
            self._exc_edges(n)
            if kind == "for":
                self._target_defs(n, st.target, "for", st.iter, ())
            breaks: List = []
            self._loop_stack.append((n.id, breaks, None))
            body_out = self._seq(st.body, [(n.id, "T")])
            self._loop_stack.pop()
            for p, lab in body_out:
                self._edge(p, n.id, "back" if lab == "next" else lab + "|back")
            infinite = isinstance(st, ast.While) and isinstance(st.test, ast.Constant) and bool(st.test.value)
            outs = [] if infinite else [(n.id, "F")]
            if st.orelse:
                outs = self._seq(st.orelse, outs)
            return outs + breaks
        if isinstance(st, (ast.With, ast.AsyncWith)):
            n = self._new("with", st)
            self._connect(preds, n.id)
            self._exc_edges(n)
            for item in st.items:
                if item.optional_vars is not None:
                    self._target_defs(n, item.optional_vars, "with", item.context_expr, ())
            return self._seq(st.body, [(n.id, "next")])
        if isinstance(st, ast.Try) or st.__class__.__name__ == "TryStar":
            handlers = []
            for h in st.handlers:
                hn = self._new("except", h)
                if h.name:
                    self._adddef(hn, h.name, "except", value=h.type)
                handlers.append(hn)
            marker = self._new("try", st)
            self._connect(preds, marker.id)
            self._try_stack.append([h.id for h in handlers])
            body_out = self._seq(st.body, [(marker.id, "next")])
            self._try_stack.pop()
            if st.orelse:
                body_out = self._seq(st.orelse, body_out)
            outs = list(body_out)
            for hn, h in zip(handlers, st.handlers):
                outs += self._seq(h.body, [(hn.id, "next")])
            if st.finalbody:
                outs = self._seq(st.finalbody, outs)
            return outs
        if isinstance(st, ast.Return):
            n = self._new("stmt", st)
            self._connect(preds, n.id)
            self._exc_edges(n)
            self._edge(n.id, self.exit.id, "return")
            return []
        if isinstance(st, ast.Raise):
            n = self._new("stmt", st)
            self._connect(preds, n.id)
            if self._try_stack:
                for h in self._try_stack[-1]:
                    self._edge(n.id, h, "exc")
            else:
                self._edge(n.id, self.raise_exit.id, "raise")
            return []
        if isinstance(st, ast.Break):
            n = self._new("stmt", st)
            self._connect(preds, n.id)
            if self._loop_stack:
                self._loop_stack[-1][1].append((n.id, "break"))
            return []
        if isinstance(st, ast.Continue):
            n = self._new("stmt", st)
            self._connect(preds, n.id)
            if self._loop_stack:
                self._edge(n.id, self._loop_stack[-1][0], "continue|back")
            return []
        # simple statements (including nested defs)
        n = self._new("stmt", st)
        self._connect(preds, n.id)
        self._exc_edges(n)
        self._simple_defs(n, st)
        if isinstance(st, ast.Assert):
            # failing assert leaves the function
            if self._try_stack:
                pass
            else:
                self._edge(n.id, self.raise_exit.id, "assert-fail")
        return [(n.id, "next")]

    # ------------------------------------------------------------------ definitions
    def _target_defs(self, n: Node, target: ast.AST, kind: str, value: ast.AST, path: Tuple):
        if isinstance(target, (ast.Tuple, ast.List)):
            for i, el in enumerate(target.elts):
                if isinstance(el, ast.Starred):
                    self._target_defs(n, el.value, kind, value, path + (("star", i),))
                else:
                    self._target_defs(n, el, kind, value, path + (i,))
            return
        if isinstance(target, ast.Subscript):
            k = var_key(target.value)
            if k is not None:
                sl = target.slice
                full = (isinstance(sl, ast.Slice) and sl.lower is None and sl.upper is None and sl.step is None) or \
                    (isinstance(sl, ast.Constant) and sl.value is Ellipsis)
                if full and kind == "assign":
                    # X[:] = e / X[...] = e overwrite every element: a redefinition of X
                    self._adddef(n, k, "assign", value=value, path=path)
                    return
                self._adddef(n, k, "store", value=value, index=target.slice, path=path)
                self._view_store(n, k, target.slice, value, path)
            return
        k = var_key(target)
        if k is not None:
            self._adddef(n, k, kind, value=value, path=path)

    def _view_store(self, n: Node, k: str, index, value, path):
        # resolved later (needs reaching defs): remember the store for alias post-processing
        self.__dict__.setdefault("_pending_views", []).append((n, k, index, value, path))

    def _simple_defs(self, n: Node, st: ast.stmt):
        if isinstance(st, ast.Assign):
            for t in st.targets:
                self._target_defs(n, t, "assign", st.value, ())
        elif isinstance(st, ast.AnnAssign):
            if st.value is not None:
                self._target_defs(n, st.target, "assign", st.value, ())
        elif isinstance(st, ast.AugAssign):
            if isinstance(st.target, ast.Subscript):
                k = var_key(st.target.value)
                if k is not None:
                    self._adddef(n, k, "augstore", value=st.value, index=st.target.slice, op=st.op)
            else:
                k = var_key(st.target)
                if k is not None:
                    self._adddef(n, k, "aug", value=st.value, op=st.op)
        elif isinstance(st, (ast.Import, ast.ImportFrom)):
            for a in st.names:
                self._adddef(n, (a.asname or a.name.split(".")[0]), "import", value=st)
        elif isinstance(st, (ast.FunctionDef, ast.AsyncFunctionDef)):
            self._adddef(n, st.name, "funcdef", value=st)
        elif isinstance(st, ast.ClassDef):
            self._adddef(n, st.name, "classdef", value=st)
        elif isinstance(st, ast.Delete):
            for t in st.targets:
                k = var_key(t)
                if k is not None:
                    self._adddef(n, k, "del")
        elif isinstance(st, ast.Expr) and isinstance(st.value, ast.Call):
            c = st.value
            if isinstance(c.func, ast.Attribute) and c.func.attr in (MUTATORS | MUT_RETURNING):
                k = var_key(c.func.value)
                if k is not None:
                    self._adddef(n, k, "mut", value=c, method=c.func.attr)
            # f(..., out=X) defines X
            for kw in c.keywords:
                if kw.arg == "out":
                    k = var_key(kw.value)
                    if k is not None:
                        self._adddef(n, k, "assign", value=c)
        # `y = x.pop()` style: mutation inside an assignment value
        if isinstance(st, (ast.Assign, ast.AnnAssign, ast.Return, ast.Expr)):
            val = getattr(st, "value", None)
            if val is not None:
                for c in ast.walk(val):
                    if isinstance(c, ast.Call) and isinstance(c.func, ast.Attribute) \
                            and c.func.attr in MUT_RETURNING and not (isinstance(st, ast.Expr) and c is st.value):
                        k = var_key(c.func.value)
                        if k is not None:
                            self._adddef(n, k, "mut", value=c, method=c.func.attr)
                    if isinstance(c, ast.Call) and not (isinstance(st, ast.Expr) and c is st.value):
                        for kw in c.keywords:
                            if kw.arg == "out":
                                k = var_key(kw.value)
                                if k is not None:
                                    self._adddef(n, k, "assign", value=c)

    # ------------------------------------------------------------------ expression index
    def _index_exprs(self):
        """map every expression node (id) to the CFG node that evaluates it."""
        self.expr_node: Dict[int, int] = {}
        for n in self.nodes:
            if n.ast is None:
                continue
            roots = self.header_exprs(n)
            for r in roots:
                for sub in ast.walk(r):
                    self.expr_node.setdefault(id(sub), n.id)

    def header_exprs(self, n: Node) -> List[ast.AST]:
        st = n.ast
        if n.kind == "if" or n.kind == "while":
            return [st.test]
        if n.kind == "for":
            return [st.iter, st.target]
        if n.kind == "with":
            out = []
            for it in st.items:
                out.append(it.context_expr)
                if it.optional_vars is not None:
                    out.append(it.optional_vars)
            return out
        if n.kind == "except":
            return [st.type] if st.type is not None else []
        if n.kind == "try":
            return []
        if n.kind == "stmt":
            if isinstance(st, (ast.FunctionDef, ast.AsyncFunctionDef)):
                return list(st.decorator_list) + list(st.args.defaults) + [d for d in st.args.kw_defaults if d is not None]
            if isinstance(st, ast.ClassDef):
                return list(st.bases) + list(st.decorator_list)
            return [st]
        return []

    # ------------------------------------------------------------------ reaching definitions
    def _kills(self, d: Def, other: Def) -> bool:
        if d.kind in ("store", "augstore", "mut", "viewstore"):
            return other.var == d.var          # the new def embeds the old value
        return other.var == d.var or other.var.startswith(d.var + ".")

    def _compute_rd(self):
        # first pass without view aliasing
        self._rd_pass()
        pend = self.__dict__.get("_pending_views", [])
        added = False
        for (n, k, index, value, path) in pend:
            base, vindex = self._view_base(n.id, k)
            if base is not None and base != k:
                self._adddef(n, base, "viewstore", value=value, index=index, path=path, via=k, view_index=vindex)
                added = True
        if added:
            self._rd_pass()

    def _view_base(self, node_id: int, k: str):
        """If variable k is (on every reaching definition) a basic-index view of another variable, return
        (base name, index expression or None)."""
        r = self._view_base0(node_id, k)
        return r if r is not None else (None, None)

    def _view_base0(self, node_id: int, k: str):
        ds = self.reaching(node_id, k)
        if len(ds) != 1:
            return None
        d = ds[0]
        hops = 0
        while d.kind in ("store", "augstore") and hops < 8:
            # earlier partial stores through the same view: go back to the definition of the view itself
            hops += 1
            ds = self.reaching(d.node, k, before_def=d)
            if len(ds) != 1:
                return None
            d = ds[0]
        if d.kind != "assign" or d.path:
            return None
        v = d.value
        # x[i] / x[i, ...] with integer-ish or slice index ; x.view() ; helper(x[...], shape)
        seen = 0
        while seen < 4:
            seen += 1
            if isinstance(v, ast.Subscript):
                b = var_key(v.value)
                return (b, v.slice if seen == 1 else None) if b is not None else None
            if isinstance(v, ast.Call):
                if isinstance(v.func, ast.Attribute) and v.func.attr in ("view", "reshape") and not v.keywords:
                    b = var_key(v.func.value)
                    if b is not None:
                        return (b, None)
                    v = v.func.value
                    continue
                fname = dotted(v.func) or ""
                if "no_copy_reshape" in fname and v.args:
                    v = v.args[0]
                    continue
            return None
        return None

    def _rd_pass(self):
        ndefs = len(self.defs)
        gen: Dict[int, List[Def]] = {n.id: list(self.node_defs.get(n.id, [])) for n in self.nodes}
        IN: List[Set[int]] = [set() for _ in self.nodes]
        OUT: List[Set[int]] = [set() for _ in self.nodes]
        work = list(range(len(self.nodes)))
        inwork = set(work)
        while work:
            i = work.pop(0)
            inwork.discard(i)
            n = self.nodes[i]
            newin: Set[int] = set()
            for p, _ in n.pred:
                newin |= OUT[p]
            IN[i] = newin
            cur = set(newin)
            for d in gen[i]:
                cur = {x for x in cur if not self._kills(d, self.defs[x])}
                cur.add(d.id)
            if cur != OUT[i]:
                OUT[i] = cur
                for s, _ in n.succ:
                    if s not in inwork:
                        work.append(s)
                        inwork.add(s)
        self.IN, self.OUT = IN, OUT

    def reaching(self, node_id: int, var: str, before_def: Optional[Def] = None) -> List[Def]:
        """Definitions of `var` reaching the *entry* of node (or, with before_def, the point just before
        that def inside the node)."""
        cur = set(self.IN[node_id])
        if before_def is not None:
            for d in self.node_defs.get(node_id, []):
                if d is before_def:
                    break
                cur = {x for x in cur if not self._kills(d, self.defs[x])}
                cur.add(d.id)
        return [self.defs[x] for x in sorted(cur) if self.defs[x].var == var]

    def reaching_after(self, node_id: int, var: str) -> List[Def]:
        return [self.defs[x] for x in sorted(self.OUT[node_id]) if self.defs[x].var == var]

    def defs_of(self, var: str) -> List[Def]:
        return [d for d in self.defs if d.var == var]

    def node_for(self, expr_or_stmt: ast.AST) -> Optional[int]:
        r = self.node_of_stmt.get(id(expr_or_stmt))
        if r is not None:
            return r
        return self.expr_node.get(id(expr_or_stmt))

    # ------------------------------------------------------------------ dominance
    def _dominators(self, forward: bool) -> List[Set[int]]:
        N = len(self.nodes)
        if forward:
            roots = [self.entry.id]
            preds = lambda i: [p for p, _ in self.nodes[i].pred]
        else:
            roots = [self.exit.id, self.raise_exit.id]
            preds = lambda i: [s for s, _ in self.nodes[i].succ]
        full = set(range(N))
        dom = [set(full) for _ in range(N)]
        for r in roots:
            dom[r] = {r}
        changed = True
        while changed:
            changed = False
            for i in range(N):
                if i in roots:
                    continue
                ps = preds(i)
                if not ps:
                    new = {i}
                else:
                    new = set(full)
                    for p in ps:
                        new &= dom[p]
                    new.add(i)
                if new != dom[i]:
                    dom[i] = new
                    changed = True
        return dom

    @property
    def dom(self):
        if self._dom is None:
            self._dom = self._dominators(True)
        return self._dom

    @property
    def pdom(self):
        if self._pdom is None:
            self._pdom = self._dominators(False)
        return self._pdom

    def dominates(self, a: int, b: int) -> bool:
        return a in self.dom[b]

    def postdominates(self, a: int, b: int) -> bool:
        return a in self.pdom[b]

    def reachable_from(self, a: int, avoid: Set[int] = frozenset(), skip_back: bool = False) -> Set[int]:
        seen = set()
        stack = [a]
        while stack:
            x = stack.pop()
            for s, lab in self.nodes[x].succ:
                if s in avoid or s in seen:
                    continue
                if skip_back and "back" in lab:
                    continue
                seen.add(s)
                stack.append(s)
        return seen

    def control_deps(self, x: int) -> List[Tuple[int, str]]:
        """(branch node, label) pairs on which node x is directly control dependent."""
        out = []
        for b in self.nodes:
            if len({s for s, _ in b.succ}) < 2:
                continue
            if b.id != x and self.postdominates(x, b.id):
                continue
            for s, lab in b.succ:
                if s == x or self.postdominates(x, s):
                    out.append((b.id, lab))
        return out

    def guards(self, x: int) -> List[Tuple[int, str]]:
        """(branch node B, label L): B dominates x and every path from B to x (not revisiting B) starts with the L edge.
        This is the path condition of x with respect to the branches that dominate it; unlike the transitive closure of
        control dependence it is not polluted by earlier loop iterations."""
        out: List[Tuple[int, str]] = []
        for b in self.nodes:
            if b.id == x or b.id not in self.dom[x]:
                continue
            labels: Dict[str, List[int]] = {}
            for s_, lab in b.succ:
                l0 = lab.split("|")[0]
                if l0 in ("exc", "assert-fail", "raise"):
                    continue
                labels.setdefault(l0, []).append(s_)
            if len(labels) < 2:
                continue
            via = []
            for l0, succs in labels.items():
                hit = False
                for s_ in succs:
                    if s_ == x or x in self.reachable_from(s_, avoid={b.id}):
                        hit = True
                if hit:
                    via.append(l0)
            if len(via) == 1:
                out.append((b.id, via[0]))
        return sorted(out)

    def all_paths_pass(self, src: int, dst: int, through: Set[int], skip_back: bool = False) -> bool:
        """True iff every CFG path from src to dst passes a node in `through` (src/dst themselves excluded)."""
        if src in through or dst in through:
            return True
        reach = self.reachable_from(src, avoid=set(through), skip_back=skip_back)
        return dst not in reach

    def stmt_nodes(self) -> List[Node]:
        return [n for n in self.nodes if n.ast is not None]


_CACHE: Dict[int, FunctionCFG] = {}


def cfg_of(fi: FunctionInfo) -> FunctionCFG:
    c = _CACHE.get(id(fi))
    if c is None:
        c = FunctionCFG(fi)
        _CACHE[id(fi)] = c
    return c


def clear_cache():
    _CACHE.clear()

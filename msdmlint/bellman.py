"""Rules over DAG terms that use the tensor typer: einsum kinds (TEN-1), variance (TEN-2), mask alignment and
table sinks (TEN-3), solve rank (TEN-5), discount degree (BEL-2), ingredient reachability (BEL-1)."""
from __future__ import annotations

import os
import re
import glob
from typing import Dict, Iterable, List, Optional, Set, Tuple

from .callgraph import ext_name
from .dag import T, walk, show
from .model import FunctionInfo
from .report import Ctx
from .tensor import Typer, KIND, MASKS, MODEL_ARRAYS, const_int, kwarg_t, PRESERVE_METHODS, PRESERVE_FUNCS, unzip


def loc_of(t: T, default_fi: FunctionInfo):
    if t.src:
        return t.src[0], t.src[1]
    return default_fi, default_fi.node


def calls_of(term: T, names: Set[str]) -> List[T]:
    out = []
    for x in walk(term):
        if x.op == "call":
            e = ext_name(x.args[0])
            if e in names:
                out.append(x)
    return out


# ------------------------------------------------------------------------------------------------ TEN-1 / TEN-2
def check_einsums(ctx: Ctx, term: T, typer: Typer, entry: FunctionInfo, rule1="TEN-1", rule2="TEN-2", seen: Optional[set] = None) -> int:
    n = 0
    seen = set() if seen is None else seen
    for c in calls_of(term, {"numpy.einsum", "torch.einsum"}):
        fi, node = loc_of(c, entry)
        key = (fi.qualname, getattr(node, "lineno", 0), getattr(node, "col_offset", 0))
        if key in seen:
            continue
        seen.add(key)
        args = c.args[1]
        if not args or args[0].op != "const" or not isinstance(args[0].args[0], str):
            ctx.unknown(rule1, fi, node, "einsum with non-literal subscripts", "")
            continue
        spec = args[0].args[0]
        ops = [typer.roles(a) for a in args[1:]]
        out, letters, problems = typer.einsum_out(spec, ops)
        n += 1
        inst = f"einsum('{spec}')"
        typed = sum(1 for o in ops if o is not None)
        if problems:
            ctx.violation(rule1, fi, node, inst, "; ".join(problems) + f" (operand roles {ops})")
        elif typed == 0:
            ctx.unknown(rule1, fi, node, inst, "no operand could be typed")
        else:
            ctx.passed(rule1, fi, node, inst, f"operands {ops} -> {out}", facts={"letters": letters})
        ins = spec.replace(" ", "").split("->")[0].split(",")
        # the observation kernel is conditioned on the state *entered*: its state letter is the transition's successor letter
        t_sub = o_sub = None
        for sub, a, r in zip(ins, args[1:], ops):
            if r is None or len(sub) != len(r):
                continue
            core = a
            while core.op == "subscript":
                core = core.args[0]
            b = typer.base_array(core)
            if b is None and core.op == "phi":
                lv = typer.leaves(core)
                b = "transition_matrix" if lv == {"transition_matrix"} else None
            if b == "transition_matrix" and "S2" in r:
                t_sub = sub[r.index("S2")]
            if b == "observation_matrix" and "S2" in r:
                o_sub = sub[r.index("S2")]
        if t_sub is not None and o_sub is not None:
            ctx.check(t_sub == o_sub, rule2, fi, node, f"einsum('{spec}'): observation kernel bound to the successor state", "",
                      f"the observation kernel's state axis uses letter '{o_sub}' but the transition kernel's successor axis is '{t_sub}': "
                      f"observations would be conditioned on the state left instead of the state entered")
        # variance: a state vector contracted with a kernel
        kernels = []
        for sub, r in zip(ins, ops):
            if r is not None and "S" in r and "S2" in r and len(sub) == len(r):
                kernels.append((sub[r.index("S")], sub[r.index("S2")]))
        if not kernels:
            continue
        frm, to = kernels[0]
        for sub, a, r in zip(ins, args[1:], ops):
            if r is None or len(sub) != len(r):
                continue
            st_axes = [i for i, x in enumerate(r) if KIND.get(x) == "state"]
            if len(st_axes) != 1 or ("S" in r and "S2" in r):
                continue
            v = typer.variance(a)
            if v is None:
                continue
            ch = sub[st_axes[0]]
            if ch not in (frm, to):
                continue
            inst2 = f"einsum('{spec}') operand '{sub}' ({v})"
            if v == "Fn":
                ctx.check(ch == to, rule2, fi, node, inst2, "function of the state is pulled back along the successor axis",
                          f"a function of the state (values / rewards / mask) is contracted with the *source* axis '{frm}' of the kernel "
                          f"instead of its successor axis '{to}': this computes an occupancy-style push-forward of a value")
            else:
                ctx.check(ch == frm, rule2, fi, node, inst2, "measure over states is pushed forward along the source axis",
                          f"a measure over states (belief / initial distribution) is contracted with the *successor* axis '{to}' of the "
                          f"kernel instead of its source axis '{frm}'")
    return n


def check_elementwise(ctx: Ctx, term: T, typer: Typer, entry: FunctionInfo, rule="TEN-2", seen: Optional[set] = None) -> int:
    """adding / subtracting two (state x action ...) arrays whose state axes are the source axis in one and the
    successor axis in the other mixes a function of s with a function of s'."""
    n = 0
    seen = set() if seen is None else seen
    for x in walk(term):
        if x.op != "binop" or x.args[0] not in ("+", "-"):
            continue
        ra, rb = typer.roles(x.args[1]), typer.roles(x.args[2])
        if ra is None or rb is None or len(ra) < 2 or len(rb) < 2 or "A" not in ra or "A" not in rb:
            continue
        k = max(len(ra), len(rb))
        pa = ("1",) * (k - len(ra)) + tuple(ra)
        pb = ("1",) * (k - len(rb)) + tuple(rb)
        fi, node = loc_of(x, entry)
        key = (fi.qualname, getattr(node, "lineno", 0), getattr(node, "col_offset", 0), getattr(node, "end_lineno", 0),
               getattr(node, "end_col_offset", 0), "ew")
        if key in seen:
            continue
        seen.add(key)
        n += 1
        bad = [(a, b) for a, b in zip(pa, pb) if {a, b} == {"S", "S2"}]
        ctx.check(not bad, rule, fi, node, f"elementwise {x.args[0]} of arrays with roles {ra} and {rb}", "",
                  f"an array indexed by the source state {ra} is combined elementwise with one indexed by the successor state {rb}")
    return n


def check_elementwise_in_function(ctx: Ctx, fi: FunctionInfo, typer: Typer, rule="TEN-2", seen: Optional[set] = None) -> int:
    import ast as _ast
    from .util import fn_body_nodes
    seen = set() if seen is None else seen
    n = 0
    for node in fn_body_nodes(fi):
        if isinstance(node, _ast.Assign) and isinstance(node.value, _ast.BinOp):
            try:
                t = ctx.X.expr(fi, node.value)
            except RecursionError:
                continue
            n += check_elementwise(ctx, t, typer, fi, rule, seen)
    return n


def check_einsums_in_function(ctx: Ctx, fi: FunctionInfo, typer: Typer, rule1="TEN-1", rule2="TEN-2", seen: Optional[set] = None) -> int:
    """every einsum call site of a function (also those that only feed tests / asserts, which the result DAG does not contain)."""
    import ast as _ast
    from .util import fn_body_nodes
    seen = set() if seen is None else seen
    n = 0
    for node in fn_body_nodes(fi):
        if isinstance(node, _ast.Call) and isinstance(node.func, _ast.Attribute) and node.func.attr == "einsum":
            try:
                t = ctx.X.expr(fi, node)
            except RecursionError:
                continue
            n += check_einsums(ctx, t, typer, fi, rule1, rule2, seen)
    return n


# ------------------------------------------------------------------------------------------------ TEN-3 masks
def _mask_name(typer: Typer, t: T, depth: int = 0) -> Optional[str]:
    """name of the current-state mask a term is (possibly negated / cast / sliced with None)."""
    if depth > 10:
        return None
    b = typer.base_array(t)
    if b in MASKS:
        return b
    if t.op == "unary" and t.args[0] in ("~", "not"):
        return _mask_name(typer, t.args[1], depth + 1)
    if t.op == "binop" and t.args[0] in ("|", "&"):
        return _mask_name(typer, t.args[1], depth + 1) or _mask_name(typer, t.args[2], depth + 1)
    return None


def check_mask_stores(ctx: Ctx, term: T, typer: Typer, entry: FunctionInfo, rule="TEN-3", seen: Optional[set] = None) -> int:
    """partial stores X[mask, ...] = v and products X * mask[..None..]: a current-state mask may only index /
    align with the source ('S') axis of a kernel or reward array."""
    n = 0
    seen = set() if seen is None else seen
    for x in walk(term):
        if x.op == "where":
            idx, val, old = x.args
            r_old = typer.roles(old)
            if idx.op == "viewidx":
                vi = idx.args[2] if len(idx.args) > 2 else None
                if vi is not None and not (vi.op == "const" and vi.args[0] is None):
                    r_old = typer.index(r_old, vi)      # the store goes through a view X[i]
                elif vi is not None:
                    r_old = None
                idx = idx.args[1]
            items = list(idx.args[0]) if idx.op == "tuple" else [idx]
            pos = 0
            for it in items:
                if it.op == "const" and it.args[0] is None:
                    continue
                m = _mask_name(typer, it)
                if m is not None:
                    fi, node = loc_of(x, entry)
                    key = (fi.qualname, getattr(node, "lineno", 0), pos, m)
                    if key not in seen:
                        seen.add(key)
                        n += 1
                        inst = f"store under mask {m} on axis {pos}"
                        if r_old is None or pos >= len(r_old) or r_old[pos] == "?":
                            ctx.unknown(rule, fi, node, inst, f"array roles unknown ({r_old})")
                        elif len(r_old) == 1:
                            ctx.check(KIND.get(r_old[0]) == "state", rule, fi, node, inst, f"state vector {r_old}",
                                      f"a state mask indexes a vector with roles {r_old}")
                        else:
                            ctx.check(r_old[pos] == "S", rule, fi, node, inst, f"axis {pos} of {r_old} is the source-state axis",
                                      f"the current-state mask `{m}` indexes axis {pos} of an array with roles {r_old}; it must select "
                                      f"*rows of the source state* (axis role S), not the {r_old[pos]} axis")
                pos += 1
        elif x.op == "binop" and x.args[0] in ("*", "&"):
            for a, b in ((x.args[1], x.args[2]), (x.args[2], x.args[1])):
                inner = a
                while inner.op == "subscript":
                    inner = inner.args[0]
                m = _mask_name(typer, inner)
                if m is None:
                    continue
                ra, rb = typer.roles(a), typer.roles(b)
                if ra is None or rb is None or len(rb) < 2:
                    continue
                fi, node = loc_of(x, entry)
                key = (fi.qualname, getattr(node, "lineno", 0), "mul", m)
                if key in seen:
                    continue
                seen.add(key)
                n += 1
                k = max(len(ra), len(rb))
                pa = ("1",) * (k - len(ra)) + tuple(ra)
                pb = ("1",) * (k - len(rb)) + tuple(rb)
                hit = [pb[i] for i in range(k) if KIND.get(pa[i]) == "state"]
                inst = f"product with mask {m}"
                if not hit:
                    ctx.unknown(rule, fi, node, inst, f"mask roles {ra} vs {rb}")
                else:
                    ctx.check(hit[0] == "S", rule, fi, node, inst, f"mask aligned with the source-state axis of {rb}",
                              f"the current-state mask `{m}` (roles {ra}) is broadcast against the {hit[0]} axis of an array with roles {rb}; "
                              f"it must mask the source state (axis role S)")
    return n


# ------------------------------------------------------------------------------------------------ TEN-3 sinks
def check_sinks(ctx: Ctx, term: T, typer: Typer, entry: FunctionInfo, rule="TEN-3") -> int:
    n = 0
    for x in walk(term):
        if x.op != "call" or x.args[0].op != "attr":
            continue
        name = x.args[0].args[1]
        if name not in ("from_state_list", "from_state_action_lists"):
            continue
        recv = x.args[0].args[0]
        if recv.op != "classref":
            continue
        want = ("S",) if name == "from_state_list" else ("S", "A")
        if recv.args[0] is not None and "NextState" in recv.args[0].name and name == "from_state_action_lists":
            want = ("S", "A", "S2")
        params = ["state_list", "data"] if name == "from_state_list" else ["state_list", "action_list", "data"]
        vals: Dict[str, T] = {}
        for p, a in zip(params, x.args[1]):
            vals[p] = a
        for k, v in x.args[2]:
            vals[k] = v
        fi, node = loc_of(x, entry)
        data = vals.get("data")
        if data is None:
            continue
        n += 1
        r = typer.roles(data)
        inst = f"{recv.args[0].name if recv.args[0] else '?'}.{name}(data=...)"
        if r is None or any(a == "?" for a in r):
            ctx.unknown(rule, fi, node, inst, f"data roles {r}")
        else:
            kinds_ok = len(r) == len(want) and all(KIND[a] == KIND[b] for a, b in zip(r, want))
            ctx.check(kinds_ok, rule, fi, node, inst, f"data roles {r}",
                      f"the table's fields are {want} but the data array has roles {r}")
        for p, role in (("state_list", "state_list"), ("action_list", "action_list")):
            if p in vals:
                ok = vals[p].op == "attr" and vals[p].args[1] == role
                ctx.check(ok if ok else None, rule, fi, node, f"{inst} {p}", "", f"{p} is `{show(vals[p], 40)}`")
    return n


# ------------------------------------------------------------------------------------------------ TEN-5
def numpy_major() -> Optional[int]:
    """major version of the numpy installed in the repository's environment, read from dist-info as text."""
    for pat in ("/venv/lib/python*/site-packages/numpy-*.dist-info/METADATA",):
        for p in glob.glob(pat):
            try:
                for line in open(p, encoding="utf-8", errors="replace"):
                    if line.startswith("Version:"):
                        return int(line.split(":")[1].strip().split(".")[0])
            except OSError:
                pass
    return None


def check_solves(ctx: Ctx, term: T, typer: Typer, entry: FunctionInfo, rule="TEN-5") -> int:
    n = 0
    major = numpy_major()
    seen_solve = set()
    for c in calls_of(term, {"numpy.linalg.solve"}):
        if len(c.args[1]) != 2:
            continue
        fi, node = loc_of(c, entry)
        if (fi.qualname, getattr(node, "lineno", 0)) in seen_solve:
            continue
        seen_solve.add((fi.qualname, getattr(node, "lineno", 0)))
        ra, rb = typer.roles(c.args[1][0]), typer.roles(c.args[1][1])
        n += 1
        inst = "np.linalg.solve(A, b)"
        if ra is None or rb is None:
            ctx.unknown(rule, fi, node, inst, f"ranks unknown (A {ra}, b {rb})")
            continue
        if len(ra) >= 3 and len(rb) == len(ra) - 1:
            if major is None:
                ctx.unknown(rule, fi, node, inst, "numpy version of the environment could not be read")
            else:
                ctx.check(major < 2, rule, fi, node, inst, f"numpy {major}: b of rank {len(rb)} is a stack of vectors",
                          f"A has rank {len(ra)} {ra} and b rank {len(rb)} {rb}: numpy {major} (>=2) reads b as a stack of matrices and "
                          f"raises for every batch; pass b[..., None] and drop the axis afterwards")
        else:
            ctx.passed(rule, fi, node, inst, f"A {ra}, b {rb}")
    return n


# ------------------------------------------------------------------------------------------------ BEL-2
def monomials(t: T, depth: int = 0) -> List[List[T]]:
    """expand +,-,*,einsum into a sum of products of atom terms (partial stores / copies are looked through)."""
    if depth > 40:
        return [[t]]
    if t.op == "binop":
        o = t.args[0]
        if o in ("+", "-"):
            return monomials(t.args[1], depth + 1) + monomials(t.args[2], depth + 1)
        if o in ("*", "@"):
            out = []
            for a in monomials(t.args[1], depth + 1):
                for b in monomials(t.args[2], depth + 1):
                    out.append(a + b)
                    if len(out) > 400:
                        return [[t]]
            return out
        if o == "/":
            return [m + [T("recip", t.args[2])] for m in monomials(t.args[1], depth + 1)]
        return [[t]]
    if t.op == "unary" and t.args[0] in ("-", "+"):
        return monomials(t.args[1], depth + 1)
    if t.op == "where":
        val, old = t.args[1], t.args[2]
        if val.op != "const" and _allocish(old):
            return monomials(val, depth + 1)        # X = zeros(...); X[i] = v  (batch stacking)
        return monomials(old, depth + 1)
    if t.op == "inlined":
        return monomials(t.args[1], depth + 1)
    if t.op == "proj":
        return monomials(t.args[0], depth + 1)
    if t.op == "elem":
        u = unzip(t)
        if u is not None:
            return monomials(u, depth + 1)
    if t.op == "phi":
        # X = zeros(...); loop: X = <expr>  -> look through to the single real definition
        alts = [a for a in t.args[0] if a.op not in ("prev", "undef")
                and not (a.op == "call" and ext_name(a.args[0]) in ("numpy.zeros", "numpy.ones", "numpy.empty", "torch.zeros"))]
        if len(alts) == 1:
            return monomials(alts[0], depth + 1)
    if t.op == "subscript":
        # only pure views (slices, None/newaxis, ellipsis, constants) are looked through; selecting with an index
        # array / variable (argmax selection, gather) yields an opaque value
        idx = t.args[1]
        items = list(idx.args[0]) if idx.op == "tuple" else [idx]
        pure = all(i.op in ("slice", "const") or (i.op == "attr" and i.args[1] == "newaxis") for i in items)
        if not pure:
            return [[t]]
        inner = monomials(t.args[0], depth + 1)
        return inner if len(inner) > 1 or (inner and inner[0] and inner[0][0] is not t.args[0]) else [[t]]
    if t.op == "call":
        e = ext_name(t.args[0])
        f = t.args[0]
        if e in ("numpy.einsum", "torch.einsum") and t.args[1] and t.args[1][0].op == "const":
            def _is_solved(a, d=0):
                while a.op in ("proj", "inlined") and d < 10:
                    a = a.args[0] if a.op == "proj" else a.args[1]
                    d += 1
                if a.op == "phi":
                    return any(_is_solved(x, d + 1) for x in a.args[0])
                return a.op == "call" and (ext_name(a.args[0]) in ("numpy.linalg.inv", "numpy.linalg.solve", "torch.linalg.solve", "torch.linalg.inv")
                                           or (a.args[0].op == "attr" and a.args[0].args[1] == "inverse"))
            if any(_is_solved(a) for a in t.args[1][1:]):
                return [[t]]        # a contraction with a solved system is a value: an opaque future-value atom
            out = [[]]
            for a in t.args[1][1:]:
                new = []
                for m in out:
                    for b in monomials(a, depth + 1):
                        new.append(m + b)
                        if len(new) > 400:
                            return [[t]]
                out = new
            return out
        if f.op == "attr" and f.args[1] in PRESERVE_METHODS:
            return monomials(f.args[0], depth + 1)
        if f.op == "attr" and f.args[1] in ("view", "reshape", "expand", "squeeze", "unsqueeze") and ext_name(f) is None:
            return monomials(f.args[0], depth + 1)
        if f.op == "attr" and f.args[1] in ("sum", "nansum") and ext_name(f) is None:
            return monomials(f.args[0], depth + 1)
        if e is not None and e.split(".")[-1] in ("sum", "nansum", "around", "round") and t.args[1]:
            return monomials(t.args[1][0], depth + 1)
        if e in ("torch.tensor", "torch.from_numpy", "numpy.array", "numpy.copy") and t.args[1]:
            return monomials(t.args[1][0], depth + 1)
    return [[t]]


def _allocish(t: T) -> bool:
    if t.op == "call" and ext_name(t.args[0]) in ("numpy.zeros", "numpy.ones", "numpy.empty", "torch.zeros"):
        return True
    if t.op == "phi":
        return all(a.op in ("prev", "undef") or _allocish(a) for a in t.args[0])
    return False


def is_discount(t: T, typer: Optional[Typer] = None) -> bool:
    if t.op == "attr" and t.args[1] == "discount_rate":
        return True
    if t.op == "param" and t.args[1] in ("discount_rate", "gamma"):
        return True
    if typer is not None and t.op in ("phi", "where"):
        v = typer.stacked_value(t)
        if v is not None and v is not t:
            return is_discount(v, typer)
    return False


def classify_monomial(typer: Typer, m: List[T]) -> Dict[str, int]:
    d = {"disc": 0, "T": 0, "R": 0, "other": 0, "eye": 0}
    for a in m:
        if is_discount(a, typer):
            d["disc"] += 1
            continue
        core = a
        while core.op == "subscript":
            core = core.args[0]
        if core.op == "call" and ext_name(core.args[0]) in ("numpy.eye", "torch.eye"):
            d["eye"] += 1
            continue
        b = typer.base_array(a)
        if b is None and a.op == "subscript":
            inner = a
            while inner.op == "subscript":
                inner = inner.args[0]
            b = typer.base_array(inner)
        if b == "transition_matrix":
            d["T"] += 1
        elif b in ("reward_matrix", "state_action_reward_matrix"):
            d["R"] += 1
        elif a.op == "call" and ext_name(a.args[0]) in ("numpy.eye", "torch.eye"):
            d["eye"] += 1
        else:
            # discount hidden inside a composite atom (e.g. a phi) is counted conservatively
            d["other"] += 1
    return d


def check_discount_degree(ctx: Ctx, term: T, typer: Typer, fi: FunctionInfo, node, what: str, rule="BEL-2",
                          gain: bool = False) -> None:
    """every monomial of `term` that contains the transition model and no reward model carries the discount exactly once;
    every monomial with the reward model carries none."""
    ms = monomials(term)
    seen_future = seen_reward = False
    for m in ms:
        c = classify_monomial(typer, m)
        if c["T"] and not c["R"] and c["other"]:
            seen_future = True
            inst = f"{what}: future term"
            want = 0 if gain else 1
            ctx.check(c["disc"] == want, rule, fi, node, inst, f"discount degree {c['disc']}",
                      f"a term containing the transition model and the future value carries the discount rate {c['disc']} time(s); "
                      f"it must carry it exactly {want} time(s)")
        elif c["R"]:
            seen_reward = True
            ctx.check(c["disc"] == 0, rule, fi, node, f"{what}: reward term", "discount degree 0",
                      f"the immediate-reward term is multiplied by the discount rate ({c['disc']} time(s))")
    if not seen_future:
        ctx.unknown(rule, fi, node, f"{what}: future term", "no monomial with the transition model and a value factor was recognised")


def check_ingredients(ctx: Ctx, term: T, typer: Typer, fi: FunctionInfo, node, what: str, required: Iterable[str], rule="BEL-1"):
    have = typer.leaves(term)
    for r in required:
        alts = r.split("|")
        ok = any(a in have for a in alts)
        ctx.check(ok, rule, fi, node, f"{what}: depends on {r}", "",
                  f"the reported {what} does not depend on `{r}` on any def-use path (the ingredient was dropped)")

"""Command line: ./check <Cxx> [--tier quick|thorough] [--replay path]
exit 0: property's claimed clauses hold on everything analysed (known findings printed)
exit 1: VIOLATION property=<id> replay=<path>
exit 2: ANALYSIS-ERROR (parse failure, vanished anchor, rule below its frozen minimum, internal error)
"""
from __future__ import annotations

import argparse
import importlib
import json
import os
import sys
import time
import traceback

from .model import Program, AnalysisError
from .report import Ctx, finish


def run_property(prop: str, repo: str, tier: str, overrides=None):
    """returns (ctx, module).  Raises AnalysisError."""
    try:
        mod = importlib.import_module(f"msdmlint.props.{prop.lower()}")
    except ModuleNotFoundError as e:
        if e.name and e.name.endswith(prop.lower()):
            raise AnalysisError(f"no checker implemented for {prop} (fail-closed)")
        raise
    from .cfg import clear_cache
    clear_cache()
    program = Program(repo, overrides)
    from .callgraph import register_call_signatures
    program.resolved_call_signatures = register_call_signatures(program)
    ctx = Ctx(prop, program, tier)
    mod.run(ctx)
    try:
        ctx.check_minima()
        ctx.minima_error = None
    except AnalysisError as e:
        # a definite violation is reported in preference to "anchor vanished"
        from .report import load_known
        known = {k["key"] for k in load_known().get("known", []) if k.get("property") == prop}
        if not any(o.verdict == "VIOLATION" and o.key(prop) not in known for o in ctx.obs):
            raise
        ctx.minima_error = str(e)
    return ctx, mod


def main(argv=None) -> int:
    ap = argparse.ArgumentParser()
    ap.add_argument("prop")
    ap.add_argument("--tier", default=os.environ.get("VERIF_TIER", "quick"), choices=["quick", "thorough"])
    ap.add_argument("--replay", default=None)
    ap.add_argument("--repo", default=os.environ.get("MSDM_REPO", "/repo"))
    ap.add_argument("--no-selftest", action="store_true")
    a = ap.parse_args(argv)
    seed = int(os.environ.get("VERIF_SEED", "0") or 0)
    t0 = time.time()
    prop = a.prop.upper()
    try:
        ctx, mod = run_property(prop, a.repo, a.tier)
        selftest = None
        if a.tier == "thorough" and not a.no_selftest:
            from . import selftest as st
            from .report import load_known
            known = {k["key"] for k in load_known().get("known", []) if k.get("property") == prop}
            base_viol = any(o.verdict == "VIOLATION" and o.key(prop) not in known for o in ctx.obs)
            selftest = st.run_for(prop, a.repo, skip=base_viol)
        rc = finish(ctx, t0, seed, mod.EXPLANATION, mod.RULES, selftest)
        if selftest is not None:
            print(f"[{prop}] selftest: mutants={selftest.get('mutants')} killed={selftest.get('killed')} "
                  f"skipped={selftest.get('skipped')} twins={selftest.get('twins')} twins_silent={selftest.get('twins_silent')}")
            if selftest.get("broken"):
                for b in selftest["broken"]:
                    print(f"ANALYSIS-ERROR selftest: {b}")
                return 2 if rc == 0 else rc
        if a.replay:
            try:
                want = json.load(open(a.replay)).get("key")
            except Exception as e:
                print(f"ANALYSIS-ERROR cannot read replay file: {e}")
                return 2
            still = [o for o in ctx.obs if o.verdict == "VIOLATION" and o.key(prop) == want]
            print(f"[replay] {want}: {'still violated' if still else 'no longer reported'}")
            return 1 if still else rc
        return rc
    except AnalysisError as e:
        print(f"ANALYSIS-ERROR property={prop}: {e}")
        return 2
    except Exception:
        traceback.print_exc()
        print(f"ANALYSIS-ERROR property={prop}: internal error in the checker")
        return 2


if __name__ == "__main__":
    sys.exit(main())

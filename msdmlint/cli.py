"""Command line: ./check <Cxx> [--tier quick|thorough] [--replay path]
exit 0: property's claimed clauses hold on everything analysed (known findings printed)
exit 1: VIOLATION property=<id> replay=<path>
exit 2: ANALYSIS-ERROR (parse failure, vanished anchor, rule below its frozen minimum, internal error)
"""
from __future__ import annotations

import argparse
import importlib
import json
import os
import sys
import time
import traceback

from .model import Program, AnalysisError
from .report import Ctx, finish


def run_property(prop: str, repo: str, tier: str, overrides=None, confirm: bool = True, strict: bool = False):
    """returns (ctx, module).  Raises AnalysisError.

    confirm: a VIOLATION that is not listed as known is re-examined on two behaviour-preserving respellings of the whole tree
    (every single-use adjacent temporary inlined; call arguments that are calls extracted into temporaries).  A genuine violation is a
    fact about behaviour and is reported (under the same rule, in the same function) on the respellings too; one that disappears depends on
    how the code is spelled and is demoted to UNKNOWN with a note.  If a respelling cannot be analysed the original verdict stands."""
    try:
        mod = importlib.import_module(f"msdmlint.props.{prop.lower()}")
    except ModuleNotFoundError as e:
        if e.name and e.name.endswith(prop.lower()):
            raise AnalysisError(f"no checker implemented for {prop} (fail-closed)")
        raise
    from .cfg import clear_cache
    clear_cache()
    program = Program(repo, overrides)
    from .callgraph import register_call_signatures
    program.resolved_call_signatures = register_call_signatures(program)
    ctx = Ctx(prop, program, tier)
    # functions rewritten (not locally edited) relative to the reviewed reference, restricted to the files this property looks at
    from . import reference
    ref = reference.load_reference() or {}
    scope = set(ref.get("scope", {}).get(prop, []))
    strict = strict or os.environ.get("MSDMLINT_STRICT") == "1"       # strict: the reference is not consulted (used by the confirmation runs and the twin harness)
    dist_all = {} if strict else reference.function_distances(program)
    dist = {k: d for k, d in dist_all.items() if not scope or k.split("::")[0] in scope}
    rewritten = reference.scope_rewritten(dist)            # this property's files were refactored as a whole
    tree_rewritten = reference.scope_rewritten(dist_all)   # the change to the tree is refactoring-sized: every changed function is part of it
    restructured = dict(dist) if (rewritten or tree_rewritten) else {k: d for k, d in dist.items() if d >= reference.RESTRUCTURED}
    ctx.extra["restructured_functions"] = restructured
    ctx.extra["scope_rewritten"] = rewritten
    try:
        mod.run(ctx)
    except Exception as e:
        if restructured and os.environ.get("MSDMLINT_STRICT") != "1":
            # a rule could not even find its anchors, and code in its scope was rewritten: nothing can be decided there
            ctx.not_decided = [f"{type(e).__name__}: {str(e)[:200]}"]
            ctx.obs = [o for o in ctx.obs if o.verdict != "VIOLATION" or reference.key_of(o.site, o.function) not in restructured]
            for o in ctx.obs:
                pass
            _withdraw(ctx, prop, restructured)
            ctx.minima.clear()
            ctx.minima_error = None
            return ctx, mod
        raise
    if os.environ.get("MSDMLINT_STRICT") != "1":
        _withdraw(ctx, prop, restructured)
    if confirm and os.environ.get("MSDMLINT_NO_CONFIRM") != "1":
        _confirm(prop, repo, tier, overrides, program, ctx)
    try:
        ctx.check_minima()
        ctx.minima_error = None
    except AnalysisError as e:
        if dist and os.environ.get("MSDMLINT_STRICT") != "1":
            # an idiom is no longer recognised and code in this property's files differs from the reviewed reference: not decided there
            # (on the reference tree itself nothing differs, so a rule that stops matching there is still an ANALYSIS-ERROR)
            ctx.extra["restructured_functions"] = ctx.extra.get("restructured_functions") or dict(dist)
            ctx.not_decided = getattr(ctx, "not_decided", []) + [str(e)[:200]]
            ctx.minima_error = None
            return ctx, mod
        # a definite violation is reported in preference to "anchor vanished"
        from .report import load_known
        known = {k["key"] for k in load_known().get("known", []) if k.get("property") == prop}
        if not any(o.verdict == "VIOLATION" and o.key(prop) not in known for o in ctx.obs):
            raise
        ctx.minima_error = str(e)
    return ctx, mod


def _withdraw(ctx, prop, restructured):
    """reports located in a restructured function are withdrawn (see msdmlint/reference.py)."""
    from . import reference
    from .report import load_known
    known = {k["key"] for k in load_known().get("known", []) if k.get("property") == prop}
    n = 0
    for o in ctx.obs:
        if o.verdict == "VIOLATION" and o.key(prop) not in known:
            d = restructured.get(reference.key_of(o.site, o.function))
            if d is None and ctx.extra.get("scope_rewritten"):
                d = sum(restructured.values())      # the files were refactored as a whole: reports anywhere in them are withdrawn
            if d is not None:
                o.verdict = "UNKNOWN"
                o.detail = (o.detail + " " if o.detail else "") + f"[withdrawn: the code differs from the reviewed reference by {d} statements here / in this property's files (rewritten, not locally edited); " \
                                                                  "the structural rules cannot tell a defect from a different spelling there]"
                n += 1
    if restructured:
        ctx.extra["withdrawn_reports"] = n


def _confirm(prop, repo, tier, overrides, program, ctx):
    from .report import load_known
    from .respell import respell
    known = {k["key"] for k in load_known().get("known", []) if k.get("property") == prop}
    viol = [o for o in ctx.obs if o.verdict == "VIOLATION" and o.key(prop) not in known]
    if not viol:
        return
    ctx.extra["confirmation"] = {}
    for kind in ("inlineall", "extract"):
        ov = dict(overrides or {})
        try:
            for m in program.modules.values():
                if m.relpath.endswith("__init__.py"):
                    continue
                new = respell(kind, ov.get(m.relpath, m.source))
                import warnings
                with warnings.catch_warnings():
                    warnings.simplefilter("ignore")
                    compile(new, m.relpath, "exec")
                ov[m.relpath] = new
            ctx2, _ = run_property(prop, repo, tier, ov, confirm=False, strict=True)
        except Exception as e:      # the respelled tree could not be analysed: the original verdicts stand
            ctx.extra["confirmation"][kind] = f"not analysable ({type(e).__name__}: {str(e)[:120]})"
            continue
        # a respelling may move the report to a neighbouring rule of the same function: confirmation is per function
        seen = {o.function for o in ctx2.obs if o.verdict == "VIOLATION"}
        dropped = 0
        for o in viol:
            if o.verdict == "VIOLATION" and o.function not in seen:
                o.verdict = "UNKNOWN"
                o.detail = (o.detail + " " if o.detail else "") + f"[not confirmed: no rule fires in {o.function} on the `{kind}` respelling of the tree, " \
                                                                  "so the report depends on how the code is spelled, not on what it computes]"
                dropped += 1
        ctx.extra["confirmation"][kind] = f"{len(viol) - dropped} of {len(viol)} violations confirmed"
    from .cfg import clear_cache
    clear_cache()
    from .callgraph import register_call_signatures
    register_call_signatures(program)       # the registry is keyed by call nodes of the tree under report


def main(argv=None) -> int:
    ap = argparse.ArgumentParser()
    ap.add_argument("prop")
    ap.add_argument("--tier", default=os.environ.get("VERIF_TIER", "quick"), choices=["quick", "thorough"])
    ap.add_argument("--replay", default=None)
    ap.add_argument("--repo", default=os.environ.get("MSDM_REPO", "/repo"))
    ap.add_argument("--no-selftest", action="store_true")
    a = ap.parse_args(argv)
    seed = int(os.environ.get("VERIF_SEED", "0") or 0)
    t0 = time.time()
    prop = a.prop.upper()
    try:
        ctx, mod = run_property(prop, a.repo, a.tier)
        selftest = None
        if a.tier == "thorough" and not a.no_selftest:
            from . import selftest as st
            from .report import load_known
            known = {k["key"] for k in load_known().get("known", []) if k.get("property") == prop}
            base_viol = any(o.verdict == "VIOLATION" and o.key(prop) not in known for o in ctx.obs)
            selftest = st.run_for(prop, a.repo, skip=base_viol)
        rc = finish(ctx, t0, seed, mod.EXPLANATION, mod.RULES, selftest)
        if selftest is not None:
            print(f"[{prop}] selftest: mutants={selftest.get('mutants')} killed={selftest.get('killed')} "
                  f"skipped={selftest.get('skipped')} twins={selftest.get('twins')} twins_silent={selftest.get('twins_silent')}")
            if selftest.get("broken"):
                for b in selftest["broken"]:
                    print(f"ANALYSIS-ERROR selftest: {b}")
                return 2 if rc == 0 else rc
        if a.replay:
            try:
                want = json.load(open(a.replay)).get("key")
            except Exception as e:
                print(f"ANALYSIS-ERROR cannot read replay file: {e}")
                return 2
            still = [o for o in ctx.obs if o.verdict == "VIOLATION" and o.key(prop) == want]
            print(f"[replay] {want}: {'still violated' if still else 'no longer reported'}")
            return 1 if still else rc
        return rc
    except AnalysisError as e:
        print(f"ANALYSIS-ERROR property={prop}: {e}")
        return 2
    except Exception:
        traceback.print_exc()
        print(f"ANALYSIS-ERROR property={prop}: internal error in the checker")
        return 2


if __name__ == "__main__":
    sys.exit(main())

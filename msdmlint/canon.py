"""Semantics-preserving normal forms applied to every parsed module (and to every pattern) before any rule looks at it, so that no rule can
depend on which of several equivalent spellings was written:

  expressions   not (A or B) -> not A and not B;  not (A and B) -> not A or not B;  not not A -> A;  not (a in b) -> a not in b;
                not (a == b) -> a != b;  not (a < b) -> a >= b  (the analysis never evaluates, so NaN is not an issue for a normal form);
                ~(A | B) -> ~A & ~B;  ~(A & B) -> ~A | ~B;  ~~A -> A;
                X if not C else Y -> Y if C else X;
                np.all(X) -> X.all(),  np.any / np.sum / np.max / np.min / np.abs-free reductions likewise:  np.f(X, k...) -> X.f(k...);
                reductions  .sum(-1) / .sum(dim=-1)  ->  .sum(axis=-1)   (sum, any, all, max, min, mean, argmax, argmin, prod)
  statements    if A: if B: BODY  (nothing else in either if, no else)        ->  if A and B: BODY
                the last statement of a loop body  `if T: BODY` (no else)      ->  if not T: continue   BODY
(the negated if/else swap and the flattening of `else` after a terminating branch are in model._canon_control)"""
from __future__ import annotations

import ast

REDUCE = ("sum", "any", "all", "max", "min", "mean", "argmax", "argmin", "prod")
NP_TO_METHOD = ("all", "any", "sum", "max", "min", "mean", "argmax", "argmin", "prod")
NEG = {ast.Eq: ast.NotEq, ast.NotEq: ast.Eq, ast.Lt: ast.GtE, ast.GtE: ast.Lt, ast.Gt: ast.LtE, ast.LtE: ast.Gt,
       ast.In: ast.NotIn, ast.NotIn: ast.In, ast.Is: ast.IsNot, ast.IsNot: ast.Is}


def negate(e: ast.expr) -> ast.expr:
    if isinstance(e, ast.UnaryOp) and isinstance(e.op, ast.Not):
        return e.operand
    if isinstance(e, ast.BoolOp):
        return ast.copy_location(ast.BoolOp(op=ast.And() if isinstance(e.op, ast.Or) else ast.Or(), values=[negate(v) for v in e.values]), e)
    if isinstance(e, ast.Compare) and len(e.ops) == 1 and type(e.ops[0]) in NEG:
        return ast.copy_location(ast.Compare(left=e.left, ops=[NEG[type(e.ops[0])]()], comparators=e.comparators), e)
    return ast.copy_location(ast.UnaryOp(op=ast.Not(), operand=e), e)


class _Expr(ast.NodeTransformer):
    def visit_UnaryOp(self, n):
        self.generic_visit(n)
        if isinstance(n.op, ast.Not) and isinstance(n.operand, (ast.BoolOp, ast.UnaryOp, ast.Compare)):
            if isinstance(n.operand, ast.UnaryOp) and not isinstance(n.operand.op, ast.Not):
                return n
            if isinstance(n.operand, ast.Compare) and not (len(n.operand.ops) == 1 and type(n.operand.ops[0]) in NEG):
                return n
            return self.visit(negate(n.operand)) if isinstance(n.operand, ast.BoolOp) else negate(n.operand)
        if isinstance(n.op, ast.Invert):
            o = n.operand
            if isinstance(o, ast.UnaryOp) and isinstance(o.op, ast.Invert):
                return o.operand
            if isinstance(o, ast.BinOp) and isinstance(o.op, (ast.BitOr, ast.BitAnd)):
                inv = lambda x: self.visit(ast.copy_location(ast.UnaryOp(op=ast.Invert(), operand=x), x))
                return ast.copy_location(ast.BinOp(left=inv(o.left), op=ast.BitAnd() if isinstance(o.op, ast.BitOr) else ast.BitOr(), right=inv(o.right)), n)
        return n

    def visit_IfExp(self, n):
        self.generic_visit(n)
        if isinstance(n.test, ast.UnaryOp) and isinstance(n.test.op, ast.Not):
            return ast.copy_location(ast.IfExp(test=n.test.operand, body=n.orelse, orelse=n.body), n)
        return n

    def visit_Call(self, n):
        self.generic_visit(n)
        f = n.func
        # max([.. for ..]) -> max(.. for ..)   (consumers for which a list and a generator argument are interchangeable)
        if isinstance(f, ast.Name) and f.id in ("max", "min", "sum", "any", "all", "sorted", "tuple", "set", "frozenset", "dict") and len(n.args) >= 1 \
                and isinstance(n.args[0], ast.ListComp):
            n.args[0] = ast.copy_location(ast.GeneratorExp(elt=n.args[0].elt, generators=n.args[0].generators), n.args[0])
        # np.all(X, ...) -> X.all(...)
        if isinstance(f, ast.Attribute) and isinstance(f.value, ast.Name) and f.value.id in ("np", "numpy", "torch") and f.attr in NP_TO_METHOD and n.args \
                and not any(isinstance(a, ast.Starred) for a in n.args) and not isinstance(n.args[0], (ast.List, ast.ListComp, ast.GeneratorExp, ast.Tuple, ast.Dict, ast.Constant)):
            n = ast.copy_location(ast.Call(func=ast.copy_location(ast.Attribute(value=n.args[0], attr=f.attr, ctx=ast.Load()), f), args=n.args[1:], keywords=n.keywords), n)
            f = n.func
        # X.sum(-1) / X.sum(dim=-1) -> X.sum(axis=-1)
        if isinstance(f, ast.Attribute) and f.attr in REDUCE:
            kws = [ast.keyword(arg="axis", value=k.value) if k.arg == "dim" else k for k in n.keywords]
            args = list(n.args)
            if args and not any(k.arg == "axis" for k in kws) and not isinstance(args[0], ast.Starred) and \
                    (isinstance(args[0], (ast.Constant, ast.Tuple)) or (isinstance(args[0], ast.UnaryOp) and isinstance(args[0].operand, ast.Constant))) \
                    and not (isinstance(args[0], ast.Constant) and not isinstance(args[0].value, int)):
                kws = [ast.keyword(arg="axis", value=args[0])] + kws
                args = args[1:]
            n.args, n.keywords = args, kws
        return n


def _blocks(tree):
    for node in ast.walk(tree):
        for fld in ("body", "orelse", "finalbody"):
            b = getattr(node, fld, None)
            if isinstance(b, list) and b and isinstance(b[0], ast.stmt):
                yield node, fld, b


def canon_statements(tree: ast.AST, loop_guards: bool = False) -> ast.AST:
    changed = True
    while changed:
        changed = False
        for node, fld, b in list(_blocks(tree)):
            for i, st in enumerate(b):
                # nested ifs -> and
                if isinstance(st, ast.If) and not st.orelse and len(st.body) == 1 and isinstance(st.body[0], ast.If) and not st.body[0].orelse:
                    inner = st.body[0]
                    vals = (st.test.values if isinstance(st.test, ast.BoolOp) and isinstance(st.test.op, ast.And) else [st.test]) + \
                           (inner.test.values if isinstance(inner.test, ast.BoolOp) and isinstance(inner.test.op, ast.And) else [inner.test])
                    st.test = ast.copy_location(ast.BoolOp(op=ast.And(), values=list(vals)), st.test)
                    st.body = inner.body
                    changed = True
            # a loop body that ends in `if T: BODY`  ->  guard with continue
            if loop_guards and isinstance(node, (ast.For, ast.While)) and fld == "body" and len(b) >= 1:
                last = b[-1]
                if isinstance(last, ast.If) and not last.orelse and len(b) >= 1 and not any(isinstance(x, (ast.Continue,)) for x in last.body[-1:]) \
                        and len(last.body) >= 1:
                    guard = ast.copy_location(ast.If(test=_Expr().visit(negate(last.test)), body=[ast.copy_location(ast.Continue(), last)], orelse=[]), last)
                    b[-1:] = [guard] + last.body
                    changed = True
    return tree


def canon(tree: ast.AST, statements: bool = True) -> ast.AST:
    tree = _Expr().visit(tree)
    if statements:
        tree = canon_statements(tree)
    ast.fix_missing_locations(tree)
    return tree

"""Catalogue of checker self-test variants of the current tree.

MUTANTS[prop]: edits that break a clause of the property while keeping the module importable
(and, by construction of the clause, the existing tests green); `rules` names the rule(s) that
must report it.  TWINS[prop]: behaviour-preserving rewrites that must stay silent.
An edit is (relative path, old text, new text); `old` must occur exactly once, else the variant
is skipped (the tree has moved on) — never failed."""

A = "msdm/algorithms/"
C = "msdm/core/"


def M(name, rules, *edits):
    return dict(name=name, rules=list(rules) if rules else None, edits=list(edits))


def TW(name, *edits):
    return dict(name=name, edits=list(edits))


MUTANTS = {}
TWINS = {}

# ----------------------------------------------------------------------------------- C13
MUTANTS["C13"] = [
    M("revert-F9-pomdp-initial-sample", ["RNG-2"],
      (C + "pomdp/policy.py", "initial_state = pomdp.initial_state_dist().sample(rng=rng)",
       "initial_state = pomdp.initial_state_dist().sample()")),
    M("revert-F10-bpi-seed-or", ["RNG-3", "RNG-1"],
      (A + "fscboundedpolicyiteration.py", "self.seed = seed if seed is not None else np.random.randint(2**30)",
       "self.seed = seed or np.random.randint(2**30)")),
    M("revert-F10-ga-seed-or", ["RNG-3", "RNG-1"],
      (A + "fscgradientascent.py", "self.seed = seed if seed is not None else torch.randint(2**30, size=(1,)).item()",
       "self.seed = seed or torch.randint(2**30, size=(1,)).item()")),
    M("revert-F12-lao-set-union", ["RNG-6"],
      (A + "laostar.py", "dp_action_order = list(dict.fromkeys(a for n in nodes for a in n.action_order))",
       "dp_action_order = list(set.union(*[set(n.action_order) for n in nodes]))")),
    M("revert-F13-action-list-set", ["RNG-6"],
      (C + "mdp/tabularmdp.py", "actions = dict() # an insertion-ordered set", "actions = set([])"),
      (C + "mdp/tabularmdp.py", "actions[a] = None", "actions.add(a)")),
    M("revert-F13-observation-list-set", ["RNG-6"],
      (C + "pomdp/tabularpomdp.py", "obs = dict() # an insertion-ordered set", "obs = set([])"),
      (C + "pomdp/tabularpomdp.py", "obs.update({o: None for o, p in self.observation_dist(a, ns).items() if p > 0.})",
       "obs.update([o for o, p in self.observation_dist(a, ns).items() if p > 0.])")),
    M("revert-F18-from-dict-set", ["RNG-6"],
      (C + "mdp/tables.py", "action_list = domaintuple(dict.fromkeys(action_list))", "action_list = domaintuple(set(action_list))")),
    M("lrtdp-shuffle-with-global", ["RNG-1"],
      (A + "lrtdp.py", "self.rng.shuffle(action_list)", "random.shuffle(action_list)")),
    M("lrtdp-trial-sample-no-rng", ["RNG-2"],
      (A + "lrtdp.py", "self.lrtdp_trial(mdp, mdp.initial_state_dist().sample(rng=self.rng))",
       "self.lrtdp_trial(mdp, mdp.initial_state_dist().sample())")),
    M("qlearning-next-state-no-rng", ["RNG-2"],
      (A + "tdlearning.py", """                a = epsilon_softmax_sample(q[s], self.rand_choose, self.softmax_temp, rng)
                # transition to next state
                ns = mdp.next_state_dist(s, a).sample(rng=rng)
                r = mdp.reward(s, a, ns)
                # update
                q[s][a] += self.step_size*(r + mdp.discount_rate*max(q[ns].values()) - q[s][a])""",
       """                a = epsilon_softmax_sample(q[s], self.rand_choose, self.softmax_temp, rng)
                # transition to next state
                ns = mdp.next_state_dist(s, a).sample()
                r = mdp.reward(s, a, ns)
                # update
                q[s][a] += self.step_size*(r + mdp.discount_rate*max(q[ns].values()) - q[s][a])""")),
    M("td-rng-unguarded-global", ["RNG-1"],
      (A + "tdlearning.py", """        if self.seed is not None:
            rng = random.Random(self.seed)
        else:
            rng = random
        return rng

    def _create_policy(self, mdp, q):""", """        rng = random
        return rng

    def _create_policy(self, mdp, q):""")),
    M("rmax-seed-truthiness", ["RNG-3", "RNG-1"],
      (A + "rmax.py", "if self.seed is not None:", "if self.seed:")),
    M("policy-runon-passes-module", ["RNG-2"],
      (C + "mdp/policy.py", "a = self.action_dist(s).sample(rng=rng)", "a = self.action_dist(s).sample(rng=random)")),
    M("policy-evaluate-drops-rng", ["RNG-2"],
      (C + "mdp/policy.py", "res = self.run_on(mdp, rng=rng, max_steps=max_steps)", "res = self.run_on(mdp, max_steps=max_steps)")),
    M("option-runon-drops-rng", ["RNG-2"],
      (C + "semimdp/option.py", """            max_steps=self.max_steps,
            rng=rng
        )""", """            max_steps=self.max_steps,
        )""")),
    M("semimdp-sim-drops-rng", ["RNG-2"],
      (C + "semimdp/semimdp.py", "simulation = a.run_on(self.mdp, initial_state=s, rng=rng)",
       "simulation = a.run_on(self.mdp, initial_state=s)")),
    M("ga-reseed-outside-fork", ["RNG-4", "RNG-1"],
      (A + "fscgradientascent.py", """        with torch.random.fork_rng():
            torch.random.manual_seed(self.seed)
            fsc_action_logit""", """        torch.random.manual_seed(self.seed)
        if True:
            fsc_action_logit""")),
    M("ga-no-reseed-in-fork", ["RNG-1"],
      (A + "fscgradientascent.py", "            torch.random.manual_seed(self.seed)\n", "            pass\n")),
    M("implicit-marginalize-drops-seed", ["RNG-2"],
      (C + "distributions/distributions.py", """            projected_function,
            n_samples=self.n_samples,
            _seed=self._seed
        )""", """            projected_function,
            n_samples=self.n_samples,
        )""")),
    M("astar-tiebreak-global", ["RNG-1"],
      (A + "search.py", "tie_break = rnd.random()", "tie_break = random.random()")),
    M("laostar-seed-from-hash", ["RNG-5"],
      (A + "laostar.py", "rng = random.Random(self.seed)", "rng = random.Random(hash((self.seed, mdp)))")),
    M("lao-initial-states-from-set", ["RNG-6"],
      (A + "laostar.py", "self.initial_states = sorted(mdp.initial_state_dist().support, key=lambda s: self.rng.random())",
       "self.initial_states = sorted(set(mdp.initial_state_dist().support), key=lambda s: self.rng.random())")),
    M("bfs-visited-list-from-set", ["RNG-6"],
      (A + "search.py", """                return Result(
                    path=path,
                    policy=camefrom_to_policy(path, camefrom, dsp),
                    visited=visited,
                )""", """                return Result(
                    path=path,
                    policy=camefrom_to_policy(path, camefrom, dsp),
                    visited=list(visited),
                )""")),
]
TWINS["C13"] = [
    TW("rename-rng-local",
       (A + "laostar.py", "        rng = random.Random(self.seed)\n        explicit_graph = ExplicitStateGraph(",
        "        generator = random.Random(self.seed)\n        rng = generator\n        explicit_graph = ExplicitStateGraph(")),
    TW("seed-is-none-flipped",
       (A + "rmax.py", """        if self.seed is not None:
            rng = random.Random(self.seed)
        else:
            rng = random
        return rng""", """        if self.seed is None:
            rng = random
        else:
            rng = random.Random(self.seed)
        return rng""")),
    TW("sorted-set-for-order",
       (C + "mdp/tabularmdp.py", "return domaintuple(sorted(states))", "ordered = sorted(states)\n            return domaintuple(ordered)")),
    TW("positional-rng",
       (A + "tdlearning.py", "def argmax(d, rng):\n    maxv = max(d.values())", "def argmax(d, rng):\n    assert rng is not None\n    maxv = max(d.values())")),
    TW("ifexp-seed-none-first",
       (A + "fscboundedpolicyiteration.py", "self.seed = seed if seed is not None else np.random.randint(2**30)",
        "self.seed = np.random.randint(2**30) if seed is None else seed")),
    TW("len-of-list-of-set",
       (C + "distributions/dictdistribution.py", "assert len(support) == len(set(support)), (",
        "assert len(support) == len(list(set(support))), (")),
]

# ----------------------------------------------------------------------------------- C15
OPT = C + "semimdp/option.py"
SMDP = C + "semimdp/semimdp.py"
MUTANTS["C15"] = [
    M("revert-F14-discount-not-transferred", ["IFC-1"],
      (OPT, "    AugmentedMDP.discount_rate = mdp.discount_rate\n", "")),
    M("augment-reward-else-missing", ["IFC-1"],
      (OPT, "    if reward is not None:\n        AugmentedMDP.reward = staticmethod(reward)\n    else:\n        AugmentedMDP.reward = mdp.reward\n",
       "    if reward is not None:\n        AugmentedMDP.reward = staticmethod(reward)\n")),
    M("augment-actions-from-wrong-member", ["IFC-1"],
      (OPT, "        AugmentedMDP.is_absorbing = mdp.is_absorbing", "        AugmentedMDP.is_absorbing = mdp.actions")),
    M("augment-action-list-from-state-list", ["IFC-1"],
      (OPT, "            AugmentedMDP.action_list = mdp.action_list", "            AugmentedMDP.action_list = mdp.state_list")),
    M("augment-state-list-dropped", ["IFC-1"],
      (OPT, "        if state_list is not None:\n            AugmentedMDP.state_list = state_list\n        else:\n            AugmentedMDP.state_list = mdp.state_list\n",
       "        if state_list is not None:\n            AugmentedMDP.state_list = state_list\n")),
    M("option-terminal-on-initial", ["OPT-2"],
      (OPT, "is_absorbing=lambda s : self.is_terminal(s),", "is_absorbing=lambda s : self.is_initial(s),")),
    M("option-runs-on-base-mdp", ["OPT-3"],
      (OPT, "            mdp=sub_mdp,\n            initial_state=initial_state,", "            mdp=mdp,\n            initial_state=initial_state,")),
    M("option-max-steps-dropped", ["OPT-3"],
      (OPT, "            max_steps=self.max_steps,\n            rng=rng", "            rng=rng")),
    M("option-limit-guard-weakened", ["OPT-4"],
      (OPT, "if len(result) >= self.max_steps:", "if len(result) > self.max_steps:")),
    M("subtask-clip-before-terminal", ["SUB-2"],
      (OPT, """            if self.is_terminal(ns):
                return real_reward
            if real_reward > self.max_nonterminal_pseudoreward:
                return self.max_nonterminal_pseudoreward
            return real_reward""", """            if real_reward > self.max_nonterminal_pseudoreward:
                return self.max_nonterminal_pseudoreward
            if self.is_terminal(ns):
                return real_reward
            return real_reward""")),
    M("subtask-terminal-test-on-s", ["SUB-2"],
      (OPT, "            if self.is_terminal(ns):\n                return real_reward", "            if self.is_terminal(s):\n                return real_reward")),
    M("subtask-reward-args-swapped", ["SUB-2", "ARG"],
      (OPT, "real_reward = self.mdp.reward(s, a, ns)", "real_reward = self.mdp.reward(ns, a, s)")),
    M("subtask-absorbing-ignores-terminal", ["SUB-3"],
      (OPT, "                is_absorbing = self.is_terminal(s) or self.mdp.is_absorbing(s)", "                is_absorbing = self.mdp.is_absorbing(s)")),
    M("subtask-overrides-transitions", ["SUB-1"],
      (OPT, "            initial_state_dist = initial_state_dist,\n        )", "            initial_state_dist = initial_state_dist,\n            actions = self.mdp.actions,\n        )")),
    M("smdp-primitive-duration-zero", ["SMDP-1"],
      (SMDP, "lambda ns: (ns, 1, self.mdp.reward(s, a, ns))", "lambda ns: (ns, 0, self.mdp.reward(s, a, ns))")),
    M("smdp-normaliser-wrong", ["SMDP-2"],
      (SMDP, "ns_t_r: c/self.n_option_simulations for ns_t_r, c in counts.items()", "ns_t_r: c/len(counts) for ns_t_r, c in counts.items()")),
    M("smdp-discount-before-reward", ["SMDP-4"],
      (SMDP, "                    cum_reward += r*discount\n                    discount = discount*self.mdp.discount_rate\n",
       "                    discount = discount*self.mdp.discount_rate\n                    cum_reward += r*discount\n")),
    M("smdp-undiscounted-sum", ["SMDP-4"],
      (SMDP, "                    cum_reward += r*discount\n", "                    cum_reward += r\n")),
    M("smdp-count-inside-loop", ["SMDP-5"],
      (SMDP, "                        t += 1\n                counts[(ns, t, cum_reward)] += 1", "                        t += 1\n                    counts[(ns, t, cum_reward)] += 1")),
    M("smdp-marginal-wrong-component", ["SMDP-6"],
      (SMDP, "            lambda ns_t_r: ns_t_r[0]\n", "            lambda ns_t_r: ns_t_r[1]\n")),
    M("smdp-sim-from-initial-state", ["SMDP-3"],
      (SMDP, "simulation = a.run_on(self.mdp, initial_state=s, rng=rng)", "simulation = a.run_on(self.mdp, initial_state=self.mdp.initial_state_dist().sample(rng=rng), rng=rng)")),
]
TWINS["C15"] = [
    TW("augment-setattr-form",
       (OPT, "    AugmentedMDP.discount_rate = mdp.discount_rate\n", "    setattr(AugmentedMDP, 'discount_rate', mdp.discount_rate)\n")),
    TW("augment-discount-in-class-body",
       (OPT, "        def __init__(self): pass\n    AugmentedMDP.discount_rate = mdp.discount_rate\n", "        def __init__(self): pass\n        discount_rate = mdp.discount_rate\n")),
    TW("option-limit-eq-rewritten",
       (OPT, "if len(result) >= self.max_steps:", "n_steps = len(result)\n        if len(result) >= self.max_steps:")),
    TW("smdp-rename-loop-vars",
       (SMDP, "                for ns_, r in zip(sim.next_state, sim.reward):\n                    cum_reward += r*discount\n                    discount = discount*self.mdp.discount_rate\n                    if ns_ is not None:\n                        ns = ns_",
        "                for nxt, rew in zip(sim.next_state, sim.reward):\n                    cum_reward += discount*rew\n                    discount = self.mdp.discount_rate*discount\n                    if nxt is not None:\n                        ns = nxt")),
    TW("subtask-comment-and-assert",
       (OPT, "            real_reward = self.mdp.reward(s, a, ns)\n", "            real_reward = self.mdp.reward(s, a, ns)\n            assert real_reward is not None\n")),
]

# ----------------------------------------------------------------------------------- C05
SEARCH = A + "search.py"
DSP = C + "mdp/deterministic_shortest_path.py"
MUTANTS["C05"] = [
    M("revert-F3-support-subscript", ["IFC-2"],
      (DSP, "                next_state = tuple(mdp.next_state_dist(s, a).support)", "                next_state = mdp.next_state_dist(s, a).support")),
    M("bfs-guard-drops-queue-test", ["PRED-3"],
      (SEARCH, "if ns not in visited and ns not in queue:", "if ns not in visited:")),
    M("bfs-lifo-frontier", ["PRED-3"],
      (SEARCH, "s = queue.popleft()", "s = queue.pop()")),
    M("bfs-return-without-goal-test", ["RET-1"],
      (SEARCH, "            if dsp.is_absorbing(s):\n                path = reconstruct_path(camefrom, start, s)\n                return Result(\n                    path=path,\n                    policy=camefrom_to_policy(path, camefrom, dsp),\n                    visited=visited,\n                )",
       "            if dsp.is_absorbing(s) or len(visited) > 10**6:\n                path = reconstruct_path(camefrom, start, s)\n                return Result(\n                    path=path,\n                    policy=camefrom_to_policy(path, camefrom, dsp),\n                    visited=visited,\n                )")),
    M("astar-goal-test-on-successor", ["RET-1"],
      (SEARCH, "            if dsp.is_absorbing(s):\n                assert node.heuristic_cost == node.cost_from_start",
       "            if dsp.is_absorbing(s) or not dsp.actions(s):\n                assert node.heuristic_cost == node.cost_from_start")),
    M("astar-cost-sign", ["COST-1"],
      (SEARCH, "next_cost_from_start = node.cost_from_start - dsp.reward(s, a, ns)", "next_cost_from_start = node.cost_from_start + dsp.reward(s, a, ns)")),
    M("astar-reward-args-swapped", ["COST-1", "ARG"],
      (SEARCH, "next_cost_from_start = node.cost_from_start - dsp.reward(s, a, ns)", "next_cost_from_start = node.cost_from_start - dsp.reward(ns, a, s)")),
    M("astar-priority-plus-heuristic", ["COST-2"],
      (SEARCH, "heuristic_cost=next_cost_from_start - self.heuristic_value(ns),", "heuristic_cost=next_cost_from_start + self.heuristic_value(ns),")),
    M("astar-priority-heuristic-of-parent", ["COST-2"],
      (SEARCH, "heuristic_cost=next_cost_from_start - self.heuristic_value(ns),", "heuristic_cost=next_cost_from_start - self.heuristic_value(s),")),
    M("astar-start-priority", ["COST-3"],
      (SEARCH, "push(heuristic_cost=-self.heuristic_value(start), cost_from_start=0, state=start)", "push(heuristic_cost=self.heuristic_value(start), cost_from_start=0, state=start)")),
    M("astar-path-value-is-priority", ["COST-4"],
      (SEARCH, "path_value=node.cost_from_start,", "path_value=node.heuristic_cost,")),
    M("astar-node-field-order", ["HEAP-1"],
      (SEARCH, "    heuristic_cost: float\n    tie_break: float\n    cost_from_start: float\n    state: Any", "    heuristic_cost: float\n    cost_from_start: float\n    state: Any\n    tie_break: float")),
    M("astar-revision-guard-reversed", ["REV-1"],
      (SEARCH, "best_in_queue_by_state[ns].cost_from_start <= next_cost_from_start:", "best_in_queue_by_state[ns].cost_from_start >= next_cost_from_start:")),
    M("astar-camefrom-swapped-pair", ["PRED-1"],
      (SEARCH, "                    state=ns,\n                )\n                camefrom[ns] = (s, a)", "                    state=ns,\n                )\n                camefrom[ns] = (a, s)")),
    M("reconstruct-follows-action", ["PRED-2"],
      (SEARCH, "path.append(camefrom[path[-1]][0])", "path.append(camefrom[path[-1]][1])")),
    M("policy-maps-action-to-state", ["PRED-2"],
      (SEARCH, "            policy_dict[s] = a", "            policy_dict[a] = s")),
    M("from-mdp-reward-is-absorbing", ["WIRE-1"],
      (DSP, "DeterministicShortestPathProblemFromMDP.reward = staticmethod(mdp.reward)", "DeterministicShortestPathProblemFromMDP.reward = staticmethod(mdp.is_absorbing)")),
]
TWINS["C05"] = [
    TW("bfs-guard-reordered",
       (SEARCH, "if ns not in visited and ns not in queue:", "if ns not in queue and ns not in visited:")),
    TW("bfs-guard-camefrom",
       (SEARCH, "if ns not in visited and ns not in queue:", "if ns not in visited and ns not in queue and ns not in camefrom:")),
    TW("astar-strict-revision",
       (SEARCH, "best_in_queue_by_state[ns].cost_from_start <= next_cost_from_start:", "best_in_queue_by_state[ns].cost_from_start < next_cost_from_start:")),
    TW("dsp-list-instead-of-tuple",
       (DSP, "                next_state = tuple(mdp.next_state_dist(s, a).support)", "                next_state = list(mdp.next_state_dist(s, a).support)")),
    TW("astar-extra-logging",
       (SEARCH, "            # Mark the current state as visited.\n            visited.add(s)", "            # Mark the current state as visited.\n            n_expanded = len(visited)\n            visited.add(s)")),
]

# ----------------------------------------------------------------------------------- C14
POL = C + "mdp/policy.py"
PPOL = C + "pomdp/policy.py"
MUTANTS["C14"] = [
    M("revert-F9-pomdp-initial-sample", ["RNG-2"],
      (PPOL, "initial_state = pomdp.initial_state_dist().sample(rng=rng)", "initial_state = pomdp.initial_state_dist().sample()")),
    M("mdp-absorbing-test-on-next", ["SIM-1"],
      (POL, "            if mdp.is_absorbing(s):\n                break\n            a = self.action_dist(s).sample(rng=rng)", "            a = self.action_dist(s).sample(rng=rng)")),
    M("mdp-reward-args", ["SIM-3", "ARG"],
      (POL, "r = mdp.reward(s, a, ns)", "r = mdp.reward(ns, a, s)")),
    M("mdp-record-state-as-next", ["SIM-5"],
      (POL, "                state=s,\n                action=a,\n                next_state=ns,", "                state=ns,\n                action=a,\n                next_state=ns,")),
    M("mdp-advance-before-record", ["SIM-4"],
      (POL, "            r = mdp.reward(s, a, ns)\n            traj.append(Step(", "            r = mdp.reward(s, a, ns)\n            s0 = s\n            s = ns\n            traj.append(Step(")),
    M("mdp-no-advance", ["SIM-4"],
      (POL, "                reward=r\n            ))\n            s = ns\n", "                reward=r\n            ))\n")),
    M("mdp-cap-off-by-one", ["SIM-6"],
      (POL, "        for t in range(max_steps):\n            if mdp.is_absorbing(s):", "        for t in range(max_steps + 1):\n            if mdp.is_absorbing(s):")),
    M("mdp-terminal-record-missing", ["SIM-6"],
      (POL, "        traj.append(Step(\n            state=s,\n        ))\n", "")),
    M("mdp-initial-state-truthiness", ["SIM-0"],
      (POL, "        if initial_state is None:\n            initial_state = mdp.initial_state_dist().sample(rng=rng)\n        traj = []",
       "        if not initial_state:\n            initial_state = mdp.initial_state_dist().sample(rng=rng)\n        traj = []")),
    M("mdp-action-from-stale-state", ["SIM-2"],
      (POL, "            a = self.action_dist(s).sample(rng=rng)\n            ns = mdp.next_state_dist(s, a).sample(rng=rng)", "            a = self.action_dist(initial_state).sample(rng=rng)\n            ns = mdp.next_state_dist(s, a).sample(rng=rng)")),
    M("pomdp-observation-of-previous-state", ["OBS-1"],
      (PPOL, "o = pomdp.observation_dist(a, ns).sample(rng=rng)", "o = pomdp.observation_dist(a, s).sample(rng=rng)")),
    M("pomdp-agentstate-not-advanced", ["OBS-1"],
      (PPOL, "            s = ns\n            ag = nag\n", "            s = ns\n")),
    M("pomdp-record-fields-swapped", ["SIM-5"],
      (PPOL, "traj.append(Step(s, ag, a, ns, r, o, nag))", "traj.append(Step(s, ag, a, ns, o, r, nag))")),
    M("pomdp-next-agentstate-args", ["OBS-1"],
      (PPOL, "nag = self.next_agentstate(ag, a, o)", "nag = self.next_agentstate(nag if False else ag, o, a)")),
    M("eval-returns-undiscounted", ["MC-2"],
      (POL, "rets = Policy.calc_returns(res.reward, mdp.discount_rate)", "rets = Policy.calc_returns(res.reward, 1.0)")),
    M("eval-initial-value-last-return", ["MC-2"],
      (POL, "initial_values.append(rets[0])", "initial_values.append(rets[-1])")),
    M("eval-cap-not-forwarded", ["MC-1"],
      (POL, "res = self.run_on(mdp, rng=rng, max_steps=max_steps)", "res = self.run_on(mdp, rng=rng)")),
    M("eval-zip-next-state", ["MC-3"],
      (POL, "for ret, s, a in zip(rets, res.state, res.action):", "for ret, s, a in zip(rets, res.next_state, res.action):")),
    M("eval-visits-divided-by-len", ["MC-4"],
      (POL, "state_samples[s] += len(state_samps)/n_simulations", "state_samples[s] += len(state_samps)/len(state_value_samples)")),
    M("accessor-next-state-reads-state", ["ACC-1"],
      (POL, "return [s.get('next_state', None) for s in self.steps]", "return [s.get('state', None) for s in self.steps]")),
]
TWINS["C14"] = [
    TW("mdp-while-form",
       (POL, "            r = mdp.reward(s, a, ns)\n            traj.append(Step(", "            r = mdp.reward(s, a, ns)\n            step_index = t\n            traj.append(Step(")),
    TW("eval-rename",
       (POL, "            res = self.run_on(mdp, rng=rng, max_steps=max_steps)\n            rets = Policy.calc_returns(res.reward, mdp.discount_rate)",
        "            res = self.run_on(mdp, max_steps=max_steps, rng=rng)\n            rets = Policy.calc_returns(res.reward, mdp.discount_rate)")),
    TW("pomdp-comment",
       (PPOL, "            s = ns\n            ag = nag\n", "            s = ns  # advance\n            ag = nag\n")),
]

# ----------------------------------------------------------------------------------- C10
TD = A + "tdlearning.py"
MUTANTS["C10"] = [
    M("revert-F7-sarsa-second-initialiser", ["SIM-7"],
      (TD, "            s = mdp.initial_state_dist().sample(rng=rng)\n            a = epsilon_softmax_sample(q[s], self.rand_choose, self.softmax_temp, rng)\n            while",
       "            s = mdp.initial_state_dist().sample(rng=rng)\n            if s not in q:\n                q[s] = {a: self.initial_q(s, a) for a in mdp.actions(s)}\n            a = epsilon_softmax_sample(q[s], self.rand_choose, self.softmax_temp, rng)\n            while")),
    M("initialiser-bypasses-absorbing-wrapper", ["SIM-7"],
      (TD, "initial_avals = lambda s: {a: initial_q(s, a) for a in mdp.actions(s)}", "initial_avals = lambda s: {a: self.initial_q(s, a) for a in mdp.actions(s)}")),
    M("q-bootstrap-from-current-state", ["ALG-1"],
      (TD, "q[s][a] += self.step_size*(r + mdp.discount_rate*max(q[ns].values()) - q[s][a])", "q[s][a] += self.step_size*(r + mdp.discount_rate*max(q[s].values()) - q[s][a])")),
    M("q-discount-on-reward", ["ALG-1"],
      (TD, "q[s][a] += self.step_size*(r + mdp.discount_rate*max(q[ns].values()) - q[s][a])", "q[s][a] += self.step_size*(mdp.discount_rate*(r + max(q[ns].values())) - q[s][a])")),
    M("q-no-discount", ["ALG-1"],
      (TD, "q[s][a] += self.step_size*(r + mdp.discount_rate*max(q[ns].values()) - q[s][a])", "q[s][a] += self.step_size*(r + max(q[ns].values()) - q[s][a])")),
    M("q-stepsize-only-on-error-part", ["ALG-1"],
      (TD, "q[s][a] += self.step_size*(r + mdp.discount_rate*max(q[ns].values()) - q[s][a])", "q[s][a] += self.step_size*(r + mdp.discount_rate*max(q[ns].values())) - q[s][a]")),
    M("q-advance-before-update", ["SIM-4"],
      (TD, "                r = mdp.reward(s, a, ns)\n                # update\n                q[s][a] += self.step_size*(r + mdp.discount_rate*max(q[ns].values()) - q[s][a])\n                # end of timestep\n                event_listener.end_of_timestep(locals())\n                s = ns",
       "                r = mdp.reward(s, a, ns)\n                s_prev, s = s, ns\n                # update\n                q[s][a] += self.step_size*(r + mdp.discount_rate*max(q[ns].values()) - q[s][a])\n                # end of timestep\n                event_listener.end_of_timestep(locals())")),
    M("sarsa-next-action-from-current-row", ["ALG-1"],
      (TD, "na = epsilon_softmax_sample(q[ns], self.rand_choose, self.softmax_temp, rng)", "na = epsilon_softmax_sample(q[s], self.rand_choose, self.softmax_temp, rng)")),
    M("sarsa-action-not-carried", ["ALG-1", "SIM-4", "SIM-2"],
      (TD, "                s, a = ns, na\n", "                s = ns\n                a = epsilon_softmax_sample(q[s], self.rand_choose, self.softmax_temp, rng)\n")),
    M("esarsa-expectation-at-current-state", ["ALG-1"],
      (TD, "na_dist = epsilon_softmax_dist(q[ns], self.rand_choose, self.softmax_temp)", "na_dist = epsilon_softmax_dist(q[s], self.rand_choose, self.softmax_temp)")),
    M("esarsa-greedy-expectation", ["ALG-1"],
      (TD, "na_dist = epsilon_softmax_dist(q[ns], self.rand_choose, self.softmax_temp)", "na_dist = epsilon_softmax_dist(q[ns], 0.0, self.softmax_temp)")),
    M("doubleq-same-table-evaluates", ["ALG-1"],
      (TD, "td_error = r + mdp.discount_rate*q2[ns][argmax(q1[ns], rng).pop()] - q1[s][a]", "td_error = r + mdp.discount_rate*q1[ns][argmax(q1[ns], rng).pop()] - q1[s][a]")),
    M("doubleq-updates-one-table", ["ALG-1"],
      (TD, "                    q2[s][a] += self.step_size*td_error", "                    q1[s][a] += self.step_size*td_error")),
    M("doubleq-returns-sum", ["WIRE-1"],
      (TD, "                q[s][a] = q1[s][a]*.5 +q2[s][a]*.5", "                q[s][a] = q1[s][a] +q2[s][a]*.5")),
    M("reward-args", ["SIM-3", "ARG"],
      (TD, "                r = mdp.reward(s, a, ns)\n                na = epsilon", "                r = mdp.reward(ns, a, s)\n                na = epsilon")),
    M("policy-greedy-ge", ["POL-1"],
      (TD, "max_actions = [a for a in action_vals.keys() if action_vals[a] == maxq]", "max_actions = [a for a in action_vals.keys() if action_vals[a] >= maxq - 1e-3]")),
    M("policy-fallback-action-list", ["POL-1"],
      (TD, "                max_actions = mdp.actions(s)\n", "                max_actions = mdp.action_list\n")),
    M("dist-mixture-weights", ["BEH-1"],
      (TD, "return rand_dist*rand_choose | sm_dist*(1 - rand_choose)", "return rand_dist*rand_choose | sm_dist")),
    M("absorbing-guard-on-next", ["SIM-1"],
      (TD, "            s = mdp.initial_state_dist().sample(rng=rng)\n            while not mdp.is_absorbing(s):\n                # select action\n                a = epsilon_softmax_sample(q[s], self.rand_choose, self.softmax_temp, rng)\n                # transition to next state\n                ns = mdp.next_state_dist(s, a).sample(rng=rng)\n                r = mdp.reward(s, a, ns)\n                # update\n                na_dist",
       "            s = mdp.initial_state_dist().sample(rng=rng)\n            while True:\n                # select action\n                a = epsilon_softmax_sample(q[s], self.rand_choose, self.softmax_temp, rng)\n                # transition to next state\n                ns = mdp.next_state_dist(s, a).sample(rng=rng)\n                r = mdp.reward(s, a, ns)\n                # update\n                na_dist")),
]
TWINS["C10"] = [
    TW("q-convex-form",
       (TD, "q[s][a] += self.step_size*(r + mdp.discount_rate*max(q[ns].values()) - q[s][a])",
        "q[s][a] = (1 - self.step_size)*q[s][a] + self.step_size*(r + mdp.discount_rate*max(q[ns].values()))")),
    TW("q-td-error-variable",
       (TD, "q[s][a] += self.step_size*(r + mdp.discount_rate*max(q[ns].values()) - q[s][a])",
        "td_error = r + mdp.discount_rate*max(q[ns].values()) - q[s][a]\n                q[s][a] += self.step_size*td_error")),
    TW("sarsa-factor-order",
       (TD, "q[s][a] += self.step_size*(r + mdp.discount_rate*q[ns][na] - q[s][a])", "q[s][a] += (r - q[s][a] + q[ns][na]*mdp.discount_rate)*self.step_size")),
    TW("esarsa-inline-td",
       (TD, "                td_error = r + mdp.discount_rate*sum([q[ns][na]*p for na, p in na_dist.items()]) - q[s][a]\n                q[s][a] += self.step_size*td_error",
        "                q[s][a] += self.step_size*(r + mdp.discount_rate*sum([q[ns][na]*p for na, p in na_dist.items()]) - q[s][a])")),
]

# ----------------------------------------------------------------------------------- C01
VI = A + "valueiteration.py"
PI = A + "policyiteration.py"
MUTANTS["C01"] = [
    M("revert-F1-solve-rank", ["TEN-5"],
      (PI, "                state_rewards[..., np.newaxis],\n            )[..., 0]", "                state_rewards,\n            )")),
    M("revert-F19-policy-after-placeholder", ["BEL-4"],
      (VI, """        policy_matrix = np.isclose(
            action_values,
            np.max(action_values, axis=-1, keepdims=True),
        )
        policy_matrix = policy_matrix/policy_matrix.sum(-1, keepdims=True)
        single_action_states = mdp.action_matrix.sum(-1) == 1
        policy_matrix[single_action_states] = mdp.action_matrix[single_action_states]
        state_values[mdp._unable_to_reach_absorbing,] = self.undefined_value
        action_values[mdp._unable_to_reach_absorbing,] = self.undefined_value
""", """        state_values[mdp._unable_to_reach_absorbing,] = self.undefined_value
        action_values[mdp._unable_to_reach_absorbing,] = self.undefined_value
        policy_matrix = np.isclose(
            action_values,
            np.max(action_values, axis=-1, keepdims=True),
        )
        policy_matrix = policy_matrix/policy_matrix.sum(-1, keepdims=True)
        single_action_states = mdp.action_matrix.sum(-1) == 1
        policy_matrix[single_action_states] = mdp.action_matrix[single_action_states]
""")),
    M("vi-residual-not-forwarded", ["BEL-5"],
      (VI, "            action_matrix=mdp.action_matrix.astype(bool),\n            max_residual=self.max_residual,\n", "            action_matrix=mdp.action_matrix.astype(bool),\n")),
    M("vi-absorbing-mask-on-transitions-dropped", ["BEL-3"],
      (VI, "        transition_matrix[mdp.absorbing_state_vec,] = 0\n", "")),
    M("vi-unable-mask-on-rewards-dropped", ["BEL-3"],
      (VI, "        state_action_reward_matrix[mdp._unable_to_reach_absorbing,] = 0\n", "")),
    M("vi-mask-on-successor-axis", ["TEN-3", "BEL-3"],
      (VI, "        transition_matrix[mdp.absorbing_state_vec,] = 0\n", "        transition_matrix[:, :, mdp.absorbing_state_vec] = 0\n")),
    M("vi-discount-on-reward", ["BEL-2"],
      (VI, "            state_action_reward_matrix +\\\n            discount_rate*future_action_values +\\\n            action_penalty", "            discount_rate*(state_action_reward_matrix + future_action_values) +\\\n            action_penalty")),
    M("vi-no-discount", ["BEL-2", "BEL-1"],
      (VI, "            discount_rate*future_action_values +\\\n", "            future_action_values +\\\n")),
    M("vi-einsum-transposed", ["TEN-2", "TEN-1"],
      (VI, 'np.einsum("san,n->sa", transition_matrix, state_values)', 'np.einsum("nas,n->sa", transition_matrix, state_values)')),
    M("vi-default-rtol", ["BEL-5"],
      (VI, "if np.isclose(state_values, next_state_values, atol=max_residual, rtol=0).all():", "if np.isclose(state_values, next_state_values, atol=max_residual).all():")),
    M("vi-stop-any", ["BEL-5"],
      (VI, "if np.isclose(state_values, next_state_values, atol=max_residual, rtol=0).all():", "if np.isclose(state_values, next_state_values, atol=max_residual, rtol=0).any():")),
    M("vi-penalty-dropped", ["BEL-4", "BEL-1"],
      (VI, "            discount_rate*future_action_values +\\\n            action_penalty", "            discount_rate*future_action_values")),
    M("vi-policy-argmax-onehot", ["BEL-4"],
      (VI, """        policy_matrix = np.isclose(
            action_values,
            np.max(action_values, axis=-1, keepdims=True),
        )
        policy_matrix = policy_matrix/policy_matrix.sum(-1, keepdims=True)""", """        policy_matrix = np.eye(action_values.shape[-1])[np.argmax(action_values, axis=-1)]""")),
    M("vi-placeholder-missing-on-values", ["BEL-3"],
      (VI, "        state_values[mdp._unable_to_reach_absorbing,] = self.undefined_value\n        action_values", "        action_values")),
    M("vi-initial-value-from-raw", ["BEL-6"],
      (VI, """            converged=iterations < (self.max_iterations - 1),
            initial_value=sum([state_values[s]*p for s, p in mdp.initial_state_dist().items()]),
            policy=policy
        )
    
    def _dict_plan_on""", """            converged=iterations < (self.max_iterations - 1),
            initial_value=float(raw_values.dot(mdp.initial_state_vec)),
            policy=policy
        )
    
    def _dict_plan_on"""),
      (VI, "        state_values[mdp._unable_to_reach_absorbing,] = self.undefined_value\n        action_values", "        raw_values = state_values.copy()\n        state_values[mdp._unable_to_reach_absorbing,] = self.undefined_value\n        action_values")),
    M("vi-converged-constant", ["BEL-5"],
      (VI, """            converged=iterations < (self.max_iterations - 1),
            initial_value=sum([state_values[s]*p for s, p in mdp.initial_state_dist().items()]),
            policy=policy
        )
    
    def _dict_plan_on""", """            converged=True,
            initial_value=sum([state_values[s]*p for s, p in mdp.initial_state_dist().items()]),
            policy=policy
        )
    
    def _dict_plan_on""")),
    M("vi-table-axes-swapped", ["TEN-3"],
      (VI, """        action_values=StateActionTable.from_state_action_lists(
            state_list=mdp.state_list,
            action_list=mdp.action_list,
            data=action_values
        )
        return ValueIterationResult(
            iterations=iterations,
            state_value=state_values,
            action_value=action_values,
            converged=iterations < (self.max_iterations - 1),""", """        action_values=StateActionTable.from_state_action_lists(
            state_list=mdp.state_list,
            action_list=mdp.action_list,
            data=action_values.T
        )
        return ValueIterationResult(
            iterations=iterations,
            state_value=state_values,
            action_value=action_values,
            converged=iterations < (self.max_iterations - 1),""")),
    M("dict-no-absorbing-guard", ["DICT-2"],
      (VI, "                if mdp.is_absorbing(s) or mdp._unable_to_reach_absorbing[si]:\n                    continue\n", "                if mdp._unable_to_reach_absorbing[si]:\n                    continue\n")),
    M("dict-discount-on-both", ["DICT-1"],
      (VI, "action_values[s][a] += prob*(mdp.reward(s, a, ns) + mdp.discount_rate*state_values[ns])", "action_values[s][a] += prob*mdp.discount_rate*(mdp.reward(s, a, ns) + state_values[ns])")),
    M("dict-reward-args", ["DICT-1", "ARG"],
      (VI, "action_values[s][a] += prob*(mdp.reward(s, a, ns) + mdp.discount_rate*state_values[ns])", "action_values[s][a] += prob*(mdp.reward(ns, a, s) + mdp.discount_rate*state_values[ns])")),
    M("dict-residual-le", ["DICT-4"],
      (VI, "        if residual < max_residual:\n            break\n    return state_values, action_values, i", "        if residual < max_residual*10:\n            break\n    return state_values, action_values, i")),
    M("dict-residual-not-forwarded", ["DICT-5"],
      (VI, "            mdp,\n            max_residual=self.max_residual,\n", "            mdp,\n")),
    M("pi-discount-twice", ["BEL-2"],
      (PI, '            "b,bsan,bn->bsa",\n            discount_rate,\n            transition_matrix,\n            state_values,', '            "b,b,bsan,bn->bsa",\n            discount_rate,\n            discount_rate,\n            transition_matrix,\n            state_values,')),
    M("pi-system-no-discount", ["BEL-2"],
      (PI, '            "bsan,bsa,b->bsn",\n            transition_matrix,\n            policy_matrix,\n            discount_rate,\n', '            "bsan,bsa->bsn",\n            transition_matrix,\n            policy_matrix,\n')),
    M("pi-absorbing-mask-dropped", ["BEL-3"],
      (PI, "            transition_matrix[mdp.absorbing_state_vec,] = 0\n", "")),
    M("pi-penalty-store-dropped", ["BEL-4"],
      (PI, "        action_values[~action_matrix] = float('-inf')\n", "")),
    M("pi-placeholder-dropped", ["BEL-3"],
      (PI, "            action_values[mdp._unable_to_reach_absorbing,] = self.undefined_value\n", "")),
    M("pi-stop-on-values", ["BEL-5"],
      (PI, "        if np.isclose(new_policy, policy_matrix).all():\n            break\n", "")),
]
TWINS["C01"] = [
    TW("vi-gamma-inside-einsum",
       (VI, """            np.einsum("san,n->sa", transition_matrix, state_values)
        action_values = \\
            state_action_reward_matrix +\\
            discount_rate*future_action_values +\\
            action_penalty""", """            np.einsum("san,n->sa", discount_rate*transition_matrix, state_values)
        action_values = \\
            state_action_reward_matrix +\\
            future_action_values +\\
            action_penalty""")),
    TW("vi-mask-order-swapped",
       (VI, "        transition_matrix[mdp._unable_to_reach_absorbing,] = 0\n        transition_matrix[mdp.absorbing_state_vec,] = 0\n",
        "        transition_matrix[mdp.absorbing_state_vec,] = 0\n        transition_matrix[mdp._unable_to_reach_absorbing,] = 0\n")),
    TW("vi-rename-locals",
       (VI, "        next_state_values = np.max(action_values, axis=-1)\n        if np.isclose(state_values, next_state_values, atol=max_residual, rtol=0).all():\n            break\n        state_values = next_state_values",
        "        new_values = np.max(action_values, axis=-1)\n        if np.isclose(state_values, new_values, atol=max_residual, rtol=0).all():\n            break\n        state_values = new_values")),
    TW("vi-mask-with-slice",
       (VI, "        transition_matrix[mdp.absorbing_state_vec,] = 0\n", "        transition_matrix[mdp.absorbing_state_vec, :, :] = 0\n")),
    TW("dict-factor-order",
       (VI, "action_values[s][a] += prob*(mdp.reward(s, a, ns) + mdp.discount_rate*state_values[ns])", "action_values[s][a] += (mdp.discount_rate*state_values[ns] + mdp.reward(s, a, ns))*prob")),
    TW("pi-letters-renamed",
       (PI, '"bsan,bsa,b->bsn"', '"bxaz,bxa,b->bxz"')),
]

# ----------------------------------------------------------------------------------- C02
TP = C + "mdp/tabularpolicy.py"
MPOL = C + "mdp/policy.py"
MUTANTS["C02"] = [
    M("revert-F20-policy-matrix-selection", ["MAT-1"],
      (TP, """        policy_matrix = self._policy_matrix_on(mdp)
        absorbing_state_vec = mdp.absorbing_state_vec.astype(bool)
        state_rewards = np.einsum(
            "sa,sa->s",
            policy_matrix, mdp.state_action_reward_matrix
        )
        state_rewards[absorbing_state_vec] = 0
        markov_process = np.einsum(
            "san,sa->sn",
            mdp.transition_matrix,
            policy_matrix
        )
        markov_process[absorbing_state_vec, :] = 0
        successor_representation = np.linalg.inv(
            np.eye(markov_process.shape[0]) - mdp.discount_rate*markov_process""", """        policy_matrix = np.array(self[mdp.state_list,][:,mdp.action_list])
        absorbing_state_vec = mdp.absorbing_state_vec.astype(bool)
        state_rewards = np.einsum(
            "sa,sa->s",
            policy_matrix, mdp.state_action_reward_matrix
        )
        state_rewards[absorbing_state_vec] = 0
        markov_process = np.einsum(
            "san,sa->sn",
            mdp.transition_matrix,
            policy_matrix
        )
        markov_process[absorbing_state_vec, :] = 0
        successor_representation = np.linalg.inv(
            np.eye(markov_process.shape[0]) - mdp.discount_rate*markov_process""")),
    M("disc-mask-on-columns", ["TEN-3", "BEL-3"],
      (TP, "        markov_process[absorbing_state_vec, :] = 0\n        successor_representation = np.linalg.inv(\n            np.eye(markov_process.shape[0]) - mdp.discount_rate*markov_process",
       "        markov_process[:, absorbing_state_vec] = 0\n        successor_representation = np.linalg.inv(\n            np.eye(markov_process.shape[0]) - mdp.discount_rate*markov_process")),
    M("disc-chain-mask-dropped", ["BEL-3"],
      (TP, "        markov_process[absorbing_state_vec, :] = 0\n        successor_representation = np.linalg.inv(\n            np.eye(markov_process.shape[0]) - mdp.discount_rate*markov_process",
       "        successor_representation = np.linalg.inv(\n            np.eye(markov_process.shape[0]) - mdp.discount_rate*markov_process")),
    M("disc-reward-mask-dropped", ["BEL-3"],
      (TP, "        state_rewards[absorbing_state_vec] = 0\n        markov_process = np.einsum(\n            \"san,sa->sn\",\n            mdp.transition_matrix,\n            policy_matrix\n        )\n        markov_process[absorbing_state_vec, :] = 0\n        successor_representation",
       "        markov_process = np.einsum(\n            \"san,sa->sn\",\n            mdp.transition_matrix,\n            policy_matrix\n        )\n        markov_process[absorbing_state_vec, :] = 0\n        successor_representation")),
    M("disc-no-discount-in-system", ["BEL-2"],
      (TP, "np.eye(markov_process.shape[0]) - mdp.discount_rate*markov_process", "np.eye(markov_process.shape[0]) - markov_process")),
    M("disc-value-occupancy-transposed", ["TEN-2"],
      (TP, """        state_value = np.einsum(
            "sz,z->s",
            successor_representation, state_rewards
        )
        action_value = \\
            mdp.state_action_reward_matrix + \\
            np.log(mdp.action_matrix) + \\
            np.einsum(
                "san,n->sa",
                mdp.discount_rate*mdp.transition_matrix,""", """        state_value = np.einsum(
            "sz,s->z",
            successor_representation, state_rewards
        )
        action_value = \\
            mdp.state_action_reward_matrix + \\
            np.log(mdp.action_matrix) + \\
            np.einsum(
                "san,n->sa",
                mdp.discount_rate*mdp.transition_matrix,""")),
    M("disc-occupancy-as-value", ["TEN-2"],
      (TP, """        state_occupancy = np.einsum(
            "sz,s->z",
            successor_representation,
            mdp.initial_state_vec
        )
        initial_value = state_value.dot(mdp.initial_state_vec)""", """        state_occupancy = np.einsum(
            "sz,z->s",
            successor_representation,
            mdp.initial_state_vec
        )
        initial_value = state_value.dot(mdp.initial_state_vec)""")),
    M("disc-action-value-no-discount", ["BEL-2"],
      (TP, "                mdp.discount_rate*mdp.transition_matrix,\n                state_value\n            )\n        state_occupancy", "                mdp.transition_matrix,\n                state_value\n            )\n        state_occupancy")),
    M("disc-action-value-no-penalty", ["BEL-1"],
      (TP, "            mdp.state_action_reward_matrix + \\\n            np.log(mdp.action_matrix) + \\\n            np.einsum(", "            mdp.state_action_reward_matrix + \\\n            np.einsum(")),
    M("disc-policy-einsum-letters", ["TEN-1"],
      (TP, """        markov_process = np.einsum(
            "san,sa->sn",
            mdp.transition_matrix,
            policy_matrix
        )
        markov_process[absorbing_state_vec, :] = 0
        successor_representation""", """        markov_process = np.einsum(
            "san,as->sn",
            mdp.transition_matrix,
            policy_matrix
        )
        markov_process[absorbing_state_vec, :] = 0
        successor_representation""")),
    M("undisc-recurrent-rows-kept", ["REC-2"],
      (TP, "        markov_process[recurrent_states] = 0\n", "")),
    M("undisc-inf-from-wrong-mask", ["REC-3"],
      (TP, "state_value[negative_recurrent_accessible_states] = float('-inf')", "state_value[negative_recurrent_states] = float('-inf')")),
    M("undisc-negative-recurrent-ignores-reward", ["REC-3"],
      (TP, "negative_recurrent_states = recurrent_states & (state_rewards < 0)", "negative_recurrent_states = recurrent_states")),
    M("undisc-discount-in-system", ["BEL-2"],
      (TP, "            np.eye(markov_process.shape[0]) - markov_process\n", "            np.eye(markov_process.shape[0]) - 0.999*markov_process*mdp.discount_rate\n")),
    M("dispatch-le", ["DISP-1"],
      (TP, "        if mdp.discount_rate < 1.0:\n            return self._evaluate_on_discounted(mdp)", "        if mdp.discount_rate <= 1.0:\n            return self._evaluate_on_discounted(mdp)")),
    M("to-tabular-store-transposed", ["TAB-1"],
      (MPOL, "                policy_matrix[si, ai] = prob", "                policy_matrix[ai, si] = prob")),
    M("sink-value-table-from-occupancy", ["BEL-1", "TEN-3"],
      (TP, """            state_value=StateTable.from_state_list(
                state_list=mdp.state_list,
                data=state_value
            ),
            action_value=StateActionTable.from_state_action_lists(
                state_list=mdp.state_list,
                action_list=mdp.action_list,
                data=action_value
            ),
            initial_value=initial_value,
            state_occupancy=StateTable.from_state_list(
                state_list=mdp.state_list,
                data=state_occupancy
            ),
            n_simulations=None
        )
    
    def _evaluate_on_undiscounted""", """            state_value=StateTable.from_state_list(
                state_list=mdp.state_list,
                data=state_value
            ),
            action_value=StateActionTable.from_state_action_lists(
                state_list=mdp.state_list,
                action_list=mdp.action_list,
                data=action_value
            ),
            initial_value=initial_value,
            state_occupancy=StateTable.from_state_list(
                state_list=mdp.state_list,
                data=state_value
            ),
            n_simulations=None
        )
    
    def _evaluate_on_undiscounted""")),
]
TWINS["C02"] = [
    TW("disc-gamma-outside-einsum",
       (TP, "                mdp.discount_rate*mdp.transition_matrix,\n                state_value\n            )\n        state_occupancy", "                mdp.transition_matrix,\n                state_value\n            )*mdp.discount_rate\n        state_occupancy")),
    TW("disc-mask-without-slice",
       (TP, "        markov_process[absorbing_state_vec, :] = 0\n        successor_representation = np.linalg.inv(\n            np.eye(markov_process.shape[0]) - mdp.discount_rate*markov_process",
        "        markov_process[absorbing_state_vec] = 0\n        successor_representation = np.linalg.inv(\n            np.eye(markov_process.shape[0]) - mdp.discount_rate*markov_process")),
    TW("disc-letters-renamed",
       (TP, """        state_value = np.einsum(
            "sz,z->s",
            successor_representation, state_rewards
        )
        action_value = \\
            mdp.state_action_reward_matrix + \\
            np.log(mdp.action_matrix) + \\""", """        state_value = np.einsum(
            "ij,j->i",
            successor_representation, state_rewards
        )
        action_value = \\
            mdp.state_action_reward_matrix + \\
            np.log(mdp.action_matrix) + \\""")),
    TW("disc-gamma-times-chain-swapped",
       (TP, "np.eye(markov_process.shape[0]) - mdp.discount_rate*markov_process", "np.eye(markov_process.shape[0]) - markov_process*mdp.discount_rate")),
]

# ----------------------------------------------------------------------------------- C06
TM = C + "mdp/tabularmdp.py"
MDPB = C + "mdp/mdp.py"
QM = C + "mdp/quickmdp.py"
MUTANTS["C06"] = [
    M("revert-F4-transition-zero-prob", ["ZERO-1"],
      (TM, "                    if nsp == 0.:\n                        continue\n                    nsi = self.state_list.index(ns)\n                    tf[si, ai, nsi] = nsp",
       "                    nsi = self.state_list.index(ns)\n                    tf[si, ai, nsi] = nsp")),
    M("revert-F4-reward-zero-prob", ["ZERO-1"],
      (TM, "                    if p == 0.:\n                        continue\n                    nsi = self.state_list.index(ns)\n                    rf[si, ai, nsi]",
       "                    nsi = self.state_list.index(ns)\n                    if p == 0.:\n                        continue\n                    rf[si, ai, nsi]")),
    M("transition-store-transposed", ["TEN-4"],
      (TM, "tf[si, ai, nsi] = nsp", "tf[nsi, ai, si] = nsp")),
    M("reward-of-wrong-triple", ["TEN-4", "ARG"],
      (TM, "rf[si, ai, nsi] = self.reward(s, a, ns)", "rf[si, ai, nsi] = self.reward(ns, a, s)")),
    M("action-index-from-state-list", ["TEN-4"],
      (TM, "                ai = self.action_list.index(a)\n                for ns, nsp", "                ai = self.state_list.index(a)\n                for ns, nsp")),
    M("alloc-actions-first", ["TEN-4"],
      (TM, "        am = np.zeros((\n            len(self.state_list),\n            len(self.action_list), \n        ))", "        am = np.zeros((\n            len(self.action_list),\n            len(self.state_list), \n        ))")),
    M("reachable-iterates-support", ["REACH-1"],
      (MDPB, "                for ns, prob in self.next_state_dist(s, a).items():\n                    if prob == 0:\n                        continue\n", "                for ns in self.next_state_dist(s, a).support:\n")),
    M("reachable-absorbing-expanded", ["REACH-2"],
      (MDPB, "if ns not in visited and not self.is_absorbing(ns):", "if ns not in visited:")),
    M("reachable-initial-all", ["REACH-3"],
      (MDPB, "S0 = {e for e, p in self.initial_state_dist().items() if p > 0}", "S0 = {e for e, p in self.initial_state_dist().items()}")),
    M("initial-vec-wrong-order", ["VEC-1"],
      (TM, "s0 = np.array([s0.prob(s) for s in self.state_list])", "s0 = np.array([s0.prob(s) for s in self.reachable_states()])")),
    M("sarm-contract-source", ["VEC-1"],
      (TM, 'sa_rf = np.einsum("san,san->sa", rf, tf)', 'sa_rf = np.einsum("san,san->na", rf, tf)')),
    M("from-matrices-reward-axes", ["FM-1"],
      (TM, "return reward_matrix[ss_i[s], aa_i[a], ss_i[ns]]", "return reward_matrix[ss_i[ns], aa_i[a], ss_i[s]]")),
    M("from-matrices-action-map", ["FM-1"],
      (TM, "probs = transition_matrix[ss_i[s], aa_i[a], :]", "probs = transition_matrix[ss_i[s], ss_i[a], :]")),
    M("from-matrices-discount-dropped", ["FM-1"],
      (TM, "            is_absorbing=is_absorbing,\n            discount_rate=discount_rate\n", "            is_absorbing=is_absorbing,\n")),
    M("from-matrices-actions-zip-states", ["FM-1"],
      (TM, "available_actions = [a for a, aa in zip(action_list, available_actions) if aa]", "available_actions = [a for a, aa in zip(state_list, available_actions) if aa]")),
    M("quick-reward-args-reordered", ["QK-1"],
      (QM, "        return self._reward(s, a, ns)", "        return self._reward(s, ns, a)")),
    M("quick-discount-not-stored", ["QK-1"],
      (QM, "        self.discount_rate = discount_rate\n", "")),
]
TWINS["C06"] = [
    TW("transition-guard-positive-form",
       (TM, "                    if nsp == 0.:\n                        continue\n                    nsi = self.state_list.index(ns)\n                    tf[si, ai, nsi] = nsp",
        "                    if nsp != 0:\n                        nsi = self.state_list.index(ns)\n                        tf[si, ai, nsi] = nsp")),
    TW("rename-index-vars",
       (TM, "                ai = self.action_list.index(a)\n                am[si, ai] = 1", "                col = self.action_list.index(a)\n                am[si, col] = 1")),
    TW("reachable-skip-le",
       (MDPB, "                    if prob == 0:\n                        continue", "                    if prob <= 0:\n                        continue")),
]

# ----------------------------------------------------------------------------------- C07
PO = C + "pomdp/pomdp.py"
TPO = C + "pomdp/tabularpomdp.py"
BM = C + "pomdp/beliefmdp.py"
MUTANTS["C07"] = [
    M("revert-F21-obs-matrix-zero-prob", ["ZERO-1"],
      (TPO, "                    if p == 0.:\n                        continue\n                    obs[ai, nsi, ooi[o]] = p", "                    obs[ai, nsi, ooi[o]] = p")),
    M("filter-assign-instead-of-accumulate", ["ACC-1"],
      (PO, "ns_dist[ns] += o_prob*s_prob*ns_prob", "ns_dist[ns] = o_prob*s_prob*ns_prob")),
    M("filter-observation-on-previous-state", ["CALL-1", "ARG"],
      (PO, "o_prob = self.observation_dist(a, ns).prob(o)", "o_prob = self.observation_dist(a, s).prob(o)")),
    M("filter-drops-transition-prob", ["ACC-1"],
      (PO, "ns_dist[ns] += o_prob*s_prob*ns_prob", "ns_dist[ns] += o_prob*s_prob")),
    M("filter-keyed-by-source", ["ACC-1"],
      (PO, "ns_dist[ns] += o_prob*s_prob*ns_prob", "ns_dist[s] += o_prob*s_prob*ns_prob")),
    M("filter-not-normalised", ["NORM-1"],
      (PO, "return DictDistribution({ns: p/tot for ns, p in ns_dist.items() if p > 0.0})", "return DictDistribution({ns: p for ns, p in ns_dist.items() if p > 0.0})")),
    M("filter-zero-test-dropped", ["NORM-1"],
      (PO, "        if tot == 0.0:\n            return DictDistribution({})\n", "")),
    M("predictive-observation-on-previous-state", ["CALL-1"],
      (PO, "                for o, o_prob in self.observation_dist(a, ns).items():", "                for o, o_prob in self.observation_dist(a, s).items():")),
    M("predictive-drops-belief-weight", ["ACC-1"],
      (PO, "o_dist[o] += s_prob*ns_prob*o_prob", "o_dist[o] += ns_prob*o_prob")),
    M("vec-filter-transposed", ["TEN-2", "TEN-1"],
      (TPO, "np.einsum('s,sn,n->n', b, self.transition_matrix[:, ai, :], self.observation_matrix[ai, :, oi])", "np.einsum('n,sn,n->s', b, self.transition_matrix[:, ai, :], self.observation_matrix[ai, :, oi])")),
    M("vec-filter-obs-index-swapped", ["IDX-1"],
      (TPO, "self.observation_matrix[ai, :, oi])\n        if dist.sum()", "self.observation_matrix[oi, :, ai])\n        if dist.sum()")),
    M("vec-predictive-transposed", ["TEN-1", "TEN-2"],
      (TPO, "np.einsum('s,sn,no->o', b, self.transition_matrix[:, ai, :], self.observation_matrix[ai])", "np.einsum('s,sn,on->o', b, self.transition_matrix[:, ai, :], self.observation_matrix[ai])")),
    M("obs-matrix-axes", ["TEN-4"],
      (TPO, "obs[ai, nsi, ooi[o]] = p", "obs[nsi, ai, ooi[o]] = p")),
    M("obs-matrix-conditioned-wrong", ["TEN-4", "ARG"],
      (TPO, "for o, p in self._cached_observation_dist(a, ns).items():", "for o, p in self._cached_observation_dist(ns, a).items():")),
    M("bmdp-weights-overwrite", ["BMDP-2"],
      (BM, "                nb_dist[nb] += o_prob", "                nb_dist[nb] = o_prob")),
    M("bmdp-estimator-wrong-action", ["BMDP-2"],
      (BM, "nb = self.pomdp.state_estimator(b, a, o)", "nb = self.pomdp.state_estimator(b, o, a)")),
    M("bmdp-reward-unweighted", ["BMDP-3"],
      (BM, "            r += sa_reward*s_prob", "            r += sa_reward")),
    M("bmdp-reward-not-reset", ["BMDP-3"],
      (BM, "        for s, s_prob in b.items():\n            sa_reward = 0\n", "        sa_reward = 0\n        for s, s_prob in b.items():\n")),
    M("bmdp-absorbing-any", ["BMDP-4"],
      (BM, "            if (prob > 0.0) and not self.pomdp.is_absorbing(state):\n                return False\n        return True", "            if (prob > 0.0) and self.pomdp.is_absorbing(state):\n                return True\n        return False")),
    M("tracker-wrong-args", ["TRK-1"],
      (C + "pomdp/policy.py", "ns_dist = self.pomdp.state_estimator(s_dist, a, o)", "ns_dist = self.pomdp.state_estimator(s_dist, o, a)")),
]
TWINS["C07"] = [
    TW("filter-factor-order",
       (PO, "ns_dist[ns] += o_prob*s_prob*ns_prob", "ns_dist[ns] += ns_prob*(s_prob*o_prob)")),
    TW("predictive-rename",
       (PO, "o_dist[o] += s_prob*ns_prob*o_prob", "o_dist[o] += o_prob*ns_prob*s_prob")),
    TW("vec-letters-renamed",
       (TPO, "np.einsum('s,sn,n->n', b,", "np.einsum('i,ij,j->j', b,")),
    TW("obs-guard-positive",
       (TPO, "                    if p == 0.:\n                        continue\n                    obs[ai, nsi, ooi[o]] = p", "                    if p > 0:\n                        obs[ai, nsi, ooi[o]] = p")),
]

# ----------------------------------------------------------------------------------- C08
PB = A + "pointbasedvalueiteration.py"
AVP = C + "pomdp/alphavectorpolicy.py"
QMD = A + "qmdp.py"
MUTANTS["C08"] = [
    M("mask-on-successor-axis", ["TEN-3"],
      (PB, "tf = tf*nt[:, None, None] #terminal states transition nowhere", "tf = tf*nt[None, None, :] #terminal states transition nowhere")),
    M("transition-mask-dropped", ["BEL-1"],
      (PB, "    tf = tf*nt[:, None, None] #terminal states transition nowhere\n", "")),
    M("reward-mask-dropped", ["BEL-1"],
      (PB, "    sa_rf = sa_rf*nt[:,None] #reward at terminal state is 0\n", "")),
    M("mask-not-negated", ["BEL-1", "TEN-3"],
      (PB, "nt = ~pomdp.absorbing_state_vec.astype(bool)", "nt = pomdp.absorbing_state_vec.astype(bool)")),
    M("no-discount", ["BEL-2"],
      (PB, "bsa_vf = sa_rf[None, :, :] + pomdp.discount_rate * bsa_fut_vf", "bsa_vf = sa_rf[None, :, :] + bsa_fut_vf")),
    M("discount-on-everything", ["BEL-2"],
      (PB, "bsa_vf = sa_rf[None, :, :] + pomdp.discount_rate * bsa_fut_vf", "bsa_vf = pomdp.discount_rate * (sa_rf[None, :, :] + bsa_fut_vf)")),
    M("einsum-obs-axes-swapped", ["TEN-1"],
      (PB, 'aops_fut_vf = np.einsum("san,ano,pn->aops", tf, of, bv)', 'aops_fut_vf = np.einsum("san,aon,pn->aops", tf, of, bv)')),
    M("einsum-belief-on-action", ["TEN-1"],
      (PB, 'ba_vf = np.einsum("bsa,bs->ba", bsa_vf, bb)', 'ba_vf = np.einsum("bsa,ba->bs", bsa_vf, bb)')),
    M("argmax-over-beliefs", ["SEL-1"],
      (PB, "ba_vf_max_idx = ba_vf.argmax(axis=1)", "ba_vf_max_idx = ba_vf.argmax(axis=0)")),
    M("stop-rule-dropped", ["STOP-1"],
      (PB, "        if delta < value_convergence_epsilon:\n            break\n", "")),
    M("policy-from-stale-vectors", ["WIRE-1"],
      (PB, "pi = AlphaVectorPolicy(pomdp, res['alpha_vectors'])", "pi = AlphaVectorPolicy(pomdp, res['belief_action_alpha_vectors'][:, :, 0])")),
    M("threshold-not-forwarded", ["WIRE-1"],
      (PB, "                value_convergence_epsilon=self.value_convergence_epsilon,\n                horizon=self.horizon", "                value_convergence_epsilon=.01,\n                horizon=self.horizon")),
    M("lookahead-no-discount", ["LA-1"],
      (AVP, "ns_v = self.pomdp.discount_rate * self.value(ns_dist)", "ns_v = self.value(ns_dist)")),
    M("lookahead-wrong-posterior", ["LA-1"],
      (AVP, "ns_dist = self.pomdp.state_estimator(s_dist, a, o)", "ns_dist = self.pomdp.state_estimator(s_dist, o, a)")),
    M("lookahead-reward-unweighted", ["LA-1"],
      (AVP, "aval += r*s_prob*ns_prob", "aval += r*ns_prob")),
    M("qmdp-unweighted", ["QMDP-1"],
      (QMD, "aval += self.sa_values[s][a]*prob", "aval += self.sa_values[s][a]")),
    M("qmdp-state-values", ["QMDP-1"],
      (QMD, "sa_values = mdp_res.action_value", "sa_values = mdp_res.state_value")),
]
TWINS["C08"] = [
    TW("mask-via-newaxis",
       (PB, "tf = tf*nt[:, None, None] #terminal states transition nowhere", "tf = nt[:, np.newaxis, np.newaxis]*tf")),
    TW("letters-renamed",
       (PB, '"san,ano,pn->aops"', '"xay,ayz,py->azpx"')),
    TW("discount-commuted",
       (PB, "bsa_vf = sa_rf[None, :, :] + pomdp.discount_rate * bsa_fut_vf", "bsa_vf = bsa_fut_vf * pomdp.discount_rate + sa_rf[None, :, :]")),
]

# ----------------------------------------------------------------------------------- C09
GA = A + "fscgradientascent.py"
BPI = A + "fscboundedpolicyiteration.py"
FSC = C + "pomdp/finitestatecontroller.py"
MUTANTS["C09"] = [
    M("chain-output-transposed", ["TEN-1"],
      (GA, "'na,sat,ato,naom->nsmt'", "'na,sat,ato,naom->nstm'")),
    M("chain-observation-of-source", ["TEN-1", "TEN-2"],
      (GA, "'na,sat,ato,naom->nsmt'", "'na,sat,aso,naom->nsmt'")),
    M("system-no-discount", ["BEL-2"],
      (GA, "torch.eye(crossprod, dtype=dtype) - pomdp.discount_rate * Tmu.view((crossprod, crossprod))", "torch.eye(crossprod, dtype=dtype) - Tmu.view((crossprod, crossprod))")),
    M("reward-not-policy-weighted", ["BEL-2"],
      (GA, "    Cmu = fsc_action@R.T\n", "    Cmu = (R.T).mean(0, keepdim=True).expand(ncontroller, -1)\n")),
    M("expected-value-ignores-initial-node", ["INIT-1"],
      (GA, "    state_value = fsc_initial_state @ V\n", "    state_value = V[0]\n")),
    M("action-mixture-labels", ["EXEC-1"],
      (FSC, "            a: action_dist[ai] for ai, a in enumerate(self.pomdp.action_list)", "            a: action_dist[-1 - ai] for ai, a in enumerate(self.pomdp.action_list)")),
    M("node-update-index-swapped", ["IDX-1"],
      (FSC, "        return ag @ self.observation_strategy[:, ai, oi]", "        return ag @ self.observation_strategy[:, oi, ai]")),
    M("bpi-value-not-refreshed", ["CFG-3"],
      (BPI, "                    r.add_to_fsc(fsc_action, fsc_state, inplace=True)\n                    V = value(fsc_action, fsc_state)\n", "                    r.add_to_fsc(fsc_action, fsc_state, inplace=True)\n")),
    M("bpi-value-not-refreshed-after-new-node", ["CFG-3"],
      (BPI, "                    ncontroller += 1\n                    V = value(fsc_action, fsc_state)\n", "                    ncontroller += 1\n")),
    M("bpi-reports-other-value", ["WIRE-1"],
      (BPI, "            value=fsc_initial_state@initial_controller_values,", "            value=initial_controller_values.max() if converged else initial_controller_values.mean(),")),
    M("bpi-returns-initial-strategies", ["WIRE-1"],
      (BPI, "            policy=StochasticFiniteStateController(pomdp, fsc_action, fsc_state, fsc_initial_state),", "            policy=StochasticFiniteStateController(pomdp, sample_distribution(ncontroller, nactions), fsc_state, fsc_initial_state),")),
    M("bpi-strategies-unnormalised", ["VALID-1"],
      (BPI, "            return d / d.sum(axis=-1, keepdims=True)", "            return d / d.sum()")),
    M("ga-stale-value", ["CFG-3"],
      (GA, "        return Result(\n            value=value(),", "        return Result(\n            value=result,")),
    M("ga-returns-logits", ["VALID-1", "WIRE-1"],
      (GA, "                fsc_action_logit.softmax(-1),\n                fsc_state_logit.softmax(-1),\n                fsc_initial_state_logit.softmax(-1),\n            ),\n            controller_logit",
       "                fsc_action_logit.softmax(-1),\n                fsc_state_logit.softmax(0),\n                fsc_initial_state_logit.softmax(-1),\n            ),\n            controller_logit")),
    M("rollout-observation-of-previous-state", ["OBS-1"],
      (C + "pomdp/policy.py", "o = pomdp.observation_dist(a, ns).sample(rng=rng)", "o = pomdp.observation_dist(a, s).sample(rng=rng)")),
]
TWINS["C09"] = [
    TW("chain-letters-renamed", (GA, "'na,sat,ato,naom->nsmt'", "'qa,sat,atz,qazm->qsmt'")),
    TW("discount-commuted",
       (GA, "torch.eye(crossprod, dtype=dtype) - pomdp.discount_rate * Tmu.view((crossprod, crossprod))", "torch.eye(crossprod, dtype=dtype) - Tmu.view((crossprod, crossprod)) * pomdp.discount_rate")),
]

# ----------------------------------------------------------------------------------- C16
MC = A + "multichainpolicyiteration.py"
MUTANTS["C16"] = [
    M("converged-always-true", ["BEL-5"],
      (MC, "converged=iterations < (self.max_iterations - 1),", "converged=iterations < self.max_iterations,")),
    M("gain-bias-crossed", ["IFC-4b"],
      (MC, "state_gain, action_gain, state_bias, action_bias, _, iterations = results", "state_bias, action_gain, state_gain, action_bias, _, iterations = results")),
    M("return-order-changed", ["IFC-4b"],
      (MC, "    return gain, gain_q, bias, bias_q, policy, i", "    return gain, bias_q, bias, gain_q, policy, i")),
    M("value-field-from-gain", ["IFC-4b"],
      (MC, "            state_value=state_bias,", "            state_value=state_gain,")),
    M("initial-value-from-gain", ["IFC-4b"],
      (MC, "initial_value=sum(state_bias[s]*p for s, p in mdp.initial_state_dist().items()),", "initial_value=sum(state_gain[s]*p for s, p in mdp.initial_state_dist().items()),")),
    M("reward-mask-dropped", ["BEL-1"],
      (MC, "    sa_rf[absorbing_state_vec] = 0\n", "")),
    M("chain-mask-dropped", ["BEL-1"],
      (MC, "        mp[absorbing_state_vec] = 0\n", "")),
    M("chain-undiscounted", ["BEL-2"],
      (MC, "mp = discount_rate*transition_matrix[ss_range, policy]", "mp = transition_matrix[ss_range, policy]")),
    M("gain-backup-discounted", ["BEL-2"],
      (MC, 'gain_q = np.einsum("san,n->sa", transition_matrix, gain) + action_penalty', 'gain_q = discount_rate*np.einsum("san,n->sa", transition_matrix, gain) + action_penalty')),
    M("bias-backup-undiscounted", ["BEL-2"],
      (MC, 'bias_q = sa_rf + discount_rate*np.einsum("san,n->sa", transition_matrix, bias) + action_penalty', 'bias_q = sa_rf + np.einsum("san,n->sa", transition_matrix, bias) + action_penalty')),
    M("bias-penalty-dropped", ["BEL-4"],
      (MC, 'bias_q = sa_rf + discount_rate*np.einsum("san,n->sa", transition_matrix, bias) + action_penalty', 'bias_q = sa_rf + discount_rate*np.einsum("san,n->sa", transition_matrix, bias)')),
    M("policy-gain-only", ["BEL-4"],
      (MC, "policy_matrix = gain_max_actions & bias_max_actions", "policy_matrix = gain_max_actions")),
    M("einsum-transposed", ["TEN-1", "TEN-2"],
      (MC, 'gain_q = np.einsum("san,n->sa", transition_matrix, gain) + action_penalty', 'gain_q = np.einsum("nas,n->sa", transition_matrix, gain) + action_penalty')),
    M("solver-gets-wrong-mask", ["IFC-4b"],
      (MC, "            absorbing_state_vec=mdp.absorbing_state_vec.astype(bool),", "            absorbing_state_vec=mdp.dead_end_state_vec.astype(bool),")),
]
TWINS["C16"] = [
    TW("converged-rewritten", (MC, "converged=iterations < (self.max_iterations - 1),", "converged=iterations + 1 < self.max_iterations,")),
    TW("converged-le", (MC, "converged=iterations < (self.max_iterations - 1),", "converged=iterations <= self.max_iterations - 2,")),
]
TWINS["C01"].append(TW("vi-converged-rewritten", (VI, """            converged=iterations < (self.max_iterations - 1),
            initial_value=sum([state_values[s]*p for s, p in mdp.initial_state_dist().items()]),
            policy=policy
        )
    
    def _dict_plan_on""", """            converged=iterations + 1 < self.max_iterations,
            initial_value=sum([state_values[s]*p for s, p in mdp.initial_state_dist().items()]),
            policy=policy
        )
    
    def _dict_plan_on""")))
MUTANTS["C01"].append(M("pi-converged-off-by-one", ["BEL-5"], (PI, "converged=iterations < (self.max_iterations - 1),", "converged=iterations < self.max_iterations,")))

# ----------------------------------------------------------------------------------- C19
ER = A + "entregpolicyiteration.py"
MUTANTS["C19"] = [
    M("prior-scaled-by-weight", ["IMP-1"],
      (ER, "new_pi = torch.softmax(q_action + torch.log(pi0), -1)", "new_pi = torch.softmax((1/entropy_weight[:,None])*(q + torch.log(pi0)), -1)")),
    M("q-not-scaled", ["IMP-1"],
      (ER, "new_pi = torch.softmax(q_action + torch.log(pi0), -1)", "new_pi = torch.softmax(q + torch.log(pi0), -1)")),
    M("prior-dropped", ["IMP-1"],
      (ER, "new_pi = torch.softmax(q_action + torch.log(pi0), -1)", "new_pi = torch.softmax(q_action, -1)")),
    M("softmax-over-states", ["IMP-1"],
      (ER, "new_pi = torch.softmax(q_action + torch.log(pi0), -1)", "new_pi = torch.softmax(q_action + torch.log(pi0), 0)")),
    M("system-no-discount", ["EVAL-1"],
      (ER, "v = torch.linalg.solve(eye - discount_rate*mp, s_rf_ent)", "v = torch.linalg.solve(eye - mp, s_rf_ent)")),
    M("entropy-sign", ["EVAL-1"],
      (ER, "s_rf_ent = (s_rf - entropy_weight*s_ent)", "s_rf_ent = (s_rf + entropy_weight*s_ent)")),
    M("entropy-unweighted", ["EVAL-1"],
      (ER, "s_rf_ent = (s_rf - entropy_weight*s_ent)", "s_rf_ent = (s_rf - s_ent)")),
    M("chain-sums-successors", ["EVAL-1"],
      (ER, "mp = (pi[:,:,None]*tf[:, :, :]).sum(dim=1)", "mp = (pi[:,:,None]*tf[:, :, :]).sum(dim=2)")),
    M("lookahead-no-discount", ["LOOK-1"],
      (ER, "q = (tf[:,:,:]*(rf + discount_rate*v[None,None,:])).sum(dim=-1)", "q = (tf[:,:,:]*(rf + v[None,None,:])).sum(dim=-1)")),
    M("lookahead-values-on-source-axis", ["LOOK-1"],
      (ER, "q = (tf[:,:,:]*(rf + discount_rate*v[None,None,:])).sum(dim=-1)", "q = (tf[:,:,:]*(rf + discount_rate*v[:,None,None])).sum(dim=-1)")),
    M("converged-unconditional", ["CONV-1"],
      (ER, "        if check_convergence:\n            if torch.all(torch.isclose(pi, new_pi)):\n                converged = True\n                break", "        converged = True\n        if check_convergence:\n            if torch.all(torch.isclose(pi, new_pi)):\n                break")),
    M("returns-new-policy-values-mismatch", ["CONV-1"],
      (ER, "        policy=pi,\n        action_values=q,", "        policy=pi,\n        action_values=q_action,")),
    M("wrapper-reward-from-sarm", ["WRAP-1"],
      (ER, "rf = torch.from_numpy(mdp.reward_matrix.copy())", "rf = torch.from_numpy(mdp.transition_matrix.copy())")),
    M("wrapper-q-labels-transposed", ["WRAP-1"],
      (ER, "qf[s][a] = res._qvaluemat[si, ai]", "qf[s][a] = res._qvaluemat[ai, si]")),
]
TWINS["C19"] = [
    TW("softmax-arg-reordered", (ER, "new_pi = torch.softmax(q_action + torch.log(pi0), -1)", "new_pi = torch.softmax(torch.log(pi0) + q_action, -1)")),
    TW("rhs-inline", (ER, "v = torch.linalg.solve(eye - discount_rate*mp, s_rf_ent)", "v = torch.linalg.solve(eye - mp*discount_rate, s_rf - s_ent*entropy_weight)")),
]

# ----------------------------------------------------------------------------------- C17
RM = A + "rmax.py"
MUTANTS["C17"] = [
    M("revert-F15-index-space", ["TEN-6"],
      (RM, "self.n_states = len(mdp.state_list)", "self.n_states = len(mdp.reachable_states())")),
    M("count-guard-le", ["SIM-8"],
      (RM, "if self.s_a_counts[state, action] < self.m:", "if self.s_a_counts[state, action] <= self.m:")),
    M("counter-of-other-pair", ["SIM-8"],
      (RM, "            self.s_a_counts[state, action] += 1\n", "            self.s_a_counts[next_state, action] += 1\n")),
    M("update-unmasked", ["VI-1"],
      (RM, "            self.q_matrix[mask] = new_q[mask]", "            self.q_matrix[:] = new_q")),
    M("optimistic-constant-no-horizon", ["ALG-4"],
      (RM, "self.q_matrix = np.ones((self.n_states, self.n_actions)) * self.rmax * 1/(1-mdp.discount_rate)", "self.q_matrix = np.ones((self.n_states, self.n_actions)) * self.rmax")),
    M("backup-no-discount", ["VI-1"],
      (RM, 'new_q = empirical_reward_mat + gamma * np.einsum("san,n->sa", empirical_transition_mat, v)', 'new_q = empirical_reward_mat + np.einsum("san,n->sa", empirical_transition_mat, v)')),
    M("observe-args-swapped", ["OBS-1"],
      (RM, "self._observe(mdp.state_list.index(s), ai, r, mdp.state_list.index(ns), gamma=mdp.discount_rate)", "self._observe(mdp.state_list.index(ns), ai, r, mdp.state_list.index(s), gamma=mdp.discount_rate)")),
    M("reward-args", ["SIM-3", "ARG"],
      (RM, "                r = mdp.reward(s, a, ns)\n                # update\n                self._observe", "                r = mdp.reward(ns, a, s)\n                # update\n                self._observe")),
    M("no-advance", ["SIM-4"],
      (RM, "                event_listener.end_of_timestep(locals())\n                s = ns\n", "                event_listener.end_of_timestep(locals())\n")),
    M("mask-strict", ["VI-1"],
      (RM, "        mask = self.s_a_counts >= self.m", "        mask = self.s_a_counts > 0")),
]
TWINS["C17"] = [
    TW("constant-rewritten", (RM, "self.q_matrix = np.ones((self.n_states, self.n_actions)) * self.rmax * 1/(1-mdp.discount_rate)", "self.q_matrix = self.rmax * np.ones((self.n_states, self.n_actions)) / (1-mdp.discount_rate)")),
    TW("backup-commuted", (RM, 'new_q = empirical_reward_mat + gamma * np.einsum("san,n->sa", empirical_transition_mat, v)', 'new_q = np.einsum("san,n->sa", empirical_transition_mat, v) * gamma + empirical_reward_mat')),
]

# ----------------------------------------------------------------------------------- C04
LR = A + "lrtdp.py"
MUTANTS["C04"] = [
    M("revert-F2-raw-heuristic-default", ["BEL-7"],
      (LR, "        self.res.V = defaultdict2(lambda s: 0 if mdp.is_absorbing(s) else heuristic(s))", "        self.res.V = defaultdict2(heuristic)")),
    M("revert-converged-on-early-return", ["BEL-5"],
      (LR, "                self.res.converged = True\n                return\n", "                return\n")),
    M("q-future-unguarded", ["BEL-7"],
      (LR, "            future = 0\n            if not mdp.is_absorbing(ns):\n                future = self.res.V[ns]", "            future = self.res.V[ns]")),
    M("q-guard-on-current-state", ["BEL-7"],
      (LR, "            if not mdp.is_absorbing(ns):\n                future = self.res.V[ns]", "            if not mdp.is_absorbing(s):\n                future = self.res.V[ns]")),
    M("q-no-discount", ["BEL-2"],
      (LR, "q += prob * (mdp.reward(s, a, ns) + mdp.discount_rate*future)", "q += prob * (mdp.reward(s, a, ns) + future)")),
    M("q-reward-unweighted", ["BEL-2"],
      (LR, "q += prob * (mdp.reward(s, a, ns) + mdp.discount_rate*future)", "q += mdp.reward(s, a, ns) + prob * mdp.discount_rate*future")),
    M("q-absorbing-shortcut-dropped", ["BEL-2"],
      (LR, "        if mdp.is_absorbing(s):\n            return 0\n        q = 0", "        q = 0")),
    M("update-min", ["UPD-1"],
      (LR, "self.res.V[s] = max(self.Q(mdp, s, a) for a in mdp.actions(s))", "self.res.V[s] = min(self.Q(mdp, s, a) for a in mdp.actions(s))")),
    M("label-when-flag-false", ["LAB-2"],
      (LR, "        if flag:\n            for ns in closed:\n                self.res.solved[ns] = True\n        else:", "        for ns in closed:\n            self.res.solved[ns] = True\n        if not flag:")),
    M("margin-hardcoded", ["LAB-1"],
      (LR, "if abs(residual) > self.bellman_error_margin:", "if abs(residual) > 1e-2:")),
    M("residual-signed", ["LAB-1"],
      (LR, "if abs(residual) > self.bellman_error_margin:", "if residual > self.bellman_error_margin:")),
    M("trial-absorbing-not-labelled", ["TRIAL-3"],
      (LR, "            if mdp.is_absorbing(s):\n                self.res.solved[s] = True\n", "")),
    M("trial-successor-of-random-action", ["TRIAL-2"],
      (LR, "s = mdp.next_state_dist(s, self.policy(mdp, s)).sample(rng=self.rng)", "s = mdp.next_state_dist(s, self.rng.choice(list(mdp.actions(s)))).sample(rng=self.rng)")),
    M("cache-store-only-unshuffled", ["CACHE-1"],
      (LR, "                action_list = mdp.actions(s)\n            self.res.action_orders[s] = action_list", "                action_list = mdp.actions(s)\n                self.res.action_orders[s] = action_list")),
    M("cache-store-dropped", ["CACHE-1"],
      (LR, "            self.res.action_orders[s] = action_list\n", "")),
    M("shuffle-in-place", ["GRD-1"],
      (LR, "                action_list = list(mdp.actions(s))\n", "                action_list = mdp.actions(s)\n")),
    M("initial-value-unweighted", ["BEL-6"],
      (LR, "res.initial_value = sum([res.V[s0]*p for s0, p in mdp.initial_state_dist().items()])", "res.initial_value = sum([res.V[s0] for s0, p in mdp.initial_state_dist().items()])")),
]
TWINS["C04"] = [
    TW("q-factor-order", (LR, "q += prob * (mdp.reward(s, a, ns) + mdp.discount_rate*future)", "q += (future*mdp.discount_rate + mdp.reward(s, a, ns)) * prob")),
    TW("cache-early-store",
       (LR, "                action_list = list(mdp.actions(s))\n                self.rng.shuffle(action_list)\n", "                action_list = list(mdp.actions(s))\n                self.rng.shuffle(action_list)\n                self.res.action_orders[s] = action_list\n")),
]

# ----------------------------------------------------------------------------------- C03
LAO = A + "laostar.py"
MUTANTS["C03"] = [
    M("penalty-replaced-by-min", ["BEL-4"],
      (LAO, "(q + np.log(am)).argmax(axis=1)[:, None]", "np.where(am > 0, q, q.min(axis=1, keepdims=True)).argmax(axis=1)[:, None]")),
    M("penalty-dropped", ["BEL-4"],
      (LAO, "(q + np.log(am)).argmax(axis=1)[:, None]", "q.argmax(axis=1)[:, None]")),
    M("boundary-no-discount", ["BND-3"],
      (LAO, "rf[si, ai, -1] += prob*(reward + self.mdp.discount_rate*self.states_to_nodes[ns].value)", "rf[si, ai, -1] += prob*(reward + self.states_to_nodes[ns].value)")),
    M("boundary-heuristic-instead-of-value", ["BND-3"],
      (LAO, "rf[si, ai, -1] += prob*(reward + self.mdp.discount_rate*self.states_to_nodes[ns].value)", "rf[si, ai, -1] += prob*(reward + self.mdp.discount_rate*self.heuristic(ns))")),
    M("boundary-branches-swapped", ["BND-3"],
      (LAO, "                        if self.mdp.is_absorbing(ns):\n                            rf[si, ai, -1] += prob*reward", "                        if not self.mdp.is_absorbing(ns):\n                            rf[si, ai, -1] += prob*reward")),
    M("boundary-renormalisation-dropped", ["BND-4"],
      (LAO, "                if tf[si, ai, -1] > 0:\n                    rf[si, ai, -1] /= tf[si, ai, -1]\n", "")),
    M("absorbing-nodes-expanded", ["BND-1"],
      (LAO, "            if self.mdp.is_absorbing(s):\n                tf[si, :, -1] = 1\n                am[si, :] = 1\n                continue\n", "")),
    M("store-transposed", ["TEN-4"],
      (LAO, "                        tf[si, ai, nsi] = prob\n", "                        tf[nsi, ai, si] = prob\n")),
    M("reward-args", ["TEN-4", "ARG"],
      (LAO, "                    reward = self.mdp.reward(s, a, ns)\n", "                    reward = self.mdp.reward(ns, a, s)\n")),
    M("eval-no-discount", ["BEL-2"],
      (LAO, "v = np.linalg.solve(np.eye(tf.shape[0]) - self.mdp.discount_rate * mp, s_rf)", "v = np.linalg.solve(np.eye(tf.shape[0]) - mp, s_rf)")),
    M("lookahead-no-discount", ["BEL-2"],
      (LAO, "q = rf[:, :, :] + self.mdp.discount_rate * v[None, None, :]", "q = rf[:, :, :] + v[None, None, :]")),
    M("optimal-action-from-global-list", ["BEL-4"],
      (LAO, "optimal_action = max(node.action_order, key=lambda a: action_vals[a])", "optimal_action = max(dp_action_order, key=lambda a: action_vals[a])")),
    M("columns-read-back-sorted", ["LAY-1"],
      (LAO, "action_vals = {a: v for a, v in zip(dp_action_order, q[si, :])}", "action_vals = {a: v for a, v in zip(sorted(dp_action_order, key=str), q[si, :])}")),
    M("converged-constant", ["BEL-5"],
      (LAO, "            converged=solution_graph.is_solved(),", "            converged=True,")),
    M("initial-value-unweighted", ["BEL-6"],
      (LAO, "            v += self.states_to_nodes[s].value*p", "            v += self.states_to_nodes[s].value")),
    M("policy-closure-falls-through", ["POL-1"],
      (LAO, "                max_val = max(val, max_val)\n            return DictDistribution.uniform(max_actions)", "                max_val = max(val, max_val)\n            if max_actions:\n                return DictDistribution.uniform(max_actions)")),
    M("einsum-policy-transposed", ["TEN-1"],
      (LAO, 'mp = np.einsum("sa,san->sn", pi, tf) # policy markov chain', 'mp = np.einsum("as,san->sn", pi, tf) # policy markov chain')),
]
TWINS["C03"] = [
    TW("boundary-factor-order",
       (LAO, "rf[si, ai, -1] += prob*(reward + self.mdp.discount_rate*self.states_to_nodes[ns].value)", "rf[si, ai, -1] += (self.states_to_nodes[ns].value*self.mdp.discount_rate + reward)*prob")),
    TW("penalty-commuted", (LAO, "(q + np.log(am)).argmax(axis=1)[:, None]", "(np.log(am) + q).argmax(axis=1)[:, None]")),
]

# ----------------------------------------------------------------------------------- C18
GG = "msdm/domains/gridgame/tabulargridgame.py"
DFT = C + "distributions/discretefactortable.py"
MUTANTS["C18"] = [
    M("swap-check-only-under-skip", ["SWAP-1"],
      (GG, "                # agents can't swap locations\n                if self.same_location(ns[an0], s[an1]) and self.same_location(ns[an1], s[an0]):\n                    logit += -np.inf\n            interactions.append(ns)",
       "            interactions.append(ns)")),
    M("collision-not-excluded", ["PAIR-1"],
      (GG, "                        collisions.append((an0, an1))\n                        logit += -np.inf", "                        collisions.append((an0, an1))")),
    M("clamp-upper-missing", ["CLAMP-1"],
      (GG, "agent['x'] = max(min(agent['x'] + agentaction['x'], self.width-1), 0)", "agent['x'] = max(agent['x'] + agentaction['x'], 0)")),
    M("clamp-axes-crossed", ["CLAMP-1"],
      (GG, "agent['y'] = max(min(agent['y'] + agentaction['y'], self.height-1), 0)", "agent['y'] = max(min(agent['y'] + agentaction['x'], self.height-1), 0)")),
    M("obstacle-constraint-inverted", ["MOVE-1"],
      (GG, "obsConstraint = Pr([{an: s[an]}, {an: agent}], probs=[1, 0])", "obsConstraint = Pr([{an: s[an]}, {an: agent}], probs=[0, 1])")),
    M("fence-weights", ["MOVE-1"],
      (GG, "agentMove = agentMove * self.fence_success_prob | fenceEffect * (1 - self.fence_success_prob)", "agentMove = agentMove * self.fence_success_prob | fenceEffect")),
    M("terminal-test-after-moves", ["TERM-1"],
      (GG, "        if self.is_absorbing(s):\n            return Pr([TERMINALSTATE,])\n\n        #agent-based transitions", "        #agent-based transitions")),
    M("rewards-at-terminal", ["TERM-1"],
      (GG, "        if self.is_terminal(s) or self.is_terminal(ns):\n            return jr\n", "        if self.is_terminal(s) and self.is_terminal(ns):\n            return jr\n")),
    M("double-step-action", ["ACT-1"],
      (GG, "            {'x': 1, 'y': 0},\n", "            {'x': 2, 'y': 0},\n")),
    M("product-multiplies-logits", ["ALG-5"],
      (DFT, "                    logit = self.logit(si) + other.logit(oi)\n", "                    logit = self.logit(si) * other.logit(oi)\n")),
    M("product-keeps-zero-rows", ["ALG-5"],
      (DFT, "                    logit = self.logit(si) + other.logit(oi)\n                    if logit == -np.inf:\n                        continue\n", "                    logit = self.logit(si) + other.logit(oi)\n")),
    M("scale-multiplies-logit", ["ALG-5"],
      (DFT, "mlogits = [logit + np.log(num) for logit in self.logits]", "mlogits = [logit * num for logit in self.logits]")),
    M("and-is-mix", ["ALG-5"],
      (DFT, "    def __and__(self, other: \"DiscreteFactorTable\"):\n        return self.product(other)", "    def __and__(self, other: \"DiscreteFactorTable\"):\n        return self.mix(other)")),
]
TWINS["C18"] = [
    TW("clamp-args-reordered", (GG, "agent['x'] = max(min(agent['x'] + agentaction['x'], self.width-1), 0)", "agent['x'] = max(0, min(self.width-1, agent['x'] + agentaction['x']))")),
    TW("product-logit-commuted", (DFT, "                    logit = self.logit(si) + other.logit(oi)\n", "                    logit = other.logit(oi) + self.logit(si)\n")),
]

# ----------------------------------------------------------------------------------- C11
DD = C + "distributions/distributions.py"
DDI = C + "distributions/dictdistribution.py"
TBL = C + "table/table.py"
MUTANTS["C11"] = [
    M("revert-F8-get-keyerror-only", ["IFC-3"],
      (TBL, "        except (KeyError, IndexError, DomainError):\n            return default", "        except KeyError:\n            return default")),
    M("or-rebinding-removed", ["IFC-5"],
      (DDI, "    __or__ = FiniteDistribution.__or__\n", "")),
    M("or-rebound-to-dict", ["IFC-5"],
      (DDI, "    __or__ = FiniteDistribution.__or__\n", "    __or__ = dict.__or__\n")),
    M("joint-inner-iterator-hoisted", ["GEN-1", "ALG-2"],
      (DD, "        return DictDistribution({\n            (a, b): pa * pb\n            for a, pa in self.items()\n            for b, pb in other.items()\n        })",
       "        other_items = other.items()\n        return DictDistribution({\n            (a, b): pa * pb\n            for a, pa in self.items()\n            for b, pb in other_items\n        })")),
    M("marginalize-overwrites", ["ALG-2"],
      (DD, "            newdist[projection(e)] += p\n", "            newdist[projection(e)] = p\n")),
    M("chain-drops-prior", ["ALG-2"],
      (DD, "                cum_dist[new_e] += p*new_p", "                cum_dist[new_e] += new_p")),
    M("condition-unnormalised", ["ALG-2"],
      (DD, "        dist = {e: p/norm for e, p in dist.items()}\n", "")),
    M("expectation-unweighted", ["ALG-2"],
      (DD, "            tot += real_function(e)*p", "            tot += real_function(e)")),
    M("or-ignores-other", ["ALG-2"],
      (DD, "        for e, p in other.items():\n            newdist[e] += p\n        return DictDistribution(newdist)", "        return DictDistribution(newdist)")),
    M("softmax-unshifted-unnormalised", ["ALG-2"],
      (C + "distributions/softmaxdistribution.py", "dist = {e: math.exp(s - max_score) / Z for e, s in scores.items()}", "dist = {e: math.exp(s - max_score) for e, s in scores.items()}")),
    M("sample-global-generator", ["SMP-1"],
      (DD, "        s = rng.choices(\n            population=support,", "        s = random.choices(\n            population=support,")),
    M("sample-weights-from-dict-values", ["SMP-1"],
      (DD, "            weights=tuple(self.probs),", "            weights=tuple(sorted(self.probs)),")),
    M("uniform-prob-raises", ["IFC-3"],
      (DDI, "        if e in self._support:\n            return 1/len(self.support)\n        return 0", "        if e in self._support:\n            return 1/len(self.support)\n        raise KeyError(e)")),
]
TWINS["C11"] = [
    TW("chain-factor-order", (DD, "                cum_dist[new_e] += p*new_p", "                cum_dist[new_e] += new_p*p")),
    TW("get-handler-order", (TBL, "        except (KeyError, IndexError, DomainError):\n            return default", "        except (DomainError, IndexError, KeyError):\n            return default")),
]

# ----------------------------------------------------------------------------------- C12
TIX = C + "table/tableindex.py"
MTB = C + "mdp/tables.py"
MUTANTS["C12"] = [
    M("revert-F8-get-keyerror-only", ["IFC-3"],
      (TBL, "        except (KeyError, IndexError, DomainError):\n            return default", "        except KeyError:\n            return default")),
    M("statetable-misses-domainerror", ["IFC-3"],
      (MTB, "        except (KeyError, IndexError, DomainError) as e:", "        except (KeyError, IndexError) as e:")),
    M("noop-by-shape", ["NOOP-1"],
      (TBL, "        new_table_index = self.table_index._updated_index(array_index)\n        if new_table_index == self.table_index:\n            return self\n        new_data = self._data[array_index]\n        if isinstance(new_data, np.ndarray):\n            return self.__class__(",
       "        new_table_index = self.table_index._updated_index(array_index)\n        if new_table_index.shape == self.table_index.shape:\n            return self\n        new_data = self._data[array_index]\n        if isinstance(new_data, np.ndarray):\n            return self.__class__(")),
    M("index-eq-by-names", ["NOOP-1"],
      (TIX, "        return self._fields == other._fields", "        return self.field_names == other.field_names")),
    M("domain-lookup-not-first", ["ORD-1"],
      (TIX, "        # We first try to directly index into the outermost field\n        try:\n            idx = self.fields[0].domain.index(selector)\n            return (idx,)\n        except (KeyError, ValueError, TypeError):\n            pass\n        \n        # Then we handle different selector types...\n        \n        # The simplest cases are if its just a slice or ellipsis\n        if isinstance(selector, slice):\n            if selector != self._FIELD_SLICE:\n                raise SliceError(\"Only full field slices are allowed\")\n            return selector",
       "        # The simplest cases are if its just a slice or ellipsis\n        if isinstance(selector, slice):\n            if selector != self._FIELD_SLICE:\n                raise SliceError(\"Only full field slices are allowed\")\n            return selector\n        try:\n            idx = self.fields[0].domain.index(selector)\n            return (idx,)\n        except (KeyError, ValueError, TypeError):\n            pass")),
    M("keys-from-second-field", ["KEY-1"],
      (TBL, "        yield from self.table_index.fields[0].domain", "        yield from self.table_index.fields[-1].domain")),
    M("list-selection-keeps-domain", ["LIST-1"],
      (TIX, "                    domain=domaintuple([self.fields[0].domain[i] for i in array_index])", "                    domain=domaintuple(sorted(self.fields[0].domain[i] for i in array_index))")),
    M("prob-rank-off-by-one", ["ROW-1"],
      (TBL, "            if new_data.ndim <= (-self.probs_start_index): ", "            if new_data.ndim < (-self.probs_start_index): ")),
    M("validation-ignores-duplicates", ["VAL-1"],
      (TBL, "        if not (data_shape == coords_shape == unique_shape):", "        if not (data_shape == coords_shape):")),
    M("action-dist-other-row", ["POL-1"],
      (C + "mdp/tabularpolicy.py", "        return self[s]\n", "        return self[self.state_list[0]]\n")),
]
TWINS["C12"] = [
    TW("noop-eq-flipped", (TBL, "        if new_table_index == self.table_index:\n            return self\n        new_data = self._data[array_index]\n        if isinstance(new_data, np.ndarray):\n            return self.__class__(",
                           "        if self.table_index == new_table_index:\n            return self\n        new_data = self._data[array_index]\n        if isinstance(new_data, np.ndarray):\n            return self.__class__(")),
    TW("statetable-handler-order", (MTB, "        except (KeyError, IndexError, DomainError) as e:", "        except (DomainError, KeyError, IndexError) as e:")),
]

# ----------------------------------------------------------------------------------- C20
GWM = "msdm/domains/gridworld/mdp.py"
WGW = "msdm/domains/gridmdp/windygridworld.py"
TIG = "msdm/domains/tiger.py"
HOH = "msdm/domains/heavenorhell.py"
MUTANTS["C20"] = [
    M("revert-F16-windy-none-default", ["IFC-6"],
      (WGW, "        if feature_rewards is None:\n            feature_rewards = {}\n        self.feature_rewards = feature_rewards", "        self.feature_rewards = feature_rewards")),
    M("gridworld-stay-guard-dropped", ["GW-1", "ALG-3"],
      (GWM, "        elif ns == s:\n            bdist = DeterministicDistribution(s)\n", "")),
    M("gridworld-wall-guard-dropped", ["GW-1"],
      (GWM, "        elif ns in self.walls:\n            bdist = DeterministicDistribution(s)\n", "")),
    M("gridworld-slip-unnormalised", ["ALG-3", "GW-2"],
      (GWM, "                s: 1 - self.success_prob,\n                ns: self.success_prob", "                s: 1 - self.success_prob,\n                ns: 1")),
    M("gridworld-absorbing-feature-not-first", ["GW-3"],
      (GWM, "        if s in self.absorbing_states:\n            return TERMINALDIST\n        assert isinstance(s, frozendict)", "        assert isinstance(s, frozendict)")),
    M("gridworld-reward-of-left-cell", ["GW-4"],
      (GWM, "        f = self._locFeatures.get(ns, \"\")", "        f = self._locFeatures.get(s, \"\")")),
    M("gridworld-terminal-reward", ["GW-4"],
      (GWM, "        if self.is_absorbing(s) or self.is_absorbing(ns):\n            return 0.0", "        if self.is_absorbing(s):\n            return 0.0")),
    M("gridworld-moved-cell-double-step", ["GW-2"],
      (GWM, "        nx, ny = x + ax, y + ay", "        nx, ny = x + 2*ax, y + ay")),
    M("tiger-observation-unnormalised", ["ALG-3"],
      (TIG, "return DictDistribution(left=pleft, right=1-pleft)", "return DictDistribution(left=pleft, right=pleft)")),
    M("windy-wind-weights", ["ALG-3"],
      (WGW, "            (s, r) : 1 - self.wind_probability,\n            (ns, r): self.wind_probability,", "            (s, r) : 1 - self.wind_probability,\n            (ns, r): 1,")),
    M("hoh-initial-same-key", ["ALG-3"],
      (HOH, "            State(x=x, y=y, heaven='h', hell='g'): .5,", "            State(x=x, y=y, heaven='g', hell='h'): .5,")),
    M("tiger-no-actions", ["ACT-1"],
      (TIG, "        return ['left', 'right', 'listen']", "        return []")),
    M("cliff-falls-off-no-dist", ["DIST-1"],
      (C.replace("core/", "domains/") + "cliffwalking.py", "        return DictDistribution.deterministic(ns)", "        return None")),
]
TWINS["C20"] = [
    TW("gridworld-guards-merged",
       (GWM, "        if ns not in self._states:\n            bdist = DeterministicDistribution(s)\n        elif ns in self.walls:\n            bdist = DeterministicDistribution(s)\n        elif ns == s:",
        "        if ns not in self._states or ns in self.walls:\n            bdist = DeterministicDistribution(s)\n        elif ns == s:")),
    TW("gridworld-slip-order", (GWM, "                s: 1 - self.success_prob,\n                ns: self.success_prob", "                ns: self.success_prob,\n                s: 1 - self.success_prob")),
    TW("windy-default-or-form", (WGW, "        if feature_rewards is None:\n            feature_rewards = {}\n        self.feature_rewards = feature_rewards", "        if feature_rewards is None:\n            feature_rewards = dict()\n        self.feature_rewards = feature_rewards")),
]

"""Call resolution (direct / self / protocol / external edges) and reachability."""
from __future__ import annotations

import ast
from dataclasses import dataclass, field
from typing import Dict, List, Optional, Set, Tuple

from .cfg import cfg_of
from .dag import Expander, T, _walk_no_scopes
from .model import Program, FunctionInfo, ClassInfo


@dataclass
class CallSite:
    fi: FunctionInfo
    node: ast.Call
    kind: str                      # direct | self | protocol | external | constructor | unresolved
    targets: List[FunctionInfo] = field(default_factory=list)
    external: Optional[str] = None  # dotted external name, e.g. numpy.random.randint
    method: Optional[str] = None    # attribute name for method-style calls
    receiver: Optional[T] = None
    func_term: Optional[T] = None
    cls: Optional[ClassInfo] = None  # for constructor calls


def ext_name(t: T) -> Optional[str]:
    """modref('numpy').linalg.solve -> 'numpy.linalg.solve'"""
    parts = []
    while t.op == "attr":
        parts.append(t.args[1])
        t = t.args[0]
    if t.op == "modref":
        return ".".join([t.args[0]] + list(reversed(parts)))
    if t.op == "builtin" and not parts:
        return "builtins." + t.args[0]
    return None


class CallGraph:
    def __init__(self, program: Program, expander: Expander):
        self.P = program
        self.X = expander
        self._sites: Dict[int, List[CallSite]] = {}
        self._class_of_cache: Dict = {}

    # ------------------------------------------------------------------ receiver classes
    def classes_of(self, t: T, depth: int = 0) -> Optional[List[ClassInfo]]:
        """statically known classes of the value of a term (None = unknown)."""
        if depth > 6:
            return None
        if t.op == "call":
            f = t.args[0]
            if f.op == "classref" and f.args[0] is not None:
                return [f.args[0]]
            if f.op == "attr" and f.args[0].op == "classref" and f.args[0].args[0] is not None:
                # classmethod constructors: X.uniform(...), X.from_dict(...)
                ci = f.args[0].args[0]
                owner, m = ci.lookup(f.args[1])
                if isinstance(m, FunctionInfo) and m.is_classmethod:
                    r = self.X.returns(m)
                    out = self._ret_classes(r, ci, depth + 1)
                    return out
            if f.op == "funcref" and isinstance(f.args[0], FunctionInfo):
                r = self.X.returns(f.args[0])
                return self._ret_classes(r, None, depth + 1)
            return None
        if t.op == "param":
            fq, name = t.args
            fi = self.P.functions.get(fq)
            if fi is not None and fi.is_method and not fi.is_static and fi.self_name == name:
                if fi.is_classmethod:
                    return None
                return [fi.cls]
            return None
        if t.op == "phi":
            out: List[ClassInfo] = []
            for a in t.args[0]:
                c = self.classes_of(a, depth + 1)
                if c is None:
                    return None
                out += [x for x in c if x not in out]
            return out
        if t.op == "where":
            return self.classes_of(t.args[2], depth + 1)
        return None

    def _ret_classes(self, r: T, cls_param: Optional[ClassInfo], depth: int):
        alts = r.args[0] if r.op == "phi" else (r,)
        out: List[ClassInfo] = []
        for a in alts:
            if a.op == "call" and a.args[0].op == "param" and cls_param is not None:
                c = [cls_param]          # cls(...)
            else:
                c = self.classes_of(a, depth)
            if c is None:
                return None
            out += [x for x in c if x not in out]
        return out or None

    # ------------------------------------------------------------------ call sites
    def sites(self, fi: FunctionInfo) -> List[CallSite]:
        k = id(fi)
        if k in self._sites:
            return self._sites[k]
        out: List[CallSite] = []
        cfg = cfg_of(fi)
        for n in cfg.nodes:
            if n.ast is None:
                continue
            for root in cfg.header_exprs(n):
                for sub in _walk_no_scopes(root):
                    if isinstance(sub, ast.Call):
                        out.append(self.resolve(fi, sub, n.id))
        self._sites[k] = out
        return out

    def resolve(self, fi: FunctionInfo, call: ast.Call, at: Optional[int] = None) -> CallSite:
        try:
            ft = self.X.expr(fi, call.func, at=at)
        except RecursionError:
            ft = T("unknown", "recursion")
        return self.resolve_term(fi, call, ft)

    def _unwrap_decorated(self, ft: T) -> T:
        # lru_cache(maxsize=None)(funcref) / method_cache(funcref) -> funcref
        seen = 0
        while ft.op == "call" and seen < 4:
            seen += 1
            args = ft.args[1]
            if len(args) == 1 and args[0].op in ("funcref", "call"):
                name = ext_name(ft.args[0]) or (ext_name(ft.args[0].args[0]) if ft.args[0].op == "call" else None) or ""
                f0 = ft.args[0]
                is_cache = name.split(".")[-1] in ("lru_cache", "cache", "wraps") or \
                    (f0.op == "funcref" and f0.args[0].name in ("method_cache", "cached_property"))
                if is_cache:
                    ft = args[0]
                    continue
            break
        return ft

    def builtin_type_of(self, t: T, depth: int = 0) -> Optional[str]:
        """'list' | 'dict' | 'set' | 'tuple' | 'str' when the term is definitely a builtin container."""
        if depth > 6:
            return None
        if t.op in ("list", "dict", "set", "tuple"):
            return t.op
        if t.op == "comp":
            return {"list": "list", "set": "set", "dict": "dict", "gen": None}.get(t.args[0])
        if t.op == "const" and isinstance(t.args[0], str):
            return "str"
        if t.op == "call" and t.args[0].op == "builtin" and t.args[0].args[0] in ("list", "dict", "set", "tuple", "frozenset", "sorted"):
            n = t.args[0].args[0]
            return {"frozenset": "set", "sorted": "list"}.get(n, n)
        if t.op == "call":
            e = ext_name(t.args[0])
            if e in ("collections.deque",):
                return "deque"
            if e in ("collections.defaultdict",):
                return "dict"
        if t.op in ("mut", "where"):
            return self.builtin_type_of(t.args[1] if t.op == "mut" else t.args[2], depth + 1)
        if t.op == "phi":
            ks = {self.builtin_type_of(a, depth + 1) for a in t.args[0] if a.op != "prev"}
            return ks.pop() if len(ks) == 1 else None
        return None

    def _expand_alts(self, ft: T, depth: int = 0) -> List[T]:
        """flatten phi alternatives; calls of in-package functions that return functions are inlined."""
        out: List[T] = []
        for a in (ft.args[0] if ft.op == "phi" else (ft,)):
            a = self._unwrap_decorated(a)
            if a.op == "call" and a.args[0].op == "funcref" and isinstance(a.args[0].args[0], FunctionInfo) and depth < 3:
                try:
                    r = self.X.inline(a, a.args[0].args[0])
                except RecursionError:
                    r = None
                if r is not None and any(x.op in ("funcref", "classref") for x in (r.args[0] if r.op == "phi" else (r,))):
                    out += self._expand_alts(r, depth + 1)
                    continue
            out.append(a)
        return out

    def resolve_term(self, fi: FunctionInfo, call: ast.Call, ft: T) -> CallSite:
        cs = CallSite(fi, call, "unresolved", func_term=ft)
        alts = self._expand_alts(ft)
        targets: List[FunctionInfo] = []
        kinds = set()
        for a in alts:
            a = self._unwrap_decorated(a)
            if a.op == "funcref" and isinstance(a.args[0], FunctionInfo):
                targets.append(a.args[0])
                kinds.add("direct")
            elif a.op == "classref" and a.args[0] is not None:
                ci = a.args[0]
                cs.cls = ci
                owner, init = ci.lookup("__init__")
                if isinstance(init, FunctionInfo):
                    targets.append(init)
                kinds.add("constructor")
            elif a.op == "attr":
                base, name = a.args
                cs.method = name
                cs.receiver = base
                e = ext_name(a)
                if e is not None:
                    mod = e.rsplit(".", 1)[0]
                    if mod in self.P.modules:
                        r = self.P.resolve_symbol(mod, name)
                        if isinstance(r, FunctionInfo):
                            targets.append(r)
                            kinds.add("direct")
                            continue
                        if isinstance(r, ClassInfo):
                            cs.cls = r
                            owner, init = r.lookup("__init__")
                            if isinstance(init, FunctionInfo):
                                targets.append(init)
                            kinds.add("constructor")
                            continue
                    cs.external = e
                    kinds.add("external")
                    continue
                if base.op == "classref" and base.args[0] is not None:
                    owner, m = base.args[0].lookup(name)
                    if isinstance(m, FunctionInfo):
                        targets.append(m)
                        kinds.add("direct")
                        continue
                    if m == "builtin":
                        cs.external = f"{owner}.{name}"
                        kinds.add("external")
                        continue
                if base.op == "call" and base.args[0].op == "builtin" and base.args[0].args[0] == "super":
                    c = fi.cls or (fi.parent.cls if fi.parent else None)
                    if c is not None:
                        for k2 in c.mro[1:]:
                            if isinstance(k2, ClassInfo) and name in k2.methods:
                                targets.append(k2.methods[name])
                                break
                        kinds.add("self")
                        continue
                bt = self.builtin_type_of(base)
                if bt is not None:
                    cs.external = f"{bt}.{name}"
                    kinds.add("external")
                    continue
                cls_list = self.classes_of(base)
                if cls_list:
                    found = False
                    for c in cls_list:
                        owner, m = c.lookup(name)
                        if isinstance(m, FunctionInfo):
                            targets.append(m)
                            found = True
                        # overriding subclasses (class-hierarchy analysis) for `self` receivers
                        if base.op == "param":
                            for sc in self.P.subclasses(c):
                                if name in sc.methods and sc.methods[name] not in targets:
                                    targets.append(sc.methods[name])
                                    found = True
                    if found:
                        kinds.add("self" if base.op == "param" else "direct")
                        continue
                    # attribute holding a callable (self._reward(...)) or builtin method
                    kinds.add("unresolved")
                    continue
                ms = self.P.methods_named(name)
                if ms:
                    targets += [m for m in ms if m not in targets]
                    kinds.add("protocol")
                else:
                    kinds.add("unresolved")
            elif a.op == "builtin":
                cs.external = "builtins." + a.args[0]
                kinds.add("external")
            elif a.op == "modref":
                cs.external = a.args[0]
                kinds.add("external")
            else:
                kinds.add("unresolved")
        cs.targets = targets
        for k in ("protocol", "self", "direct", "constructor", "external", "unresolved"):
            if k in kinds:
                cs.kind = k
                break
        if len(kinds) > 1 and "unresolved" in kinds and cs.kind != "unresolved":
            cs.kind = cs.kind  # partially resolved; keep the strongest kind
        return cs

    # ------------------------------------------------------------------ reachability
    def callees(self, fi: FunctionInfo) -> List[FunctionInfo]:
        out: List[FunctionInfo] = []
        for cs in self.sites(fi):
            for t in cs.targets:
                if t not in out:
                    out.append(t)
        # nested functions and lambdas are (potentially) called
        for nf in list(fi.nested.values()) + fi.lambdas:
            if nf not in out:
                out.append(nf)
        # property reads on self: self.x where x is a property / cached_property of the class
        cls = fi.cls or (fi.parent.cls if fi.parent is not None else None)
        if cls is not None:
            for sub in ast.walk(fi.node):
                if isinstance(sub, ast.Attribute):
                    owner, m = cls.lookup(sub.attr)
                    if isinstance(m, FunctionInfo) and m.is_property and m not in out:
                        out.append(m)
        return out

    def reachable(self, roots: List[FunctionInfo]) -> List[FunctionInfo]:
        seen: List[FunctionInfo] = []
        seen_ids: Set[int] = set()
        work = list(roots)
        while work:
            f = work.pop()
            if id(f) in seen_ids:
                continue
            seen_ids.add(id(f))
            seen.append(f)
            for c in self.callees(f):
                if id(c) not in seen_ids:
                    work.append(c)
        return seen

    def stats(self, fns: List[FunctionInfo]) -> Dict[str, int]:
        d: Dict[str, int] = {}
        for f in fns:
            for cs in self.sites(f):
                d[cs.kind] = d.get(cs.kind, 0) + 1
        return d


def register_call_signatures(P) -> int:
    """For every call site whose callee is resolved inside the repository and whose candidate callees agree on the positional parameter
    list, record that list (util.CALL_PARAMS, keyed by the call node).  util.kwarg / util.posarg / util.bound_args and the pattern matcher
    use it to read an argument by parameter, whether it was passed positionally or by keyword, so that no rule depends on the spelling."""
    from .dag import Expander
    from . import util
    X = Expander(P)
    G = CallGraph(P, X)
    util.CALL_PARAMS.clear()
    for fi in list(P.all_functions()):
        for cs in G.sites(fi):
            if cs.kind not in ("direct", "self", "constructor") or not cs.targets:
                continue
            c = cs.node
            if any(isinstance(a, ast.Starred) for a in c.args) or any(k.arg is None for k in c.keywords):
                continue
            sigs = set()
            for t in cs.targets:
                pp = list(t.positional_params)
                if t.cls is not None and pp and pp[0] in ("self", "cls") and "staticmethod" not in t.decorators:
                    pp = pp[1:]
                if t.args.vararg or t.args.posonlyargs:
                    pp = None
                sigs.add(tuple(pp) if pp is not None else None)
            if len(sigs) != 1 or None in sigs:
                continue
            util.CALL_PARAMS[id(c)] = (c, list(next(iter(sigs))))
    return len(util.CALL_PARAMS)

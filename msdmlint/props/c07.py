"""C07 — belief updates and the belief MDP.  Accumulation forms (ALG-2 + call provenance), einsum roles/variance of the
vectorised filter, observation-matrix store provenance and zero-probability discipline, belief-MDP structure."""
from __future__ import annotations

import ast
import copy
from fractions import Fraction
from typing import Dict, List, Optional, Tuple

from .. import alg
from ..bellman import check_einsums
from ..callgraph import CallGraph
from ..cfg import cfg_of
from ..dag import T, walk, show, simplify
from ..model import FunctionInfo, AnalysisError, dotted
from ..pat import Snips, fn_defs
from ..report import Ctx
from ..tensor import Typer
from ..util import ordered_args, zero_test, atomic_facts, norm, fn_body_nodes, walk_local, kwarg
from .common import arg_permutation_rule, names_in, calls_named

EXPLANATION = (
    "Accumulation-form analysis of the dictionary Bayes filter and predictive observation distribution (each accumulates, "
    "keyed by the successor / observation, the product belief x transition x observation likelihood, with the observation "
    "kernel conditioned on the action and the *successor*, and normalises by its own total), einsum axis-role and variance "
    "typing of the vectorised versions, index provenance and zero-probability discipline of the observation matrix, and the "
    "structure of the derived belief MDP and of belief tracking in value-based policies. Floating-point normalisation and the "
    "identity of float-valued belief keys are not decided.")
RULES = ("ACC-1 accumulation is +=, keyed by the enumerated successor/observation, summand = product of the three probabilities; "
         "CALL-1 next_state_dist(s, a) with s from the belief, observation_dist(a, ns) on the successor, prob(o) of the given observation; "
         "NORM-1 normalised by its own total, empty on zero mass; TEN-1/2 einsum roles and variance; IDX-1 integer index parameters "
         "index axes of their kind; TEN-4 observation_matrix store; ZERO-1 zero-probability discipline; BMDP-1..5 belief MDP; TRK-1 belief tracking")


def loops_of(fi: FunctionInfo) -> List[ast.For]:
    return [n for n in fn_body_nodes(fi) if isinstance(n, ast.For)]


def enclosing_loops(fi: FunctionInfo, node: ast.AST) -> List[ast.For]:
    out = [l for l in loops_of(fi) if any(node is x for x in ast.walk(l))]
    out.sort(key=lambda l: l.lineno)
    return out


def items_loop_info(lp: ast.For):
    """(receiver call text, method name, call args, key var, value var) for `for k, v in X.m(args).items()` / `b.items()`."""
    it = lp.iter
    if not (isinstance(it, ast.Call) and isinstance(it.func, ast.Attribute) and it.func.attr == "items" and isinstance(lp.target, ast.Tuple)
            and len(lp.target.elts) == 2 and all(isinstance(e, ast.Name) for e in lp.target.elts)):
        return None
    k, v = [e.id for e in lp.target.elts]
    src = it.func.value
    if isinstance(src, ast.Call) and isinstance(src.func, ast.Attribute):
        return (ast.unparse(src.func.value), src.func.attr, [ast.unparse(a) for a in ordered_args(src)], k, v)
    return (ast.unparse(src), None, [], k, v)


def pair_target(lp: ast.For) -> Optional[Tuple[str, str]]:
    """(key var, weight var) of `for k, w in ...`."""
    t = lp.target
    if isinstance(t, ast.Tuple) and len(t.elts) == 2 and all(isinstance(e, ast.Name) for e in t.elts):
        return t.elts[0].id, t.elts[1].id
    return None


def deref(S: Snips, node: ast.AST) -> ast.AST:
    """the defining expression of a single-assignment temporary (followed through chains of temporaries); the node itself otherwise."""
    seen = set()
    while isinstance(node, ast.Name) and isinstance(node.ctx, ast.Load) and node.id in S.defs and node.id not in seen:
        seen.add(node.id)
        node = S.defs[node.id]
    return node


def reach(S: Snips, node: ast.AST, seen=None):
    """every node the value of `node` is built from, looking through single-assignment temporaries."""
    seen = set() if seen is None else seen
    for x in ast.walk(node):
        yield x
        if isinstance(x, ast.Name) and isinstance(x.ctx, ast.Load) and x.id in S.defs and x.id not in seen:
            seen.add(x.id)
            yield from reach(S, S.defs[x.id], seen)


def consults(S: Snips, node: ast.AST, method: str) -> bool:
    """the value of `node` is computed (possibly through temporaries) from a call of `.method(...)`"""
    return any(isinstance(x, ast.Call) and isinstance(x.func, ast.Attribute) and x.func.attr == method for x in reach(S, node))


ARITH = (ast.BinOp, ast.UnaryOp, ast.Constant)


def summand(S: Snips, expr: ast.AST, atom_of=None):
    """sum-of-products normal form of an accumulated value; arithmetic temporaries are resolved, so the form does not depend on
    which sub-products were named."""
    return alg.normalise(expr, resolve=S.defs.get, atom_of=atom_of)


def abstracted(node: ast.AST, pred, label: str) -> ast.AST:
    """copy of `node` in which every (outermost) sub-expression satisfying `pred` is replaced by the name `label`."""
    class Tr(ast.NodeTransformer):
        def visit(self, n):
            if isinstance(n, ast.expr) and pred(n):
                return ast.Name(id=label, ctx=ast.Load())
            return self.generic_visit(n)
    return Tr().visit(copy.deepcopy(node))


def in_loop_body(fi: FunctionInfo, node: ast.AST) -> bool:
    """`node` is evaluated once per iteration of some loop of fi (the iterable expression of a loop is not)."""
    return any(node is x for l in loops_of(fi) for st in l.body + l.orelse for x in ast.walk(st))


def stmt_of(fi: FunctionInfo, node: ast.AST) -> ast.AST:
    """the innermost statement of fi containing `node` (for locating a finding)."""
    best = None
    for st in fn_body_nodes(fi):
        if isinstance(st, ast.stmt) and any(node is x for x in ast.walk(st)):
            if best is None or any(st is x for x in ast.walk(best)):
                best = st
    return best if best is not None else fi.node


def rule_filter(ctx: Ctx):
    P = ctx.P
    f = P.method("PartiallyObservableMDP", "state_estimator")
    b, a, o = f.positional_params[1:4]
    S = Snips(f)
    acc = [n for n in fn_body_nodes(f) if isinstance(n, (ast.AugAssign, ast.Assign)) and isinstance(getattr(n, "target", None) or n.targets[0], ast.Subscript)
           and any(isinstance(l, ast.For) for l in enclosing_loops(f, n))]
    if not acc:
        ctx.violation("ACC-1", f, f.node, "filter: posterior mass accumulated", "no accumulation into the posterior")
        return
    st = acc[0]
    tgt = st.target if isinstance(st, ast.AugAssign) else st.targets[0]
    ctx.check(isinstance(st, ast.AugAssign) and isinstance(st.op, ast.Add), "ACC-1", f, st, "filter: posterior[<successor>] += ... (sum over predecessor states)", "",
              f"`{norm(st)}` overwrites instead of accumulating: when several belief states share a successor only the last contribution survives")
    lps = enclosing_loops(f, st)
    pairs = [pair_target(l) for l in lps]
    if len(pairs) != 2 or None in pairs:
        ctx.unknown("CALL-1", f, st, "filter loops", "expected `for s, p in b.items(): for ns, q in next_state_dist(s, a).items()`")
        return
    # roles: pred / w_pred = state and mass enumerated from the prior, succ / w_succ = successor and transition probability
    (s_var, sp), (ns_var, nsp) = pairs
    env = {"pred": s_var, "w_pred": sp, "succ": ns_var, "w_succ": nsp}
    ctx.check(S.m(f"{b}.items()", lps[0].iter) is not None, "CALL-1", f, lps[0], "filter: outer loop enumerates the prior belief", "", f"outer loop enumerates `{norm(deref(S, lps[0].iter))}`")
    ctx.check(S.m(f"ANY.next_state_dist(pred, {a}).items()", lps[1].iter, env) is not None, "CALL-1", f, lps[1], f"filter: successors of next_state_dist(<belief state>, {a})", "",
              f"inner loop enumerates `{norm(deref(S, lps[1].iter))}`; it must be next_state_dist(<belief state>, <action>).items()")
    key = deref(S, tgt.slice)
    ctx.check(S.m("succ", key, env) is not None, "ACC-1", f, st, "filter: accumulation is keyed by the successor state", "", f"posterior is keyed by `{norm(key)}`, not by the successor `{ns_var}`")
    # observation likelihood: the factor(s) of the summand that are computed from the observation kernel, however they are named
    liks: List[ast.AST] = []

    def lik_atom(node):
        d = deref(S, node)
        if isinstance(d, ARITH) or isinstance(d, ast.Name) or not consults(S, d, "observation_dist"):
            return None
        liks.append(d)
        return "likelihood"
    p = summand(S, st.value, lik_atom)
    if liks:
        bad = [d for d in liks if S.m(f"ANY.observation_dist({a}, succ).prob({o})", d, env) is None]
        ctx.check(not bad, "CALL-1", f, stmt_of(f, (bad or liks)[0]), f"filter: likelihood = observation_dist({a}, <successor>).prob({o})", "",
                  f"likelihood is `{norm(deref(S, (bad or liks)[0]))}`: the observation kernel must be conditioned on the action and the *successor* state, and evaluated at the observed `{o}`")
    else:
        ctx.violation("CALL-1", f, lps[1], "filter: observation likelihood", "the observation kernel does not enter the accumulated mass")
    want = {tuple(sorted((("likelihood", 1), (sp, 1), (nsp, 1)))): Fraction(1)}
    ctx.check(p == want, "ACC-1", f, st, "filter: summand = b(s) * T(ns|s,a) * O(o|a,ns)", alg.show(p), f"summand normalises to `{alg.show(p)}`")
    # normalisation.  `total` is a role: any expression that is (a name for) the sum of the accumulated masses
    accname = ast.unparse(tgt.value)
    tot_stmts = [n for n, e in S.find("tot = sum(acc.values())", {"acc": accname}) if isinstance(n, ast.Assign)]
    tot_names = {n.targets[0].id for n in tot_stmts}

    def is_total(n):
        return (isinstance(n, ast.Name) and n.id in tot_names) or S.m("sum(acc.values())", n, {"acc": accname}) is not None
    totals = [n for n in S.exprs if is_total(n)]
    ctx.check(bool(totals), "NORM-1", f, tot_stmts[0] if tot_stmts else (stmt_of(f, totals[0]) if totals else f.node), "filter: total = sum of the accumulated masses", "",
              "normaliser is not the sum of the accumulated posterior masses")
    rets = [n for n in fn_body_nodes(f) if isinstance(n, ast.Return)]
    dc = [c for r in rets for c in reach(S, r) if isinstance(c, ast.DictComp)]
    ok = bool(dc) and isinstance(dc[0].value, ast.BinOp) and isinstance(dc[0].value.op, ast.Div) and is_total(dc[0].value.right) \
        and S.m("acc.items()", dc[0].generators[0].iter, {"acc": accname}) is not None
    ctx.check(ok, "NORM-1", f, dc[0] if dc else f.node, "filter: posterior = mass / total over the accumulated successors", "", "posterior is not each accumulated mass divided by the total")
    if dc:
        kv = S.m("(key, mass)", dc[0].generators[0].target)
        ctx.check(kv is not None and S.m("key", dc[0].key, kv) is not None and S.m("mass / ANY", dc[0].value, kv) is not None, "NORM-1", f, dc[0],
                  "filter: key/mass pairing preserved", "", "posterior pairs keys with the wrong masses")
    z = [n for n in fn_body_nodes(f) if isinstance(n, ast.If) and zero_test(abstracted(n.test, is_total, "TOTAL"), "TOTAL") == "zero"]
    ok = bool(z) and any(S.m("return ANY({})", b2) is not None or S.m("return {}", b2) is not None for b2 in z[0].body)
    ctx.check(ok, "NORM-1", f, z[0] if z else f.node, "filter: impossible observation -> empty distribution", "", "zero total mass is not mapped to the empty distribution")
    if z and dc:
        cfg = cfg_of(f)
        ctx.check(cfg.dominates(cfg.node_for(z[0]), cfg.node_for(rets[-1])), "NORM-1", f, z[0], "filter: zero-mass test precedes the division", "", "division by the total can happen before the zero test")


def rule_predictive(ctx: Ctx):
    P = ctx.P
    f = P.method("PartiallyObservableMDP", "predictive_observation_dist")
    b, a = f.positional_params[1:3]
    S = Snips(f)
    acc = [n for n in fn_body_nodes(f) if isinstance(n, (ast.AugAssign, ast.Assign)) and isinstance(getattr(n, "target", None) or n.targets[0], ast.Subscript)
           and enclosing_loops(f, n)]
    if not acc:
        ctx.violation("ACC-1", f, f.node, "predictive: mass accumulated", "no accumulation")
        return
    st = acc[0]
    tgt = st.target if isinstance(st, ast.AugAssign) else st.targets[0]
    ctx.check(isinstance(st, ast.AugAssign) and isinstance(st.op, ast.Add), "ACC-1", f, st, "predictive: mass[<observation>] += ...", "", f"`{norm(st)}` overwrites instead of accumulating")
    lps = enclosing_loops(f, st)
    pairs = [pair_target(l) for l in lps]
    if len(pairs) != 3 or None in pairs:
        ctx.unknown("CALL-1", f, st, "predictive loops", "expected three nested items() loops")
        return
    (s_var, sp), (ns_var, nsp), (o_var, op) = pairs
    env = {"pred": s_var, "succ": ns_var, "obs": o_var}
    ctx.check(S.m(f"{b}.items()", lps[0].iter) is not None, "CALL-1", f, lps[0], "predictive: outer loop enumerates the belief", "", f"enumerates `{norm(deref(S, lps[0].iter))}`")
    ctx.check(S.m(f"ANY.next_state_dist(pred, {a}).items()", lps[1].iter, env) is not None, "CALL-1", f, lps[1], f"predictive: next_state_dist(<belief state>, {a})", "",
              f"enumerates `{norm(deref(S, lps[1].iter))}`")
    ctx.check(S.m(f"ANY.observation_dist({a}, succ).items()", lps[2].iter, env) is not None, "CALL-1", f, lps[2], f"predictive: observation_dist({a}, <successor>)", "",
              f"enumerates `{norm(deref(S, lps[2].iter))}`: the observation kernel must be conditioned on the action and the successor state")
    key = deref(S, tgt.slice)
    ctx.check(S.m("obs", key, env) is not None, "ACC-1", f, st, "predictive: keyed by the observation", "", f"keyed by {norm(key)}")
    p = summand(S, st.value)
    want = {tuple(sorted(((sp, 1), (nsp, 1), (op, 1)))): Fraction(1)}
    ctx.check(p == want, "ACC-1", f, st, "predictive: summand = b(s) * T(ns|s,a) * O(o|a,ns)", alg.show(p), f"summand normalises to `{alg.show(p)}`")
    asserts = [n for n in fn_body_nodes(f) if isinstance(n, ast.Assert)]
    accname = ast.unparse(tgt.value)

    def sums_to_one(x):
        e = S.m("E_close(sum(acc.values()), 1, REST=ANY)", x.test, {"acc": accname})
        return e is not None and ast.unparse(e["close"]).split(".")[-1] == "isclose"
    ctx.check(any(sums_to_one(x) for x in asserts), "NORM-1", f, asserts[0] if asserts else f.node,
              "predictive: total mass asserted to be 1", "", "the sum-to-one assertion is gone")


def rule_vectorised(ctx: Ctx, typer: Typer):
    P, X = ctx.P, ctx.X
    C = P.cls("TabularPOMDP")
    for name, spec in (("state_estimator_vec", "s,sn,n->n"), ("predictive_observation_vec", "s,sn,no->o")):
        f = C.methods.get(name)
        if f is None:
            raise AnalysisError(f"TabularPOMDP.{name} vanished")
        es = [c for c in ast.walk(f.node) if isinstance(c, ast.Call) and ast.unparse(c.func) == "np.einsum"]
        if not es:
            ctx.violation("TEN-1", f, f.node, f"{name}: vectorised contraction", "no einsum")
            continue
        t = X.expr(f, es[0])
        n = check_einsums(ctx, t, typer, f)
        # index parameters
        S = Snips(f)
        for sub in reach(S, es[0]):
            if isinstance(sub, ast.Subscript) and isinstance(sub.value, ast.Attribute) and sub.value.attr in ("transition_matrix", "observation_matrix"):
                from ..tensor import MODEL_ARRAYS
                roles = MODEL_ARRAYS[sub.value.attr]
                items = list(sub.slice.elts) if isinstance(sub.slice, ast.Tuple) else [sub.slice]
                for k, it in enumerate(items):
                    if isinstance(it, ast.Name) and it.id in f.positional_params:
                        # the names of the integer index PARAMETERS are the interface of the vectorised methods
                        want = {"ai": "A", "oi": "O", "si": "S", "nsi": "S2"}.get(it.id)
                        if want is None:
                            continue
                        ctx.check(roles[k] == want, "IDX-1", f, sub, f"{name}: {sub.value.attr} axis {k} ({roles[k]}) indexed by `{it.id}`", "",
                                  f"`{it.id}` (an index into the {want} list) selects along axis {k} of {sub.value.attr}, whose role is {roles[k]}")
        if name == "state_estimator_vec":
            # role: `unnorm` is the variable the contraction is stored in
            ok = False
            hit = [(st, e) for st, e in S.find("V_unnorm = np.einsum(REST)") if getattr(st, "value", st) is es[0]]
            if hit:
                env = {"unnorm": hit[0][1]["unnorm"]}
                div = S.first("return V_unnorm / V_unnorm.sum()", env)[0]
                zt = S.first("if V_unnorm.sum() == 0.0:\n    return V_unnorm", env)[0]
                if div is not None and zt is not None:
                    cfg = cfg_of(f)
                    ok = cfg.dominates(cfg.node_for(zt), cfg.node_for(div))
            ctx.check(ok if ok else None, "NORM-1", f, f.node, "vectorised filter normalises by its own total (zero total returned as is)", "", "idiom not recognised")


LISTS = ("state_list", "action_list", "observation_list")
INDEX_MAPS = {"observation_index": "observation_list", "state_index": "state_list", "action_index": "action_list"}
COMPS = (ast.ListComp, ast.SetComp, ast.DictComp, ast.GeneratorExp)


def self_attr_alias(fi: FunctionInfo, name: str) -> Optional[str]:
    """X when every definition of the local `name` in fi is the plain alias `name = self.X` (identified by its definition, not its spelling)."""
    defs = [n for n in fn_body_nodes(fi) if isinstance(n, ast.Name) and isinstance(n.ctx, ast.Store) and n.id == name]
    vals = [n.value for n in fn_body_nodes(fi) if isinstance(n, ast.Assign) and len(n.targets) == 1 and isinstance(n.targets[0], ast.Name) and n.targets[0].id == name]
    if not vals or len(vals) != len(defs):
        return None
    attrs = {v.attr if isinstance(v, ast.Attribute) and isinstance(v.value, ast.Name) and v.value.id == fi.self_name else None for v in vals}
    return attrs.pop() if len(attrs) == 1 else None


def list_of(fi: FunctionInfo, e: ast.AST) -> Optional[str]:
    """the model list an expression denotes: self.<list> or a local alias of it."""
    if isinstance(e, ast.Attribute) and e.attr in LISTS:
        return e.attr
    if isinstance(e, ast.Name):
        a = self_attr_alias(fi, e.id)
        return a if a in LISTS else None
    return None


def index_map_of(fi: FunctionInfo, e: ast.AST) -> Optional[str]:
    """the list whose element -> position map an expression denotes: self.<x>_index or a local alias of it."""
    if isinstance(e, ast.Attribute):
        return INDEX_MAPS.get(e.attr)
    if isinstance(e, ast.Name):
        return INDEX_MAPS.get(self_attr_alias(fi, e.id) or "")
    return None


def position_source(fi: FunctionInfo, store: ast.AST, e: ast.AST) -> Tuple[Optional[str], Optional[str]]:
    """(list, entity variable) such that the index expression `e` of `store` is the position of the entity in the list."""
    if isinstance(e, ast.Subscript) and isinstance(e.slice, ast.Name):                      # index_map[entity]
        return index_map_of(fi, e.value), e.slice.id
    if not isinstance(e, ast.Name):
        return None, None
    for lp in enclosing_loops(fi, store):                                                   # for idx, entity in enumerate(<list>)
        it = lp.iter
        if isinstance(lp.target, ast.Tuple) and len(lp.target.elts) == 2 and all(isinstance(x, ast.Name) for x in lp.target.elts) and lp.target.elts[0].id == e.id \
                and isinstance(it, ast.Call) and isinstance(it.func, ast.Name) and it.func.id == "enumerate" and len(it.args) == 1:
            return list_of(fi, it.args[0]), lp.target.elts[1].id
    defs = [n for n in fn_body_nodes(fi) if isinstance(n, ast.Assign) and len(n.targets) == 1 and isinstance(n.targets[0], ast.Name) and n.targets[0].id == e.id]
    if len(defs) == 1:
        v = defs[0].value
        if isinstance(v, ast.Call) and isinstance(v.func, ast.Attribute) and v.func.attr == "index" and len(v.args) == 1 and isinstance(v.args[0], ast.Name):
            return list_of(fi, v.func.value), v.args[0].id                                  # idx = <list>.index(entity)
        if isinstance(v, ast.Subscript) and isinstance(v.slice, ast.Name):
            return index_map_of(fi, v.value), v.slice.id                                    # idx = index_map[entity]
    return None, None


def dist_items_loops(fi: FunctionInfo, dist_method: str) -> List[ast.For]:
    """`for key, prob in <...dist_method...>(args).items()` loops of fi."""
    return [n for n in fn_body_nodes(fi) if isinstance(n, ast.For) and pair_target(n) is not None and dist_call(fi, n, dist_method) is not None]


def dist_call(fi: FunctionInfo, lp: ast.For, dist_method: str) -> Optional[ast.Call]:
    """the call <...dist_method...>(args) whose .items() the loop enumerates (the distribution / its items view may be named by temporaries)."""
    defs = fn_defs(fi.node)

    def look(e):
        seen = set()
        while isinstance(e, ast.Name) and e.id in defs and e.id not in seen:
            seen.add(e.id)
            e = defs[e.id]
        return e
    it = look(lp.iter)
    if not (isinstance(it, ast.Call) and isinstance(it.func, ast.Attribute) and it.func.attr == "items" and not it.args):
        return None
    c = look(it.func.value)
    return c if isinstance(c, ast.Call) and dist_method in ast.unparse(c.func) else None


def rule_obs_store(ctx: Ctx, fi: FunctionInfo, what: str, dist_method: str):
    """TEN-4 for the element store that fills the observation matrix: axis <-> list <-> entity <-> value.  Every variable is identified by
    what it is (the allocated array, the enumerate position of a list, the key / probability of the enumerated distribution)."""
    stores = [n for n in fn_body_nodes(fi) if isinstance(n, ast.Assign) and len(n.targets) == 1 and isinstance(n.targets[0], ast.Subscript)
              and isinstance(n.targets[0].value, ast.Name) and isinstance(n.targets[0].slice, ast.Tuple)]
    if not stores:
        ctx.violation("TEN-4", fi, fi.node, f"{what}: element store", "the array is never filled from the functional interface")
        return
    st = stores[0]
    arr = st.targets[0].value.id
    S = Snips(fi)
    allocs = [n for n, _ in S.find("V_arr = np.zeros(ANY, REST=ANY)", {"arr": arr}) + S.find("V_arr = np.ones(ANY, REST=ANY)", {"arr": arr})]
    lists: Optional[List[Optional[str]]] = None
    if allocs and isinstance(allocs[0].value.args[0], ast.Tuple):
        lists = []
        for e in allocs[0].value.args[0].elts:
            ok_len = isinstance(e, ast.Call) and isinstance(e.func, ast.Name) and e.func.id == "len" and len(e.args) == 1
            lists.append(list_of(fi, e.args[0]) if ok_len else None)
    pos = [position_source(fi, st, e) for e in st.targets[0].slice.elts]
    got_lists = [l for l, _ in pos]
    ents = [e for _, e in pos]
    if lists is None or None in lists or None in got_lists:
        ctx.unknown("TEN-4", fi, st, f"{what}: element store of {len(pos)} axes", f"allocation lists {lists}, index lists {got_lists}")
        return
    ctx.check(got_lists == lists, "TEN-4", fi, st, f"{what}: each index is a position in the list its axis was allocated from",
              f"axes {lists}", f"the array is allocated over {lists} but the store indexes it with positions from {got_lists}")
    loops = [lp for lp in dist_items_loops(fi, dist_method) if any(st is x for x in ast.walk(lp))]
    if not loops:
        ctx.violation("TEN-4", fi, st, f"{what}: value comes from {dist_method}(...).items()", f"the store is not inside a loop over {dist_method}(...).items()")
        return
    lp = loops[0]
    call = dist_call(fi, lp, dist_method)
    cargs = [x.id if isinstance(x, ast.Name) else None for x in ordered_args(call)]
    key, val = [e.id for e in lp.target.elts]
    ok = len(ordered_args(call)) == len(call.args) + len(call.keywords) and len(ents) == len(cargs) + 1 and cargs == ents[:len(cargs)] and ents[len(cargs)] == key
    ctx.check(ok, "TEN-4", fi, st, f"{what}: the entities of the axes are, in order, the arguments and the key of the enumerated {dist_method}(...)", "",
              f"the store's axes correspond to entities ({', '.join(map(str, ents))}) but the distribution is {dist_method}({', '.join(map(str, cargs))}) with key `{key}`: "
              f"a value is written at the position of a different entity than the one it was computed from")
    ctx.check(isinstance(st.value, ast.Name) and st.value.id == val, "TEN-4", fi, st, f"{what}: stored value is the probability of that key", "",
              f"stored value `{norm(st.value)}` is not the probability `{val}` paired with the key")
    zeros = [n for n, _ in S.find("V_arr = np.zeros(ANY, REST=ANY)", {"arr": arr})]
    ctx.check(bool(zeros), "TEN-4", fi, zeros[0] if zeros else fi.node, f"{what}: all other cells are zero-initialised", "", "the array is not zero-initialised")
    rets = [n for n in fn_body_nodes(fi) if isinstance(n, ast.Return)]
    ctx.check(bool(rets) and S.m("return V_arr", rets[0], {"arr": arr}) is not None, "TEN-4", fi, rets[0] if rets else fi.node, f"{what}: returns the filled array", "", "a different array is returned")


def rule_obs_zero_prob(ctx: Ctx, fi: FunctionInfo, dist_method: str, list_attr: str, rule="ZERO-1"):
    """every loop over <dist_method>(...).items() that looks its key up in `list_attr` (via .index or via the element -> position map of that
    list) filters zero probabilities first, as the function that builds the list does."""
    cfg = cfg_of(fi)
    for lp in dist_items_loops(fi, dist_method):
        key, prob = [e.id for e in lp.target.elts]
        lookups = []
        for c in ast.walk(lp):
            if isinstance(c, ast.Call) and isinstance(c.func, ast.Attribute) and c.func.attr == "index" and list_of(fi, c.func.value) is not None \
                    and len(c.args) == 1 and isinstance(c.args[0], ast.Name) and c.args[0].id == key:
                lookups.append(c)
            if isinstance(c, ast.Subscript) and isinstance(c.slice, ast.Name) and c.slice.id == key and index_map_of(fi, c.value) is not None:
                lookups.append(c)
        for lk in lookups:
            node = cfg.node_for(lk)
            ok = False
            for g in cfg.nodes:
                if g.kind == "if" and any(g.ast is x for x in ast.walk(lp)):
                    zt = zero_test(g.ast.test, prob)
                    if zt == "zero" and any(isinstance(b, ast.Continue) for b in g.ast.body):
                        ok = ok or (g.id != node and cfg.dominates(g.id, node))          # `if p == 0: continue` before the lookup
                    if zt == "nonzero" and any(lk is x for b in g.ast.body for x in ast.walk(b)):
                        ok = True                                                       # lookup inside `if p > 0:`
            ctx.check(ok, rule, fi, lk, f"{list_attr} lookup of the enumerated key happens only for non-zero probability", "",
                      f"`{norm(lk)}` is evaluated before / without the zero-probability filter: an entry listed with probability 0 need not be in "
                      f"the inferred {list_attr} (it collects positive-probability entries only) and the lookup raises")


def binders(root: ast.AST):
    """(variable, iterable, scope) for every `for v in it` statement / comprehension generator with a plain-name target under root;
    scope is the list of nodes in which the binding is visible."""
    for n in ast.walk(root):
        if isinstance(n, ast.For) and isinstance(n.target, ast.Name):
            yield n.target.id, n.iter, list(n.body)
        elif isinstance(n, COMPS):
            for k, g in enumerate(n.generators):
                if isinstance(g.target, ast.Name):
                    vis = [x for g2 in n.generators[k + 1:] for x in (g2.iter, *g2.ifs)] + list(g.ifs) + ([n.key, n.value] if isinstance(n, ast.DictComp) else [n.elt])
                    yield g.target.id, g.iter, vis


def rule_obs_list(ctx: Ctx, ol: FunctionInfo):
    """observation_list = { o : exists a in action_list, ns in state_list with observation_dist(a, ns)(o) > 0 }."""
    S = Snips(ol)

    def enumerated(var, lst, anchor):
        """`var` ranges over self.<lst> (for statement or comprehension generator) where `anchor` is evaluated"""
        return any(v == var and S.m(f"self.{lst}", it) is not None and any(anchor is x for sc in scope for x in ast.walk(sc)) for v, it, scope in binders(ol.node))
    ok = False
    for comp in [n for n in ast.walk(ol.node) if isinstance(n, COMPS)]:
        for g in comp.generators:
            env = S.m("self.observation_dist(V_act, V_succ).items()", g.iter)
            env = S.m("(V_obs, V_prob)", g.target, env) if env is not None else None
            if env is None or not any(S.m("V_prob > 0", t, env) is not None for t in g.ifs):
                continue
            head = comp.key if isinstance(comp, ast.DictComp) else comp.elt
            if S.m("V_obs", head, env) is None:
                continue
            ok = ok or (enumerated(env["act"], "action_list", g.iter) and enumerated(env["succ"], "state_list", g.iter))
    ctx.check(ok, "ZERO-1", ol, ol.node, "observation_list collects observations of positive probability over (action_list x state_list)", "",
              "observation_list is not the set of positive-probability observations over all (action, successor) pairs")


def rule_obs_matrix(ctx: Ctx):
    P = ctx.P
    C = P.cls("TabularPOMDP")
    f = C.methods["observation_matrix"]
    rule_obs_store(ctx, f, "observation_matrix", "observation_dist")
    rule_obs_zero_prob(ctx, f, "observation_dist", "observation_list")
    rule_obs_list(ctx, C.methods["observation_list"])
    oi = C.methods["observation_index"]
    last = oi.node.body[-1]
    ok = Snips(oi).m("return {V_obs: V_pos for V_pos, V_obs in enumerate(self.observation_list)}", last) is not None
    ctx.check(ok, "TEN-4", oi, oi.node, "observation_index maps each observation to its position in observation_list", "", "observation_index is not element -> position")


def rule_belief_mdp(ctx: Ctx):
    P = ctx.P
    C = P.cls("BeliefMDP")
    f = C.methods["next_state_dist"]
    s, a = f.positional_params[1:3]
    S = Snips(f)
    top = lambda n: n is not None and not in_loop_body(f, n)            # noqa: E731  (evaluated once, outside every loop body)
    # roles: `prior` is the variable handed to predictive_observation_dist as the belief, `weights` the variable that call is stored in
    od, env = S.first(f"V_weights = self.pomdp.predictive_observation_dist(V_prior, {a})")
    env = env or {}
    bdef, benv = S.first(f"V_prior = DictDistribution(dict(zip(*{s})))", {k: v for k, v in env.items() if k == "prior"})
    env = {**(benv or {}), **env}
    ctx.check(top(bdef), "BMDP-1", f, stmt_of(f, bdef) if bdef is not None else f.node, "belief dictionary pairs the belief's states with its probabilities", "", "belief is not rebuilt from the (states, probs) pair")
    ctx.check(top(od), "BMDP-1", f, stmt_of(f, od) if od is not None else f.node, f"observation weights = predictive_observation_dist(<belief>, {a})", "", "observation weights are not the predictive distribution of this belief and action")
    lps = [l for l in loops_of(f)]
    if lps:
        pair = pair_target(lps[0])
        if pair:
            o_var, op = pair
            ctx.check(od is not None and S.m("V_weights.items()", lps[0].iter, {k: v for k, v in env.items() if k == "weights"}) is not None, "BMDP-2", f, lps[0],
                      "successor beliefs are enumerated over the (observation, weight) pairs of the predictive distribution", "",
                      f"the loop enumerates `{norm(deref(S, lps[0].iter))}`, not the predictive observation distribution of this belief and action")
            penv = {**{k: v for k, v in env.items() if k == "prior"}, "obs": o_var}
            est = S.find(f"V_post = self.pomdp.state_estimator(V_prior, {a}, V_obs)", penv, within=lps[0])
            anyest = [n for n in ast.walk(lps[0]) if isinstance(n, ast.Call) and isinstance(n.func, ast.Attribute) and n.func.attr == "state_estimator"]
            ctx.check(bool(est), "BMDP-2", f, stmt_of(f, est[0][0]) if est else (stmt_of(f, anyest[0]) if anyest else lps[0]), f"successor belief = state_estimator(<belief>, {a}, <enumerated observation>)", "",
                      "the successor belief is not the posterior for the same belief, action and enumerated observation")
            acc = [n for n in ast.walk(lps[0]) if isinstance(n, (ast.AugAssign, ast.Assign)) and isinstance(getattr(n, "target", None) or n.targets[0], ast.Subscript)]
            if acc:
                st = acc[-1]
                ctx.check(isinstance(st, ast.AugAssign) and isinstance(st.op, ast.Add), "BMDP-2", f, st, "weights of equal successor beliefs are added", "",
                          "two observations leading to the same belief overwrite each other's probability")
                w = deref(S, st.value)
                ctx.check(isinstance(w, ast.Name) and w.id == op, "BMDP-2", f, st, "weight is the predictive probability of the observation that produced the belief", "", f"weight is `{norm(w)}`")
            lay = S.find("V_laid = [V_post.get(V_e, 0.0) for V_e in self.pomdp.state_list]", {"post": est[0][1]["post"]} if est else {}, within=lps[0])
            ctx.check(bool(lay), "BMDP-2", f, stmt_of(f, lay[0][0]) if lay else lps[0], "successor belief is laid out over pomdp.state_list (0 for missing states)", "", "successor belief is not laid out over the POMDP's state list")
            bel = [c for c in ast.walk(lps[0]) if isinstance(c, ast.Call) and ast.unparse(c.func) == "Belief"]
            ok = bool(bel) and S.m("tuple(self.pomdp.state_list)", kwarg(bel[0], "states") or (bel[0].args[0] if bel[0].args else None)) is not None
            ctx.check(ok, "BMDP-2", f, bel[0] if bel else lps[0], "belief states are the POMDP's state list", "", "belief states are not pomdp.state_list")
    # reward
    r = C.methods["reward"]
    R = Snips(r)
    accs = [n for n in fn_body_nodes(r) if isinstance(n, ast.AugAssign)]
    ok = len(accs) == 2
    if ok:
        inner, outer = (accs[0], accs[1]) if len(enclosing_loops(r, accs[0])) == 2 else (accs[1], accs[0])
        lps = enclosing_loops(r, inner)
        i0, i1 = (pair_target(lps[0]), pair_target(lps[1])) if len(lps) == 2 else (None, None)
        if i0 and i1 and R.m("ANY.items()", lps[0].iter) is not None:
            ra = r.positional_params[2]
            renv = {"pred": i0[0], "succ": i1[0]}
            p_in = summand(R, inner.value, lambda n: "R(s,a,ns)" if R.m(f"self.pomdp.reward(pred, {ra}, succ)", n, renv) is not None else None)
            want_in = {tuple(sorted((("R(s,a,ns)", 1), (i1[1], 1)))): Fraction(1)}
            ctx.check(p_in == want_in and R.m(f"ANY.next_state_dist(pred, {ra}).items()", lps[1].iter, renv) is not None, "BMDP-3", r, inner,
                      "belief reward: inner sum = sum_ns T(ns|s,a) * R(s,a,ns)", alg.show(p_in), f"inner summand is `{alg.show(p_in)}` over `{norm(deref(R, lps[1].iter))}`")
            p_out = summand(R, outer.value)
            want_out = {tuple(sorted(((ast.unparse(inner.target), 1), (i0[1], 1)))): Fraction(1)}
            ctx.check(p_out == want_out, "BMDP-3", r, outer, "belief reward: outer sum weights by b(s)", alg.show(p_out), f"outer summand is `{alg.show(p_out)}`")
            reset = R.find("V_part = 0", {"part": ast.unparse(inner.target)}, within=lps[0])
            ctx.check(bool(reset), "BMDP-3", r, lps[0], "per-state reward is reset for each belief state", "", "per-state expected reward is not reset between belief states")
        else:
            ok = False
    if not ok:
        ctx.unknown("BMDP-3", r, r.node, "belief reward accumulation", "idiom not recognised")
    # absorption
    ab = C.methods["is_absorbing"]
    A = Snips(ab)
    ifs = [n for n in ast.walk(ab.node) if isinstance(n, ast.If)]
    zl = [l for l in ast.walk(ab.node) if isinstance(l, ast.For) and pair_target(l) is not None]
    stv, prv = pair_target(zl[0]) if zl else (None, None)
    # the test, with "the enumerated state is absorbing in the POMDP" (named or in place) read as one atom
    test = abstracted(ifs[0].test, lambda n: A.m("self.pomdp.is_absorbing(V_st)", n, {"st": stv}) is not None, "ABSORBING") if ifs and zl else None
    facts = atomic_facts([(test, "T")]) if test is not None else set()
    ok = test is not None and isinstance(test, ast.BoolOp) and isinstance(test.op, ast.And) \
        and any(zero_test(v_, prv) == "nonzero" for v_ in test.values) \
        and ("ABSORBING", False) in facts and any(A.m("return False", b2) is not None for b2 in ifs[0].body)
    ctx.check(ok, "BMDP-4", ab, ifs[0] if ifs else ab.node, "belief is non-absorbing iff some positive-mass state is non-absorbing", "", "absorption test is not `exists state with prob > 0 and not absorbing -> False`")
    rets = [n for n in ab.node.body if isinstance(n, ast.Return)]
    ctx.check(bool(rets) and A.m("return True", rets[-1]) is not None, "BMDP-4", ab, ab.node, "otherwise absorbing", "", "default verdict is not True")
    fl = [n for n in ast.walk(ab.node) if isinstance(n, ast.For)]
    ctx.check(bool(fl) and A.m(f"zip(*{ab.positional_params[1]})", fl[0].iter) is not None, "BMDP-4", ab, fl[0] if fl else ab.node, "iterates (state, prob) pairs of the belief", "", "does not iterate the belief's (state, prob) pairs")
    # initial belief, actions, discount
    ini = C.methods["initial_state_dist"]
    I = Snips(ini)
    ok = I.has("tuple(self.pomdp.state_list)") and I.has("tuple(self.pomdp.initial_state_vec)")
    ctx.check(ok, "BMDP-5", ini, ini.node, "initial belief = (state_list, initial_state_vec)", "", "initial belief is not the POMDP's initial distribution over its state list")
    act = C.methods["actions"]
    ctx.check(Snips(act).has("self.pomdp.action_list"), "BMDP-5", act, act.node, "belief-MDP actions = pomdp.action_list", "", "actions are not the POMDP's")
    init = C.methods["__init__"]
    pm = init.positional_params[1] if len(init.positional_params) > 1 else "pomdp"
    ctx.check(Snips(init).has(f"self.discount_rate = {pm}.discount_rate"), "BMDP-5", init, init.node, "belief MDP keeps the POMDP's discount rate", "", "discount rate not carried over")


def rule_tracking(ctx: Ctx):
    P = ctx.P
    f = P.method("ValueBasedTabularPOMDPPolicy", "next_agentstate")
    ag, a, o = f.positional_params[1:4]
    S = Snips(f)
    calls = calls_named(f, "state_estimator")
    ok = bool(calls) and S.m(f"self.pomdp.state_estimator(ANY, {a}, {o})", calls[0]) is not None
    ctx.check(ok, "TRK-1", f, calls[0] if calls else f.node, f"belief tracker = pomdp.state_estimator(<belief>, {a}, {o})", "", "the tracker does not apply the POMDP's filter with its own (action, observation)")
    # roles: `prior` = the agent state rebuilt as a distribution, `post` = what the filter returns, `order` = tuple(pomdp.state_list)
    pri, penv = S.first(f"V_prior = DictDistribution(zip(*{ag}))")
    arg0 = calls[0].args[0] if calls and calls[0].args else None
    used = S.m(f"DictDistribution(zip(*{ag}))", arg0) is not None or (pri is not None and S.m("V_prior", arg0, penv) is not None)
    ctx.check(used, "TRK-1", f, stmt_of(f, pri) if pri is not None else f.node, "prior belief rebuilt from the agent state", "", "prior belief is not the agent state")
    post = [e["post"] for st, e in S.find("V_post = self.pomdp.state_estimator(REST)") if calls and getattr(st, "value", st) is calls[0]]
    env = {"post": post[0]} if post else {}
    sol = S.solve(["V_order = tuple(self.pomdp.state_list)", "[V_post.prob(V_ns) for V_ns in V_order]"], env) or \
        S.solve(["V_order = tuple(self.pomdp.state_list)", "(V_post.prob(V_ns) for V_ns in V_order)"], env)
    ctx.check(sol is not None, "TRK-1", f, f.node, "posterior laid out over pomdp.state_list", "", "posterior is not laid out over the state list in order")
    ad = P.method("ValueBasedTabularPOMDPPolicy", "action_dist")
    agd = ad.positional_params[1]
    SA = Snips(ad)
    sol = SA.solve([f"V_av = {{V_a1: self.action_value({agd}, V_a1) for V_a1 in self.pomdp.action_list}}",
                    "V_maxv = max(V_av.values())",
                    "return DictDistribution.uniform([V_a2 for V_a2, V_v in V_av.items() if V_v == V_maxv])"])
    ctx.check(sol is not None, "TRK-1", ad, ad.node, "action distribution uniform over exact maximisers of the policy's own action_value", "", "greedy action distribution changed")


def run(ctx: Ctx):
    P = ctx.P
    G = CallGraph(P, ctx.X)
    typer = Typer(param_roles={"b": ("S",)}, ms_params=("b",))
    rule_filter(ctx)
    rule_predictive(ctx)
    rule_vectorised(ctx, typer)
    rule_obs_matrix(ctx)
    rule_belief_mdp(ctx)
    rule_tracking(ctx)
    mods = ("msdm.core.pomdp.pomdp", "msdm.core.pomdp.tabularpomdp", "msdm.core.pomdp.beliefmdp", "msdm.core.pomdp.policy", "msdm.core.pomdp.alphavectorpolicy")
    arg_permutation_rule(ctx, G, [f for f in P.all_functions() if f.module.name in mods], "ARG")
    for r, k in (("ACC-1", 6), ("CALL-1", 6), ("NORM-1", 6), ("TEN-1", 2), ("TEN-2", 2), ("IDX-1", 5), ("TEN-4", 6), ("ZERO-1", 2),
                 ("BMDP-1", 2), ("BMDP-2", 6), ("BMDP-3", 3), ("BMDP-4", 3), ("BMDP-5", 3), ("TRK-1", 4), ("ARG", 8)):
        ctx.require(r, k)
    ctx.assume("floating-point normalisation within tolerance; beliefs with equal float tuples are identified as keys")

"""C07 — belief updates and the belief MDP.  Accumulation forms (ALG-2 + call provenance), einsum roles/variance of the
vectorised filter, observation-matrix store provenance and zero-probability discipline, belief-MDP structure."""
from __future__ import annotations

import ast
from fractions import Fraction
from typing import Dict, List, Optional, Tuple

from .. import alg
from ..bellman import check_einsums
from ..callgraph import CallGraph
from ..cfg import cfg_of
from ..dag import T, walk, show, simplify
from ..model import FunctionInfo, AnalysisError, dotted
from ..report import Ctx
from ..tensor import Typer
from ..util import norm, fn_body_nodes, walk_local, kwarg
from .common import arg_permutation_rule, names_in, calls_named
from .c06 import rule_store, rule_zero_prob

EXPLANATION = (
    "Accumulation-form analysis of the dictionary Bayes filter and predictive observation distribution (each accumulates, "
    "keyed by the successor / observation, the product belief x transition x observation likelihood, with the observation "
    "kernel conditioned on the action and the *successor*, and normalises by its own total), einsum axis-role and variance "
    "typing of the vectorised versions, index provenance and zero-probability discipline of the observation matrix, and the "
    "structure of the derived belief MDP and of belief tracking in value-based policies. Floating-point normalisation and the "
    "identity of float-valued belief keys are not decided.")
RULES = ("ACC-1 accumulation is +=, keyed by the enumerated successor/observation, summand = product of the three probabilities; "
         "CALL-1 next_state_dist(s, a) with s from the belief, observation_dist(a, ns) on the successor, prob(o) of the given observation; "
         "NORM-1 normalised by its own total, empty on zero mass; TEN-1/2 einsum roles and variance; IDX-1 integer index parameters "
         "index axes of their kind; TEN-4 observation_matrix store; ZERO-1 zero-probability discipline; BMDP-1..5 belief MDP; TRK-1 belief tracking")


def loops_of(fi: FunctionInfo) -> List[ast.For]:
    return [n for n in fn_body_nodes(fi) if isinstance(n, ast.For)]


def enclosing_loops(fi: FunctionInfo, node: ast.AST) -> List[ast.For]:
    out = [l for l in loops_of(fi) if any(node is x for x in ast.walk(l))]
    out.sort(key=lambda l: l.lineno)
    return out


def items_loop_info(lp: ast.For):
    """(receiver call text, method name, call args, key var, value var) for `for k, v in X.m(args).items()` / `b.items()`."""
    it = lp.iter
    if not (isinstance(it, ast.Call) and isinstance(it.func, ast.Attribute) and it.func.attr == "items" and isinstance(lp.target, ast.Tuple)
            and len(lp.target.elts) == 2 and all(isinstance(e, ast.Name) for e in lp.target.elts)):
        return None
    k, v = [e.id for e in lp.target.elts]
    src = it.func.value
    if isinstance(src, ast.Call) and isinstance(src.func, ast.Attribute):
        return (ast.unparse(src.func.value), src.func.attr, [ast.unparse(a) for a in src.args], k, v)
    return (ast.unparse(src), None, [], k, v)


def rule_filter(ctx: Ctx):
    P = ctx.P
    f = P.method("PartiallyObservableMDP", "state_estimator")
    b, a, o = f.positional_params[1:4]
    acc = [n for n in fn_body_nodes(f) if isinstance(n, (ast.AugAssign, ast.Assign)) and isinstance(getattr(n, "target", None) or n.targets[0], ast.Subscript)
           and any(isinstance(l, ast.For) for l in enclosing_loops(f, n))]
    if not acc:
        ctx.violation("ACC-1", f, f.node, "filter: posterior mass accumulated", "no accumulation into the posterior")
        return
    st = acc[0]
    tgt = st.target if isinstance(st, ast.AugAssign) else st.targets[0]
    ctx.check(isinstance(st, ast.AugAssign) and isinstance(st.op, ast.Add), "ACC-1", f, st, "filter: posterior[ns] += ... (sum over predecessor states)", "",
              f"`{norm(st)}` overwrites instead of accumulating: when several belief states share a successor only the last contribution survives")
    lps = enclosing_loops(f, st)
    infos = [items_loop_info(l) for l in lps]
    if len(infos) != 2 or None in infos:
        ctx.unknown("CALL-1", f, st, "filter loops", "expected `for s, p in b.items(): for ns, q in next_state_dist(s, a).items()`")
        return
    (src0, m0, a0, s_var, sp), (src1, m1, a1, ns_var, nsp) = infos
    ctx.check(src0 == b and m0 is None, "CALL-1", f, lps[0], "filter: outer loop enumerates the prior belief", "", f"outer loop enumerates `{src0}`")
    ctx.check(m1 == "next_state_dist" and a1 == [s_var, a], "CALL-1", f, lps[1], f"filter: successors of next_state_dist({s_var}, {a})", "",
              f"inner loop enumerates {m1}({', '.join(a1)}); it must be next_state_dist(<belief state>, <action>)")
    ctx.check(ast.unparse(tgt.slice) == ns_var, "ACC-1", f, st, "filter: accumulation is keyed by the successor state", "", f"posterior is keyed by `{ast.unparse(tgt.slice)}`, not by the successor `{ns_var}`")
    # observation likelihood
    od = [n for n in ast.walk(lps[1]) if isinstance(n, ast.Assign) and isinstance(n.value, ast.Call) and "observation_dist" in ast.unparse(n.value)]
    ovar = None
    if od:
        c = od[0].value
        ovar = od[0].targets[0].id if isinstance(od[0].targets[0], ast.Name) else None
        inner = c.func.value if isinstance(c.func, ast.Attribute) and c.func.attr == "prob" else None
        ok = inner is not None and isinstance(inner, ast.Call) and [ast.unparse(x) for x in inner.args] == [a, ns_var] and [ast.unparse(x) for x in c.args] == [o]
        ctx.check(ok, "CALL-1", f, od[0], f"filter: likelihood = observation_dist({a}, {ns_var}).prob({o})", "",
                  f"likelihood is `{norm(c)}`: the observation kernel must be conditioned on the action and the *successor* state, and evaluated at the observed `{o}`")
    else:
        ctx.violation("CALL-1", f, lps[1], "filter: observation likelihood", "the observation kernel is not consulted")
    p = alg.normalise(st.value)
    want = {tuple(sorted(((ovar or "?", 1), (sp, 1), (nsp, 1)))): Fraction(1)}
    ctx.check(p == want, "ACC-1", f, st, "filter: summand = b(s) * T(ns|s,a) * O(o|a,ns)", alg.show(p), f"summand normalises to `{alg.show(p)}`")
    # normalisation
    tot = [n for n in fn_body_nodes(f) if isinstance(n, ast.Assign) and isinstance(n.value, ast.Call) and ast.unparse(n.value.func) == "sum"]
    accname = ast.unparse(tgt.value)
    ok = bool(tot) and ast.unparse(tot[0].value.args[0]) == f"{accname}.values()"
    ctx.check(ok, "NORM-1", f, tot[0] if tot else f.node, "filter: total = sum of the accumulated masses", "", "normaliser is not the sum of the accumulated posterior masses")
    tv = tot[0].targets[0].id if tot else None
    rets = [n for n in fn_body_nodes(f) if isinstance(n, ast.Return)]
    dc = [c for r in rets for c in ast.walk(r) if isinstance(c, ast.DictComp)]
    ok = bool(dc) and isinstance(dc[0].value, ast.BinOp) and isinstance(dc[0].value.op, ast.Div) and ast.unparse(dc[0].value.right) == tv \
        and ast.unparse(dc[0].generators[0].iter) == f"{accname}.items()"
    ctx.check(ok, "NORM-1", f, dc[0] if dc else f.node, "filter: posterior = mass / total over the accumulated successors", "", "posterior is not each accumulated mass divided by the total")
    if dc:
        tn = [e.id for e in dc[0].generators[0].target.elts]
        ctx.check(ast.unparse(dc[0].key) == tn[0] and isinstance(dc[0].value, ast.BinOp) and ast.unparse(dc[0].value.left) == tn[1], "NORM-1", f, dc[0], "filter: key/mass pairing preserved", "", "posterior pairs keys with the wrong masses")
    z = [n for n in fn_body_nodes(f) if isinstance(n, ast.If) and isinstance(n.test, ast.Compare) and ast.unparse(n.test.left) == tv and isinstance(n.test.ops[0], ast.Eq)]
    ok = bool(z) and any(isinstance(b2, ast.Return) and "{}" in ast.unparse(b2) for b2 in z[0].body)
    ctx.check(ok, "NORM-1", f, z[0] if z else f.node, "filter: impossible observation -> empty distribution", "", "zero total mass is not mapped to the empty distribution")
    if z and dc:
        cfg = cfg_of(f)
        ctx.check(cfg.dominates(cfg.node_for(z[0]), cfg.node_for(rets[-1])), "NORM-1", f, z[0], "filter: zero-mass test precedes the division", "", "division by the total can happen before the zero test")


def rule_predictive(ctx: Ctx):
    P = ctx.P
    f = P.method("PartiallyObservableMDP", "predictive_observation_dist")
    b, a = f.positional_params[1:3]
    acc = [n for n in fn_body_nodes(f) if isinstance(n, (ast.AugAssign, ast.Assign)) and isinstance(getattr(n, "target", None) or n.targets[0], ast.Subscript)
           and enclosing_loops(f, n)]
    if not acc:
        ctx.violation("ACC-1", f, f.node, "predictive: mass accumulated", "no accumulation")
        return
    st = acc[0]
    tgt = st.target if isinstance(st, ast.AugAssign) else st.targets[0]
    ctx.check(isinstance(st, ast.AugAssign) and isinstance(st.op, ast.Add), "ACC-1", f, st, "predictive: o_dist[o] += ...", "", f"`{norm(st)}` overwrites instead of accumulating")
    lps = enclosing_loops(f, st)
    infos = [items_loop_info(l) for l in lps]
    if len(infos) != 3 or None in infos:
        ctx.unknown("CALL-1", f, st, "predictive loops", "expected three nested items() loops")
        return
    (src0, m0, a0, s_var, sp), (src1, m1, a1, ns_var, nsp), (src2, m2, a2, o_var, op) = infos
    ctx.check(src0 == b, "CALL-1", f, lps[0], "predictive: outer loop enumerates the belief", "", f"enumerates {src0}")
    ctx.check(m1 == "next_state_dist" and a1 == [s_var, a], "CALL-1", f, lps[1], f"predictive: next_state_dist({s_var}, {a})", "", f"enumerates {m1}({', '.join(a1)})")
    ctx.check(m2 == "observation_dist" and a2 == [a, ns_var], "CALL-1", f, lps[2], f"predictive: observation_dist({a}, {ns_var})", "",
              f"enumerates {m2}({', '.join(a2)}): the observation kernel must be conditioned on the action and the successor state")
    ctx.check(ast.unparse(tgt.slice) == o_var, "ACC-1", f, st, "predictive: keyed by the observation", "", f"keyed by {ast.unparse(tgt.slice)}")
    p = alg.normalise(st.value)
    want = {tuple(sorted(((sp, 1), (nsp, 1), (op, 1)))): Fraction(1)}
    ctx.check(p == want, "ACC-1", f, st, "predictive: summand = b(s) * T(ns|s,a) * O(o|a,ns)", alg.show(p), f"summand normalises to `{alg.show(p)}`")
    asserts = [n for n in fn_body_nodes(f) if isinstance(n, ast.Assert)]
    ctx.check(any("isclose" in ast.unparse(x.test) and ", 1)" in ast.unparse(x.test) for x in asserts), "NORM-1", f, asserts[0] if asserts else f.node,
              "predictive: total mass asserted to be 1", "", "the sum-to-one assertion is gone")


def rule_vectorised(ctx: Ctx, typer: Typer):
    P, X = ctx.P, ctx.X
    C = P.cls("TabularPOMDP")
    for name, spec in (("state_estimator_vec", "s,sn,n->n"), ("predictive_observation_vec", "s,sn,no->o")):
        f = C.methods.get(name)
        if f is None:
            raise AnalysisError(f"TabularPOMDP.{name} vanished")
        es = [c for c in ast.walk(f.node) if isinstance(c, ast.Call) and ast.unparse(c.func) == "np.einsum"]
        if not es:
            ctx.violation("TEN-1", f, f.node, f"{name}: vectorised contraction", "no einsum")
            continue
        t = X.expr(f, es[0])
        n = check_einsums(ctx, t, typer, f)
        # index parameters
        for sub in ast.walk(es[0]):
            if isinstance(sub, ast.Subscript) and isinstance(sub.value, ast.Attribute) and sub.value.attr in ("transition_matrix", "observation_matrix"):
                from ..tensor import MODEL_ARRAYS
                roles = MODEL_ARRAYS[sub.value.attr]
                items = list(sub.slice.elts) if isinstance(sub.slice, ast.Tuple) else [sub.slice]
                for k, it in enumerate(items):
                    if isinstance(it, ast.Name):
                        want = {"ai": "A", "oi": "O", "si": "S", "nsi": "S2"}.get(it.id)
                        if want is None:
                            continue
                        ctx.check(roles[k] == want, "IDX-1", f, sub, f"{name}: {sub.value.attr} axis {k} ({roles[k]}) indexed by `{it.id}`", "",
                                  f"`{it.id}` (an index into the {want} list) selects along axis {k} of {sub.value.attr}, whose role is {roles[k]}")
        if name == "state_estimator_vec":
            src = ast.unparse(f.node)
            ok = "dist / dist.sum()" in src and "dist.sum() == 0.0" in src
            ctx.check(ok if ok else None, "NORM-1", f, f.node, "vectorised filter normalises by its own total (zero total returned as is)", "", "idiom not recognised")


def rule_obs_matrix(ctx: Ctx):
    P = ctx.P
    C = P.cls("TabularPOMDP")
    f = C.methods["observation_matrix"]
    rule_store(ctx, f, "observation_matrix", "observation_dist", "prob", ("a", "ns", "o"))
    rule_zero_prob(ctx, [f], "observation", ("observation_dist",))
    ol = C.methods["observation_list"]
    src = ast.unparse(ol.node)
    ok = "self.observation_dist(a, ns).items() if p > 0" in src and "for a in self.action_list" in src and "for ns in self.state_list" in src
    ctx.check(ok, "ZERO-1", ol, ol.node, "observation_list collects observations of positive probability over (action_list x state_list)", "",
              "observation_list is not the set of positive-probability observations over all (action, successor) pairs")
    oi = C.methods["observation_index"]
    ok = ast.unparse(oi.node.body[-1].value).replace(" ", "") == "{o:ifori,oinenumerate(self.observation_list)}"
    ctx.check(ok, "TEN-4", oi, oi.node, "observation_index maps each observation to its position in observation_list", "", "observation_index is not element -> position")


def rule_belief_mdp(ctx: Ctx):
    P = ctx.P
    C = P.cls("BeliefMDP")
    f = C.methods["next_state_dist"]
    s, a = f.positional_params[1:3]
    src = {ast.unparse(n.targets[0]): n for n in fn_body_nodes(f) if isinstance(n, ast.Assign) and len(n.targets) == 1 and not enclosing_loops(f, n)}
    bdef = src.get("b")
    ok = bdef is not None and ast.unparse(bdef.value).replace(" ", "") == f"DictDistribution(dict(zip(*{s})))"
    ctx.check(ok, "BMDP-1", f, bdef if bdef is not None else f.node, "belief dictionary pairs the belief's states with its probabilities", "", "belief is not rebuilt from the (states, probs) pair")
    od = src.get("o_dist")
    ok = od is not None and ast.unparse(od.value) == f"self.pomdp.predictive_observation_dist(b, {a})"
    ctx.check(ok, "BMDP-1", f, od if od is not None else f.node, f"observation weights = predictive_observation_dist(b, {a})", "", "observation weights are not the predictive distribution of this belief and action")
    lps = [l for l in loops_of(f)]
    if lps:
        info = items_loop_info(lps[0])
        if info:
            _, _, _, o_var, op = info
            est = [n for n in ast.walk(lps[0]) if isinstance(n, ast.Assign) and "state_estimator" in ast.unparse(n.value)]
            ok = bool(est) and ast.unparse(est[0].value) == f"self.pomdp.state_estimator(b, {a}, {o_var})"
            ctx.check(ok, "BMDP-2", f, est[0] if est else lps[0], f"successor belief = state_estimator(b, {a}, {o_var}) for the enumerated observation", "",
                      "the successor belief is not the posterior for the same belief, action and enumerated observation")
            acc = [n for n in ast.walk(lps[0]) if isinstance(n, (ast.AugAssign, ast.Assign)) and isinstance(getattr(n, "target", None) or n.targets[0], ast.Subscript)]
            if acc:
                st = acc[-1]
                ctx.check(isinstance(st, ast.AugAssign) and isinstance(st.op, ast.Add), "BMDP-2", f, st, "weights of equal successor beliefs are added", "",
                          "two observations leading to the same belief overwrite each other's probability")
                ctx.check(ast.unparse(st.value) == op, "BMDP-2", f, st, "weight is the predictive probability of the observation that produced the belief", "", f"weight is `{norm(st.value)}`")
            lay = [n for n in ast.walk(lps[0]) if isinstance(n, ast.Assign) and isinstance(n.value, ast.ListComp) and "state_list" in ast.unparse(n.value)]
            ok = bool(lay) and ast.unparse(lay[0].value.generators[0].iter) == "self.pomdp.state_list" and ".get(" in ast.unparse(lay[0].value.elt) and "0.0" in ast.unparse(lay[0].value.elt)
            ctx.check(ok, "BMDP-2", f, lay[0] if lay else lps[0], "successor belief is laid out over pomdp.state_list (0 for missing states)", "", "successor belief is not laid out over the POMDP's state list")
            bel = [c for c in ast.walk(lps[0]) if isinstance(c, ast.Call) and ast.unparse(c.func) == "Belief"]
            ok = bool(bel) and ast.unparse(kwarg(bel[0], "states") or bel[0].args[0]) == "tuple(self.pomdp.state_list)"
            ctx.check(ok, "BMDP-2", f, bel[0] if bel else lps[0], "belief states are the POMDP's state list", "", "belief states are not pomdp.state_list")
    # reward
    r = C.methods["reward"]
    accs = [n for n in fn_body_nodes(r) if isinstance(n, ast.AugAssign)]
    ok = len(accs) == 2
    if ok:
        lps = enclosing_loops(r, accs[0])
        i0, i1 = items_loop_info(lps[0]), items_loop_info(lps[1]) if len(lps) > 1 else None
        inner, outer = (accs[0], accs[1]) if len(enclosing_loops(r, accs[0])) == 2 else (accs[1], accs[0])
        lps = enclosing_loops(r, inner)
        i0, i1 = items_loop_info(lps[0]), items_loop_info(lps[1])
        if i0 and i1:
            p_in = alg.normalise(inner.value)
            want_in = {tuple(sorted(((f"self.pomdp.reward({i0[3]}, {r.positional_params[2]}, {i1[3]})", 1), (i1[4], 1)))): Fraction(1)}
            ctx.check(p_in == want_in and i1[1] == "next_state_dist" and i1[2] == [i0[3], r.positional_params[2]], "BMDP-3", r, inner,
                      "belief reward: inner sum = sum_ns T(ns|s,a) * R(s,a,ns)", alg.show(p_in), f"inner summand is `{alg.show(p_in)}` over {i1[1]}({', '.join(i1[2])})")
            p_out = alg.normalise(outer.value)
            want_out = {tuple(sorted(((ast.unparse(inner.target), 1), (i0[4], 1)))): Fraction(1)}
            ctx.check(p_out == want_out, "BMDP-3", r, outer, "belief reward: outer sum weights by b(s)", alg.show(p_out), f"outer summand is `{alg.show(p_out)}`")
            reset = [n for n in ast.walk(lps[0]) if isinstance(n, ast.Assign) and ast.unparse(n.targets[0]) == ast.unparse(inner.target)]
            ctx.check(bool(reset) and ast.unparse(reset[0].value) == "0", "BMDP-3", r, lps[0], "per-state reward is reset for each belief state", "", "per-state expected reward is not reset between belief states")
    else:
        ctx.unknown("BMDP-3", r, r.node, "belief reward accumulation", "idiom not recognised")
    # absorption
    ab = C.methods["is_absorbing"]
    src_ab = ast.unparse(ab.node)
    ifs = [n for n in ast.walk(ab.node) if isinstance(n, ast.If)]
    ok = bool(ifs) and isinstance(ifs[0].test, ast.BoolOp) and isinstance(ifs[0].test.op, ast.And) and "> 0" in ast.unparse(ifs[0].test) \
        and "not self.pomdp.is_absorbing" in ast.unparse(ifs[0].test) and any(isinstance(b2, ast.Return) and ast.unparse(b2.value) == "False" for b2 in ifs[0].body)
    ctx.check(ok, "BMDP-4", ab, ifs[0] if ifs else ab.node, "belief is non-absorbing iff some positive-mass state is non-absorbing", "", "absorption test is not `exists state with prob > 0 and not absorbing -> False`")
    rets = [n for n in ab.node.body if isinstance(n, ast.Return)]
    ctx.check(bool(rets) and ast.unparse(rets[-1].value) == "True", "BMDP-4", ab, ab.node, "otherwise absorbing", "", "default verdict is not True")
    fl = [n for n in ast.walk(ab.node) if isinstance(n, ast.For)]
    ctx.check(bool(fl) and ast.unparse(fl[0].iter).replace(" ", "") == f"zip(*{ab.positional_params[1]})", "BMDP-4", ab, fl[0] if fl else ab.node, "iterates (state, prob) pairs of the belief", "", "does not iterate the belief's (state, prob) pairs")
    # initial belief, actions, discount
    ini = C.methods["initial_state_dist"]
    src_i = ast.unparse(ini.node)
    ctx.check("tuple(self.pomdp.state_list)" in src_i and "tuple(self.pomdp.initial_state_vec)" in src_i, "BMDP-5", ini, ini.node, "initial belief = (state_list, initial_state_vec)", "", "initial belief is not the POMDP's initial distribution over its state list")
    act = C.methods["actions"]
    ctx.check("self.pomdp.action_list" in ast.unparse(act.node), "BMDP-5", act, act.node, "belief-MDP actions = pomdp.action_list", "", "actions are not the POMDP's")
    init = C.methods["__init__"]
    ctx.check("self.discount_rate = pomdp.discount_rate" in ast.unparse(init.node), "BMDP-5", init, init.node, "belief MDP keeps the POMDP's discount rate", "", "discount rate not carried over")


def rule_tracking(ctx: Ctx):
    P = ctx.P
    f = P.method("ValueBasedTabularPOMDPPolicy", "next_agentstate")
    ag, a, o = f.positional_params[1:4]
    calls = calls_named(f, "state_estimator")
    ok = bool(calls) and [ast.unparse(x) for x in calls[0].args][1:] == [a, o] and ast.unparse(calls[0].func.value) == "self.pomdp"
    ctx.check(ok, "TRK-1", f, calls[0] if calls else f.node, f"belief tracker = pomdp.state_estimator(<belief>, {a}, {o})", "", "the tracker does not apply the POMDP's filter with its own (action, observation)")
    src = ast.unparse(f.node)
    ctx.check(f"DictDistribution(zip(*{ag}))" in src, "TRK-1", f, f.node, "prior belief rebuilt from the agent state", "", "prior belief is not the agent state")
    ctx.check("tuple(self.pomdp.state_list)" in src and ".prob(ns) for ns in ss" in src, "TRK-1", f, f.node, "posterior laid out over pomdp.state_list", "", "posterior is not laid out over the state list in order")
    ad = P.method("ValueBasedTabularPOMDPPolicy", "action_dist")
    src = ast.unparse(ad.node)
    ok = "for a in self.pomdp.action_list" in src and "self.action_value(" in src and "== maxv" in src and "uniform" in src
    ctx.check(ok, "TRK-1", ad, ad.node, "action distribution uniform over exact maximisers of the policy's own action_value", "", "greedy action distribution changed")


def run(ctx: Ctx):
    P = ctx.P
    G = CallGraph(P, ctx.X)
    typer = Typer(param_roles={"b": ("S",)}, ms_params=("b",))
    rule_filter(ctx)
    rule_predictive(ctx)
    rule_vectorised(ctx, typer)
    rule_obs_matrix(ctx)
    rule_belief_mdp(ctx)
    rule_tracking(ctx)
    mods = ("msdm.core.pomdp.pomdp", "msdm.core.pomdp.tabularpomdp", "msdm.core.pomdp.beliefmdp", "msdm.core.pomdp.policy", "msdm.core.pomdp.alphavectorpolicy")
    arg_permutation_rule(ctx, G, [f for f in P.all_functions() if f.module.name in mods], "ARG")
    for r, k in (("ACC-1", 6), ("CALL-1", 6), ("NORM-1", 6), ("TEN-1", 2), ("TEN-2", 2), ("IDX-1", 5), ("TEN-4", 6), ("ZERO-1", 2),
                 ("BMDP-1", 2), ("BMDP-2", 5), ("BMDP-3", 3), ("BMDP-4", 3), ("BMDP-5", 3), ("TRK-1", 4), ("ARG", 8)):
        ctx.require(r, k)
    ctx.assume("floating-point normalisation within tolerance; beliefs with equal float tuples are identified as keys")

"""C15 — augmented sub-tasks, options, semi-MDP.  IFC-1 + wiring / guarded-return rules."""
from __future__ import annotations

import ast
from typing import Dict, List, Optional, Set

from ..callgraph import CallGraph
from ..cfg import cfg_of
from ..dag import T, walk, show
from ..model import FunctionInfo, ClassInfo, AnalysisError, dotted
from ..report import Ctx
from ..util import ordered_args, arg_nodes, arg_texts, cmp_views, norm, fn_body_nodes, walk_local, kwarg, parents, is_none_test
from .common import stmts_assigning_attr, return_nodes, calls_named, arg_permutation_rule, names_in

EXPLANATION = (
    "Interface-transfer completeness for augment() (members of the MDP interface are computed from the "
    "MarkovDecisionProcess / TabularMarkovDecisionProcess class statements and compared with the attributes "
    "assigned on the derived class on every path), plus wiring and guarded-return rules for Option.run_on, "
    "PlanToSubgoalOption.sub_task and SemiMarkovDecisionProcess. Decides structure only: not the quality of the "
    "planned option policy.")
RULES = ("IFC-1 every interface member is assigned on the derived class on every path to the return, from the "
         "same-named member of the base MDP or the same-named override parameter; OPT-1..4 option execution wiring; "
         "SUB-1..5 sub-task overrides and clipped reward; SMDP-1..7 outcome distribution normaliser / key / "
         "discount accounting / marginals; ARG argument order of interface calls")


def mdp_interface(ctx: Ctx) -> Dict[str, str]:
    """member -> kind, computed from the class statements."""
    P = ctx.P
    base = P.cls("mdp.mdp.MarkovDecisionProcess")
    out: Dict[str, str] = {}
    for name, m in base.methods.items():
        if m.is_abstract:
            out[name] = "abstract method"
    for name in list(base.class_attrs) + list(base.annotations):
        if not name.startswith("_") and name in base.class_attrs:
            out[name] = "public data attribute"
    return out


def tabular_extras(ctx: Ctx) -> List[str]:
    tab = ctx.P.cls("TabularMarkovDecisionProcess")
    return [n for n, m in tab.methods.items() if m.is_property and n.endswith("_list") and not n.startswith("_")]


def instance_setters(ctx: Ctx, attr: str) -> List[str]:
    """classes (subclasses of MarkovDecisionProcess) whose methods assign self.<attr> on instances."""
    P = ctx.P
    base = P.cls("mdp.mdp.MarkovDecisionProcess")
    out = []
    for ci in P.classes.values():
        if base not in ci.mro:
            continue
        for m in ci.methods.values():
            sn = m.self_name
            if not sn:
                continue
            for sub in ast.walk(m.node):
                if isinstance(sub, ast.Attribute) and isinstance(sub.ctx, ast.Store) and sub.attr == attr \
                        and isinstance(sub.value, ast.Name) and sub.value.id == sn:
                    out.append(f"{ci.name}.{m.name}:{sub.lineno}")
                    break
    return out


def rule_ifc1(ctx: Ctx):
    P = ctx.P
    fi = P.fn("semimdp.option.augment")
    cfg = cfg_of(fi)
    derived = [c for c in fi.local_classes.values() if c.dynamic_base or c.bases]
    if not derived:
        # (written after seed C15-e) the overrides are installed as CLASS attributes: the class must be created by this very call, otherwise two
        # augmentations of the same base share (and overwrite) each other's overrides
        ctx.violation("IFC-1", fi, fi.node, "the augmented class is derived afresh inside augment()",
                      "augment() does not define its derived class locally (it comes from elsewhere, e.g. a cached factory): the overrides are class attributes, so "
                      "every augmentation that shares the class sees the overrides of the last one")
        return
    if len(derived) != 1:
        raise AnalysisError("augment(): expected exactly one locally derived class")
    D = derived[0]
    base_param = None
    for b in D.base_exprs:
        d = dotted(b)
        if d and d.split(".")[0] in fi.param_names:
            base_param = d.split(".")[0]
    if base_param is None:
        raise AnalysisError("augment(): derived class is not based on a parameter's class")
    iface = mdp_interface(ctx)
    extras = tabular_extras(ctx)
    ctx.extra["interface"] = {"core": iface, "tabular_extras": extras, "derived_class": D.name, "base_param": base_param}
    assigned = stmts_assigning_attr(fi, D.name)
    for a in D.class_attrs:
        assigned.setdefault(a, []).append(D.node)
    for a, m in D.methods.items():
        if a != "__init__":
            assigned.setdefault(a, []).append(m.node)
    rets = return_nodes(cfg)
    # does the derived class run the base initialiser (which would re-create instance attributes)?
    init = D.methods.get("__init__")
    runs_base_init = init is None or any(
        isinstance(n, ast.Call) and isinstance(n.func, ast.Attribute) and n.func.attr == "__init__"
        for n in ast.walk(init.node))
    for member, kind in iface.items():
        stmts = assigned.get(member, [])
        inst = f"{D.name}.{member} transferred"
        if not stmts:
            setters = instance_setters(ctx, member) if kind == "public data attribute" else []
            if kind == "abstract method" or (setters and not runs_base_init):
                why = (f"interface member `{member}` ({kind}) is never assigned on {D.name}; "
                       + (f"it is an instance attribute (set in {', '.join(setters[:3])}…) and {D.name}.__init__ does not run the base initialiser, "
                          f"so the derived MDP falls back to the class default" if setters else
                          "the derived class would use the base class's unbound implementation"))
                ctx.violation("IFC-1", fi, D.node, inst, why)
            else:
                ctx.passed("IFC-1", fi, D.node, inst, "inherited through the class (no instance-level state)")
            continue
        # assigned on every path to every return
        ok = all(cfg.all_paths_pass(cfg.entry.id, r, {cfg.node_for(s) for s in stmts if cfg.node_for(s) is not None})
                 for r in rets) if rets else None
        ctx.check(ok, "IFC-1", fi, stmts[0], inst, "assigned on every path to the return",
                  f"`{member}` is assigned on {D.name} only on some paths to the return")
        _check_sources(ctx, fi, D, member, stmts, base_param)
    # tabular extras: inside the tabular guard both arms must assign
    for member in extras:
        stmts = assigned.get(member, [])
        inst = f"{D.name}.{member} transferred (tabular)"
        if not stmts:
            ctx.violation("IFC-1", fi, D.node, inst,
                          f"tabular interface member `{member}` is never assigned on {D.name}: an explicit list of the base MDP is lost")
            continue
        guard = None
        for n in cfg.nodes:
            if n.kind == "if" and "TabularMarkovDecisionProcess" in names_in(n.ast.test):
                body_ids = {cfg.node_for(s) for s in ast.walk(n.ast) if isinstance(s, ast.stmt)}
                if all(cfg.node_for(s) in body_ids for s in stmts):
                    guard = n
        if guard is None:
            ok = all(cfg.all_paths_pass(cfg.entry.id, r, {cfg.node_for(s) for s in stmts}) for r in rets)
            ctx.check(ok if ok else None, "IFC-1", fi, stmts[0], inst, "assigned on every path", "assigned outside a recognisable tabular guard")
        else:
            tsucc = [s for s, lab in guard.succ if lab == "T"]
            ok = all(cfg.all_paths_pass(tsucc[0], r, {cfg.node_for(s) for s in stmts}) or cfg.node_for(stmts[0]) == tsucc[0]
                     for r in rets) if tsucc else None
            # the T successor itself may be (the if containing) the assignment
            if tsucc and not ok:
                first = cfg.nodes[tsucc[0]]
                inner = {cfg.node_for(s) for s in stmts}
                if first.kind == "if":
                    ok = all(cfg.all_paths_pass(first.id, r, inner) for r in rets)
            ctx.check(ok, "IFC-1", fi, stmts[0], inst, "assigned on every path through the tabular guard",
                      f"`{member}` is assigned only on some paths through the tabular guard")
        _check_sources(ctx, fi, D, member, stmts, base_param)
    ctx.require("IFC-1", len(iface) + len(extras))


def _check_sources(ctx: Ctx, fi: FunctionInfo, D: ClassInfo, member: str, stmts, base_param: str):
    """each assignment takes the same-named member of the base MDP or the same-named override parameter."""
    for st in stmts:
        if not isinstance(st, ast.Assign):
            continue
        v = st.value
        inst = f"{D.name}.{member} = {norm(v, 50)}"
        src_ok: Optional[bool] = None
        if isinstance(v, ast.Call) and isinstance(v.func, ast.Name) and v.func.id in ("staticmethod", "property") and len(v.args) == 1:
            v = v.args[0]
        if isinstance(v, ast.Name):
            if v.id in fi.param_names:
                src_ok = v.id == member
        elif isinstance(v, ast.Attribute) and isinstance(v.value, ast.Name) and v.value.id == base_param:
            src_ok = v.attr == member
        ctx.check(src_ok, "IFC-1", fi, st, inst, "same-named source",
                  f"`{member}` of the derived MDP is taken from a different member/parameter (`{norm(st.value, 40)}`)")


# --------------------------------------------------------------------------------------- options
def rule_option(ctx: Ctx):
    P = ctx.P
    fi = P.method("semimdp.option.Option", "run_on")
    cfg = cfg_of(fi)
    aug = calls_named(fi, "augment")
    if len(aug) != 1:
        raise AnalysisError("Option.run_on: expected one call of augment()")
    a = aug[0]
    callee = P.fn("semimdp.option.augment")
    m = kwarg(a, "mdp") or (a.args[0] if a.args else None)
    ctx.check(isinstance(m, ast.Name) and m.id == "mdp" if m is not None else None, "OPT-1", fi, a,
              "augment(mdp=<base mdp>)", "executes on the MDP it was given", "option executes on a different MDP than the one supplied")
    overrides = {k.arg for k in a.keywords if k.arg and k.arg != "mdp"}
    ctx.check(overrides == {"is_absorbing"}, "OPT-1", fi, a, "augment overrides exactly is_absorbing",
              "only termination is overridden", f"option execution overrides {sorted(overrides)} (expected only is_absorbing)")
    ia = kwarg(a, "is_absorbing")
    ok = None
    if isinstance(ia, ast.Lambda):
        body = ia.body
        ps = [x.arg for x in ia.args.args]
        ok = (isinstance(body, ast.Call) and isinstance(body.func, ast.Attribute) and body.func.attr == "is_terminal"
              and isinstance(body.func.value, ast.Name) and body.func.value.id == fi.self_name
              and len(body.args) == 1 and isinstance(body.args[0], ast.Name) and body.args[0].id in ps)
    elif isinstance(ia, ast.Attribute):
        ok = ia.attr == "is_terminal" and isinstance(ia.value, ast.Name) and ia.value.id == fi.self_name
    ctx.check(ok, "OPT-2", fi, a, "is_absorbing = self.is_terminal", "termination set of the option",
              f"execution stops at `{norm(ia) if ia is not None else None}` instead of the option's own is_terminal(s)")
    runs = calls_named(fi, "run_on")
    if len(runs) != 1:
        raise AnalysisError("Option.run_on: expected one policy.run_on call")
    r = runs[0]
    # receiver is the option's policy
    recv = r.func.value if isinstance(r.func, ast.Attribute) else None
    ctx.check(dotted(recv) == f"{fi.self_name}.policy" if recv is not None else None, "OPT-3", fi, r,
              "self.policy.run_on", "runs the option's own policy", f"runs `{norm(recv)}` instead of the option's policy")
    tm = kwarg(r, "mdp") or (r.args[0] if r.args else None)
    aug_target = None
    for st in fn_body_nodes(fi):
        if isinstance(st, ast.Assign) and st.value is a and isinstance(st.targets[0], ast.Name):
            aug_target = st.targets[0].id
    # the augmented MDP reaches the roll-out through a local or is built in place
    ok_tm = (isinstance(tm, ast.Name) and tm.id == aug_target) if aug_target else (tm is a)
    ctx.check(ok_tm if tm is not None else None, "OPT-3", fi, r,
              "run_on(mdp=<augmented mdp>)", "runs on the termination-augmented MDP",
              f"policy runs on `{norm(tm) if tm is not None else None}`, not on the termination-augmented MDP `{aug_target}`")
    ist = kwarg(r, "initial_state")
    ctx.check((isinstance(ist, ast.Name) and ist.id == "initial_state") if ist is not None else False, "OPT-3", fi, r,
              "run_on(initial_state=initial_state)", "starts at the given state",
              "the option does not start at the state it was asked to start from")
    ms = kwarg(r, "max_steps")
    ctx.check((dotted(ms) == f"{fi.self_name}.max_steps") if ms is not None else False, "OPT-3", fi, r,
              "run_on(max_steps=self.max_steps)", "own step limit", "the option's own step limit is not passed to the roll-out")
    # raise at the limit
    raises = [n for n in cfg.nodes if n.kind == "stmt" and isinstance(n.ast, ast.Raise)]
    ok = False
    for rn in raises:
        for b, lab in cfg.guards(rn.id):
            t = cfg.nodes[b].ast.test if cfg.nodes[b].kind == "if" else None
            left_is_len = isinstance(t, ast.Compare) and ("len" in names_in(t.left) or (isinstance(t.left, ast.Name) and any(
                isinstance(a, ast.Assign) and len(a.targets) == 1 and isinstance(a.targets[0], ast.Name) and a.targets[0].id == t.left.id and "len" in names_in(a.value)
                for a in ast.walk(fi.node))))
            if isinstance(t, ast.Compare) and len(t.ops) == 1 and isinstance(t.ops[0], (ast.GtE, ast.Gt, ast.Eq)) \
                    and left_is_len and dotted(t.comparators[0]) == f"{fi.self_name}.max_steps" and lab.startswith("T"):
                ok = isinstance(t.ops[0], ast.GtE) or isinstance(t.ops[0], ast.Eq)
    ctx.check(ok, "OPT-4", fi, raises[0].ast if raises else fi.node, "raise when len(result) >= self.max_steps",
              "raises at the step limit", "reaching the step limit does not raise (guard missing or weakened)")
    ctx.require("OPT-1", 2); ctx.require("OPT-2", 1); ctx.require("OPT-3", 4); ctx.require("OPT-4", 1)


def rule_subtask(ctx: Ctx):
    P = ctx.P
    fi = P.method("PlanToSubgoalOption", "sub_task")
    aug = calls_named(fi, "augment")
    if len(aug) != 1:
        raise AnalysisError("PlanToSubgoalOption.sub_task: expected one call of augment()")
    a = aug[0]
    kws = arg_nodes(a)
    m = kws.get("mdp") or (a.args[0] if a.args else None)
    ctx.check(dotted(m) == f"{fi.self_name}.mdp" if m is not None else None, "SUB-1", fi, a, "augment(mdp=self.mdp)",
              "sub-task derives from the option's base MDP", "sub-task derives from a different MDP")
    over = set(kws) - {"mdp"}
    ctx.check(over == {"is_absorbing", "reward", "initial_state_dist"}, "SUB-1", fi, a,
              "overrides exactly is_absorbing, reward, initial_state_dist", "",
              f"sub-task overrides {sorted(over)}; transitions/actions must stay the base MDP's")
    for k in ("is_absorbing", "reward", "initial_state_dist"):
        v = kws.get(k)
        if isinstance(v, ast.Name) and v.id in fi.nested:
            pass
    # clipped reward
    rw = kws.get("reward")
    rf = fi.nested.get(rw.id) if isinstance(rw, ast.Name) else None
    if rf is None:
        ctx.unknown("SUB-2", fi, a, "clipped reward function", "reward override is not a local function")
    else:
        _clipped_reward(ctx, fi, rf)
    ab = kws.get("is_absorbing")
    af = fi.nested.get(ab.id) if isinstance(ab, ast.Name) else None
    if af is not None:
        # every return value mentions self.is_terminal(s)
        cfg = cfg_of(af)
        t = ctx.X.returns(af)
        alts = t.args[0] if t.op == "phi" else (t,)
        ok = all(any(x.op == "attr" and x.args[1] == "is_terminal" for x in walk(al)) for al in alts)
        ctx.check(ok, "SUB-3", af, af.node, "is_absorbing includes self.is_terminal(s)", "sub-goal states are absorbing",
                  "some return path of the sub-task's is_absorbing ignores the option's terminal states")
    else:
        ctx.unknown("SUB-3", fi, a, "is_absorbing override", "not a local function")
    ini = kws.get("initial_state_dist")
    inf = fi.nested.get(ini.id) if isinstance(ini, ast.Name) else None
    if inf is not None:
        t = ctx.X.returns(inf)
        ok = any(x.op == "attr" and x.args[1] == "initial_states" for x in walk(t)) and \
            any(x.op == "attr" and x.args[1] in ("uniform",) or (x.op == "classref" and x.args[0] is not None and x.args[0].name == "UniformDistribution") for x in walk(t))
        ctx.check(ok, "SUB-4", inf, inf.node, "initial_state_dist = uniform(self.initial_states)", "",
                  "sub-task does not start uniformly over the option's initiation set")
    # planning result / policy wiring
    pr = P.method("PlanToSubgoalOption", "planning_result")
    t = ctx.X.returns(pr)
    ok = t.op == "call" and t.args[0].op == "attr" and t.args[0].args[1] == "plan_on" and \
        any(x.op == "attr" and x.args[1] == "planner" for x in walk(t.args[0])) and \
        len(t.args[1]) == 1 and t.args[1][0].op == "attr" and t.args[1][0].args[1] == "sub_task"
    ctx.check(ok, "SUB-5", pr, pr.node, "planning_result = self.planner.plan_on(self.sub_task)", "", "the option plans on something other than its sub-task")
    pol = P.method("PlanToSubgoalOption", "policy")
    t = ctx.X.returns(pol)
    ok = t.op == "attr" and t.args[1] == "policy" and t.args[0].op == "attr" and t.args[0].args[1] == "planning_result"
    ctx.check(ok, "SUB-5", pol, pol.node, "policy = self.planning_result.policy", "", "the option's policy is not its planning result's policy")
    for r in ("SUB-1", "SUB-2", "SUB-3", "SUB-5"):
        ctx.require(r, 1)


def _clipped_reward(ctx: Ctx, outer: FunctionInfo, rf: FunctionInfo):
    cfg = cfg_of(rf)
    X = ctx.X
    # base reward call with the function's own parameters in order
    base_calls = [c for c in calls_named(rf, "reward")]
    ps = rf.positional_params
    ok = None
    if base_calls:
        c = base_calls[0]
        ok = [a.id if isinstance(a, ast.Name) else None for a in c.args] == ps and \
            isinstance(c.func, ast.Attribute) and dotted(c.func.value) in ("self.mdp",)
    ctx.check(ok, "SUB-2", rf, rf.node, "real reward = self.mdp.reward(s, a, ns)", "",
              "the clipped reward is not computed from the base MDP's reward of the same (s, a, ns)")
    # returns: under is_terminal(ns) the real reward is returned unclipped
    rets = [n for n in cfg.nodes if n.kind == "stmt" and isinstance(n.ast, ast.Return)]
    term_ret = None
    for n in rets:
        for b, lab in cfg.control_deps(n.id):
            t = cfg.nodes[b].ast.test if cfg.nodes[b].kind == "if" else None
            if isinstance(t, ast.Call) and isinstance(t.func, ast.Attribute) and t.func.attr == "is_terminal" and lab.startswith("T"):
                term_ret = (n, t)
    if term_ret is None:
        ctx.violation("SUB-2", rf, rf.node, "terminal successors return the real reward",
                      "no return is guarded by self.is_terminal(ns): rewards on entering a sub-goal would be clipped")
    else:
        n, t = term_ret
        arg_ok = len(t.args) == 1 and isinstance(t.args[0], ast.Name) and len(ps) == 3 and t.args[0].id == ps[2]
        ctx.check(arg_ok, "SUB-2", rf, n.ast, "terminal test is on the successor state", "",
                  f"the terminal test is applied to `{norm(t.args[0]) if t.args else '?'}`, not to the successor `{ps[2] if len(ps) == 3 else '?'}`")
        val = X.expr(rf, n.ast.value, at=n.id)
        ctx.check(val.op == "call" and val.args[0].op == "attr" and val.args[0].args[1] == "reward", "SUB-2", rf, n.ast,
                  "unclipped real reward on terminal successors", "", "the value returned on terminal successors is not the base reward")
        # the terminal test dominates the clipping comparison
        clip_nodes = [m for m in cfg.nodes if m.kind == "if" and isinstance(m.ast.test, ast.Compare)
                      and "max_nonterminal_pseudoreward" in ast.unparse(m.ast.test)]
        if clip_nodes:
            tb = [b for b, lab in cfg.control_deps(n.id)][0]
            ctx.check(cfg.dominates(tb, clip_nodes[0].id), "SUB-2", rf, clip_nodes[0].ast, "terminal test precedes clipping", "",
                      "clipping is applied before the terminal test")
            cn = clip_nodes[0]
            t2 = cn.ast.test
            ok2 = any(op == ">" and "max_nonterminal_pseudoreward" in r_ and "max_nonterminal_pseudoreward" not in l_ for l_, op, r_ in cmp_views(t2))
            ctx.check(ok2 if ok2 else None, "SUB-2", rf, cn.ast, "clip when real_reward > cap", "", "unrecognised clipping comparison")
        else:
            # min(real, cap) form
            tall = X.returns(rf)
            ok3 = any(x.op == "call" and x.args[0].op == "builtin" and x.args[0].args[0] == "min" for x in walk(tall))
            ctx.check(ok3 if ok3 else None, "SUB-2", rf, rf.node, "clipping by min(real, cap)", "", "no clipping recognised")


# --------------------------------------------------------------------------------------- semi-MDP
def rule_semimdp(ctx: Ctx):
    P = ctx.P
    X = ctx.X
    C = P.cls("SemiMarkovDecisionProcess")
    f = C.methods.get("next_state_transit_time_reward_dist")
    sim = C.methods.get("run_simulations")
    if f is None or sim is None:
        raise AnalysisError("SemiMarkovDecisionProcess entry points vanished")
    cfg = cfg_of(f)
    sn = f.self_name
    # primitive branch
    prim = None
    for n in cfg.nodes:
        if n.kind == "if" and isinstance(n.ast.test, ast.Compare) and isinstance(n.ast.test.ops[0], ast.In) \
                and "actions" in ast.unparse(n.ast.test.comparators[0]):
            prim = n
    if prim is None:
        ctx.unknown("SMDP-1", f, f.node, "primitive-action branch", "guard `a in self.mdp.actions(s)` not found")
    else:
        rets = [r for r in cfg.nodes if r.kind == "stmt" and isinstance(r.ast, ast.Return)
                and any(b == prim.id and lab.startswith("T") for b, lab in cfg.control_deps(r.id))]
        ok = None
        detail = ""
        if rets:
            t = X.expr(f, rets[0].ast.value, at=rets[0].id)
            # marginalize(lambda ns: (ns, 1, reward(s, a, ns))) of next_state_dist(s, a)
            if t.op == "call" and t.args[0].op == "attr" and t.args[0].args[1] == "marginalize" and t.args[1] and t.args[1][0].op == "funcref":
                lam = t.args[1][0].args[0]
                base = t.args[0].args[0]
                base_ok = base.op == "call" and base.args[0].op == "attr" and base.args[0].args[1] == "next_state_dist"
                body = lam.node.body if lam.is_lambda else None
                if isinstance(body, ast.Tuple) and len(body.elts) == 3:
                    p = lam.positional_params[0]
                    e0, e1, e2 = body.elts
                    ok = (base_ok and isinstance(e0, ast.Name) and e0.id == p
                          and isinstance(e1, ast.Constant) and e1.value == 1
                          and isinstance(e2, ast.Call) and isinstance(e2.func, ast.Attribute) and e2.func.attr == "reward"
                          and [a.id if isinstance(a, ast.Name) else None for a in e2.args] == ["s", "a", p])
                    detail = f"outcome tuple is ({norm(e0)}, {norm(e1)}, {norm(e2)})"
        ctx.check(ok, "SMDP-1", f, rets[0].ast if rets else prim.ast, "primitive action -> (ns, 1, reward(s, a, ns)) over next_state_dist(s, a)",
                  detail, "a primitive action does not yield its one-step outcomes with duration 1 and the MDP's reward: " + detail)
    # option branch: normaliser == simulation count
    div = None
    for node in fn_body_nodes(f):
        if isinstance(node, ast.DictComp) and isinstance(node.value, ast.BinOp) and isinstance(node.value.op, ast.Div):
            div = node
    sim_bound = None
    for node in fn_body_nodes(sim):
        if isinstance(node, ast.For) and isinstance(node.iter, ast.Call) and isinstance(node.iter.func, ast.Name) \
                and node.iter.func.id == "range" and len(node.iter.args) == 1:
            if any(isinstance(c, ast.Call) and isinstance(c.func, ast.Attribute) and c.func.attr == "run_on" for c in ast.walk(node)):
                sim_bound = node.iter.args[0]
    if div is None or sim_bound is None:
        ctx.unknown("SMDP-2", f, f.node, "normaliser equals number of simulations", "idiom not recognised")
    else:
        a_, b_ = dotted(div.value.right), dotted(sim_bound)
        dv = div.value.right
        it0 = div.generators[0].iter
        iterated = it0.func.value.id if isinstance(it0, ast.Call) and isinstance(it0.func, ast.Attribute) and isinstance(it0.func.value, ast.Name) else None
        if isinstance(dv, ast.Call) and isinstance(dv.func, ast.Name) and dv.func.id == "len" and len(dv.args) == 1 \
                and isinstance(dv.args[0], ast.Name) and dv.args[0].id == iterated:
            ctx.violation("SMDP-2", f, div, "counts / number of simulations run",
                          f"the outcome counts are divided by the number of distinct outcomes `{norm(dv)}`, not by the number of "
                          f"simulations `{norm(sim_bound)}`: the distribution is not normalised when outcomes repeat")
        else:
            ctx.check((a_ == b_) if a_ and b_ else None, "SMDP-2", f, div, "counts / number of simulations run",
                      f"divisor {a_} == loop bound {b_}",
                      f"the outcome counts are divided by `{a_}` but `{b_}` simulations are run: the distribution is not normalised")
        # the numerator is the count of that key
        it = div.generators[0].iter
        ctx.check(isinstance(div.value.left, ast.Name) and isinstance(div.generators[0].target, ast.Tuple)
                  and div.value.left.id == getattr(div.generators[0].target.elts[1], "id", None)
                  and isinstance(div.key, ast.Name) and div.key.id == getattr(div.generators[0].target.elts[0], "id", None),
                  "SMDP-2", f, div, "probability of a key is its own count", "", "key/count pairing in the outcome distribution is inconsistent")
    # the simulations are those of this (s, a)
    rs = calls_named(f, "run_simulations")
    ok = bool(rs) and [a.id if isinstance(a, ast.Name) else None for a in ordered_args(rs[0])] == ["s", "a"]
    ctx.check(ok if rs else None, "SMDP-3", f, rs[0] if rs else f.node, "run_simulations(s, a)", "", "simulations are run for a different (state, option)")
    ro = calls_named(sim, "run_on")
    if ro:
        c = ro[0]
        recv = c.func.value
        ok = isinstance(recv, ast.Name) and recv.id == "a" and dotted(c.args[0] if c.args else kwarg(c, "mdp")) == f"{sim.self_name}.mdp" \
            and isinstance(kwarg(c, "initial_state"), ast.Name) and kwarg(c, "initial_state").id == "s"
        ctx.check(ok, "SMDP-3", sim, c, "a.run_on(self.mdp, initial_state=s, ...)", "", "the option is not executed on the base MDP from the queried state")
    # accounting loop: key tuple, discounting order
    loops = [n for n in fn_body_nodes(f) if isinstance(n, ast.For) and isinstance(n.iter, ast.Call)
             and isinstance(n.iter.func, ast.Name) and n.iter.func.id == "zip"]
    if not loops:
        ctx.unknown("SMDP-4", f, f.node, "discounted accumulation loop", "zip loop not found")
    else:
        lp = loops[0]
        zargs = [ast.unparse(a) for a in lp.iter.args]
        ok = len(zargs) == 2 and zargs[0].endswith(".next_state") and zargs[1].endswith(".reward") and \
            zargs[0].split(".")[0] == zargs[1].split(".")[0]
        ctx.check(ok, "SMDP-4", f, lp, "zip(sim.next_state, sim.reward) of one simulation", "", f"accumulates over {zargs}")
        tnames = [e.id for e in lp.target.elts] if isinstance(lp.target, ast.Tuple) else []
        acc = [s for s in lp.body if isinstance(s, ast.AugAssign) and isinstance(s.op, ast.Add)]
        upd = [s for s in lp.body if isinstance(s, ast.Assign) and isinstance(s.value, ast.BinOp) and isinstance(s.value.op, ast.Mult)
               and "discount_rate" in ast.unparse(s.value)]
        accr = [s for s in acc if isinstance(s.value, ast.BinOp) and isinstance(s.value.op, ast.Mult)]
        dvar = upd[0].targets[0].id if upd and isinstance(upd[0].targets[0], ast.Name) else None
        plain = [s for s in acc if s not in accr and len(tnames) == 2 and tnames[1] in names_in(s.value)]
        if plain and not accr:
            ctx.violation("SMDP-4", f, plain[0], "cum_reward += r * discount",
                          f"the step reward is accumulated as `{norm(plain[0])}` without the running discount factor")
        elif accr and upd and len(tnames) == 2:
            s_acc, s_upd = accr[0], upd[0]
            fac = names_in(s_acc.value)
            ctx.check(tnames[1] in fac and dvar in fac, "SMDP-4", f, s_acc, "cum_reward += r * discount", "",
                      f"the accumulated term `{norm(s_acc.value)}` is not (this step's reward) x (current discount)")
            ctx.check(lp.body.index(s_acc) < lp.body.index(s_upd), "SMDP-4", f, s_upd, "reward added before the discount is advanced", "",
                      "the discount is advanced before the step's reward is added: the first reward would be discounted")
            ctx.check(dotted(s_upd.value.right) == f"{sn}.mdp.discount_rate" or dotted(s_upd.value.left) == f"{sn}.mdp.discount_rate",
                      "SMDP-4", f, s_upd, "discount *= self.mdp.discount_rate", "", "discount is not advanced by the base MDP's discount rate")
            # initial discount 1, initial cum 0
            inits = {}
            for st in fn_body_nodes(f):
                if isinstance(st, ast.Assign) and isinstance(st.targets[0], ast.Name) and isinstance(st.value, ast.Constant):
                    inits.setdefault(st.targets[0].id, []).append(st.value.value)
            cvar = s_acc.target.id if isinstance(s_acc.target, ast.Name) else None
            ctx.check(inits.get(dvar) == [1] and inits.get(cvar) == [0], "SMDP-4", f, lp, "discount starts at 1, sum at 0", "",
                      f"initial values: {dvar}={inits.get(dvar)}, {cvar}={inits.get(cvar)}")
        else:
            ctx.unknown("SMDP-4", f, lp, "discounted accumulation", "idiom not recognised")
        # key of the counts
        keys = [s for s in fn_body_nodes(f) if isinstance(s, ast.AugAssign) and isinstance(s.target, ast.Subscript)
                and isinstance(s.target.slice, ast.Tuple) and len(s.target.slice.elts) == 3]
        if keys:
            k = keys[0]
            inside = any(k is x for x in ast.walk(lp))
            ctx.check(not inside, "SMDP-5", f, k, "one count per simulation (after its accumulation loop)", "",
                      "the outcome is counted inside the per-step loop")
            ctx.check(isinstance(k.value, ast.Constant) and k.value.value == 1, "SMDP-5", f, k, "count += 1", "", "count increment is not 1")
            cvar = (accr or plain)[0].target.id if (accr or plain) and isinstance((accr or plain)[0].target, ast.Name) else None
            e = k.target.slice.elts
            ctx.check(isinstance(e[2], ast.Name) and e[2].id == cvar, "SMDP-5", f, k, "third key component is the discounted sum", "",
                      f"outcome key's reward component is `{norm(e[2])}`")
        else:
            ctx.unknown("SMDP-5", f, f.node, "outcome key", "counts[(ns, t, cum)] += 1 not found")
    # marginals
    for name, proj in (("next_state_transit_time_dist", "(0,1)"), ("next_state_dist", "0"), ("expected_cumulative_reward", "2")):
        m = C.methods.get(name)
        if m is None:
            raise AnalysisError(f"SemiMarkovDecisionProcess.{name} vanished")
        t = X.returns(m)
        ok = None
        if t.op == "call" and t.args[0].op == "attr" and t.args[0].args[1] in ("marginalize", "expectation"):
            base = t.args[0].args[0]
            base_ok = base.op == "call" and base.args[0].op == "attr" and base.args[0].args[1] == "next_state_transit_time_reward_dist" \
                and [show(a) for a in base.args[1]] == ["$s", "$a"]
            lam = t.args[1][0].args[0] if t.args[1] and t.args[1][0].op == "funcref" else None
            if lam is not None and lam.is_lambda:
                body = ast.unparse(lam.node.body).replace(" ", "")
                p = lam.positional_params[0]
                want = {"(0,1)": f"({p}[0],{p}[1])", "0": f"{p}[0]", "2": f"{p}[2]"}[proj]
                op_ok = t.args[0].args[1] == ("expectation" if proj == "2" else "marginalize")
                ok = base_ok and body == want and op_ok
        ctx.check(ok, "SMDP-6", m, m.node, f"{name} = outcome distribution projected on component {proj}", "",
                  f"{name} does not delegate to the outcome distribution of the same (s, a) with projection {proj}")
    # available options
    act = C.methods.get("actions")
    if act is not None:
        t = X.returns(act)
        ok = any(x.op == "attr" and x.args[1] == "is_initial" for x in walk(t))
        ctx.check(ok, "SMDP-7", act, act.node, "options offered only where is_initial(s)", "", "options are offered regardless of their initiation set")
    # SMDP-8 (written after seeds C15-b / C15-d): a method whose result depends on instance configuration that can change after construction
    # (the seed, the number of simulations) is not memoised per argument tuple — a cached result would outlive a change of that configuration
    from .common import cache_on_mutable_state_rule
    cache_on_mutable_state_rule(ctx, [ctx.P.cls("SemiMarkovDecisionProcess")], "SMDP-8", extra_attrs=("seed", "n_option_simulations", "max_option_steps"))
    for r, k in (("SMDP-1", 1), ("SMDP-2", 2), ("SMDP-3", 2), ("SMDP-4", 4), ("SMDP-5", 3), ("SMDP-6", 3), ("SMDP-7", 1), ("SMDP-8", 1)):
        ctx.require(r, k)


def run(ctx: Ctx):
    G = CallGraph(ctx.P, ctx.X)
    rule_ifc1(ctx)
    rule_option(ctx)
    rule_subtask(ctx)
    rule_semimdp(ctx)
    fns = [f for f in ctx.P.all_functions() if f.module.name in ("msdm.core.semimdp.option", "msdm.core.semimdp.semimdp")]
    arg_permutation_rule(ctx, G, fns, "ARG")
    ctx.require("ARG", 3)
    ctx.assume("the planner handed to PlanToSubgoalOption is correct for the sub-task (C01/C03/C04)")

"""C14 — roll-outs and Monte-Carlo evaluation.  SIM-0..6 on both roll-out loops, bookkeeping provenance."""
from __future__ import annotations

import ast
from typing import Dict, List, Optional

from ..callgraph import CallGraph
from ..cfg import cfg_of
from ..model import FunctionInfo, AnalysisError, dotted
from ..report import Ctx
from ..pat import Snips
from ..util import ordered_args, norm, fn_body_nodes, walk_local, kwarg
from .common import arg_permutation_rule, names_in, calls_named
from . import simloop as SL

EXPLANATION = (
    "Simulation-loop protocol on Policy.run_on and POMDPPolicy.run_on (absorbing test before every step, action from "
    "the policy at the current (agent) state, successor / observation / reward of exactly that step, fields recorded "
    "under their own names, state and agent state advanced after recording, range(max_steps) cap, terminal record) and "
    "provenance of the Monte-Carlo bookkeeping in Policy.evaluate_on and the trajectory accessors. The identity "
    "calc_returns == backward recursion and agreement with exact evaluation are not decided.")
RULES = ("SIM-0 start state given or sampled (is None) with the supplied generator; SIM-1 absorbing guard on current state; "
         "SIM-2 action from action_dist(current state / agent state); SIM-3 reward(s,a,ns); SIM-4 advance after recording; "
         "SIM-5 recorded fields bound to same-role variables; SIM-6 range(max_steps) and terminal record; OBS-1 observation "
         "from observation_dist(a, ns), agent state via next_agentstate(ag, a, o); MC-1..4 evaluation bookkeeping; ACC-1 accessors")


def field_roles_mdp(L: SL.SimLoop, rvar: Optional[str], tvar: Optional[str]) -> Dict[str, Optional[str]]:
    return {"timestep": tvar, "state": L.s, "action": L.a, "next_state": L.ns, "reward": rvar}


def rule_record(ctx: Ctx, L: SL.SimLoop, roles: Dict[str, Optional[str]], positional_fields: Optional[List[str]] = None):
    """SIM-5: the per-step record binds each field to the variable playing that role."""
    fi = L.fi
    rec = None
    for st in L.body:
        for sub in walk_local(st):
            if isinstance(sub, ast.Call) and isinstance(sub.func, ast.Attribute) and sub.func.attr == "append" and sub.args \
                    and isinstance(sub.args[0], ast.Call):
                rec = sub
    if rec is None:
        ctx.violation("SIM-5", fi, L.loop, "per-step record", "the loop does not record its steps")
        return None
    step = rec.args[0]
    bound: Dict[str, str] = {}
    for kw in step.keywords:
        if kw.arg:
            bound[kw.arg] = ast.unparse(kw.value)
    if positional_fields:
        for name, a in zip(positional_fields, step.args):
            bound[name] = ast.unparse(a)
    for fld, var in roles.items():
        if var is None:
            if fld == "reward" and fld in bound and ".reward(" in bound[fld]:
                # the reward of the step is computed in place in the record (its arguments are SIM-3's business)
                ctx.passed("SIM-5", fi, step, "record field reward = the step's reward", bound[fld])
            continue
        inst = f"record field {fld} = the step's {fld.replace('_', ' ')}"
        if fld not in bound:
            ctx.violation("SIM-5", fi, step, inst, f"field `{fld}` is not recorded")
        else:
            ctx.check(bound[fld] == var, "SIM-5", fi, step, inst, "",
                      f"field `{fld}` records `{bound[fld]}`, but the {fld.replace('_', ' ')} of this step is `{var}`")
    # the record precedes the advance (covered by SIM-4) and is appended to the trajectory that is returned
    return rec


def rule_cap_and_terminal(ctx: Ctx, L: SL.SimLoop, cap_param="max_steps", state_field="state", positional: bool = False):
    fi = L.fi
    ok = isinstance(L.loop, ast.For) and isinstance(L.loop.iter, ast.Call) and isinstance(L.loop.iter.func, ast.Name) \
        and L.loop.iter.func.id == "range" and len(L.loop.iter.args) == 1 and isinstance(L.loop.iter.args[0], ast.Name) \
        and L.loop.iter.args[0].id == cap_param
    ctx.check(ok, "SIM-6", fi, L.loop, f"step cap is range({cap_param})", "", f"the loop is bounded by `{norm(getattr(L.loop, 'iter', L.loop), 40)}`, not by the step cap")
    # terminal record after the loop
    body = fi.node.body
    after = False
    term = None
    for st in body:
        if st is L.loop:
            after = True
            continue
        if after:
            for sub in walk_local(st):
                if isinstance(sub, ast.Call) and isinstance(sub.func, ast.Attribute) and sub.func.attr == "append" and sub.args \
                        and isinstance(sub.args[0], ast.Call):
                    term = sub.args[0]
    if term is None:
        ctx.violation("SIM-6", fi, L.loop, "terminal record appended after the loop", "the final state is not recorded")
    else:
        v = kwarg(term, state_field) if not positional else (term.args[0] if term.args else None)
        ctx.check(v is not None and ast.unparse(v) == L.s, "SIM-6", fi, term, f"terminal record holds the final state `{L.s}`", "",
                  f"terminal record holds `{norm(v) if v is not None else None}`")
    if isinstance(L.loop, ast.For) and L.loop.orelse:
        ctx.unknown("SIM-6", fi, L.loop, "for-else", "loop has an else clause")


def mdp_rollout(ctx: Ctx):
    P = ctx.P
    fi = P.method("mdp.policy.Policy", "run_on")
    loops = SL.find_loops(fi)
    if len(loops) != 1:
        raise AnalysisError("Policy.run_on: simulation loop not found")
    L = loops[0]
    SL.initial_state_rule(ctx, fi, L, L.model)
    SL.sim1_absorbing_guard(ctx, L)
    SL.sim2_action_source(ctx, L)
    # the action is sampled from the policy's own distribution at s
    cfg = cfg_of(fi)
    for d in cfg.reaching(cfg.node_for(L.sample_stmt), L.a):
        v = d.value
        ok = isinstance(v, ast.Call) and isinstance(v.func, ast.Attribute) and v.func.attr == "sample" and \
            isinstance(v.func.value, ast.Call) and isinstance(v.func.value.func, ast.Attribute) and v.func.value.func.attr == "action_dist" \
            and dotted(v.func.value.func.value) == fi.self_name and [ast.unparse(a) for a in v.func.value.args] == [L.s]
        ctx.check(ok, "SIM-2", fi, d.stmt, f"action ~ self.action_dist({L.s})", "", f"the action is `{norm(v) if v is not None else '?'}`, not a sample of the policy at the current state")
    rvar = SL.sim3_reward_args(ctx, L)
    SL.sim4_advance(ctx, L, must_follow=("append",))
    tvar = L.loop.target.id if isinstance(L.loop, ast.For) and isinstance(L.loop.target, ast.Name) else None
    rule_record(ctx, L, field_roles_mdp(L, rvar, tvar))
    rule_cap_and_terminal(ctx, L)
    # the returned object wraps the recorded trajectory
    rets = [n for n in fn_body_nodes(fi) if isinstance(n, ast.Return)]
    ok = len(rets) == 1 and isinstance(rets[0].value, ast.Call) and rets[0].value.args and isinstance(rets[0].value.args[0], ast.Name)
    ctx.check(ok, "SIM-6", fi, rets[0] if rets else fi.node, "returns the recorded trajectory", "", "does not return the recorded trajectory")
    return L


def pomdp_rollout(ctx: Ctx):
    P = ctx.P
    fi = P.method("POMDPPolicy", "run_on")
    loops = SL.find_loops(fi)
    if len(loops) != 1:
        raise AnalysisError("POMDPPolicy.run_on: simulation loop not found")
    L = loops[0]
    SL.initial_state_rule(ctx, fi, L, L.model)
    SL.sim1_absorbing_guard(ctx, L)
    # agent state variable: argument of action_dist
    ag = None
    cfg = cfg_of(fi)
    for d in cfg.reaching(cfg.node_for(L.sample_stmt), L.a):
        v = d.value
        if isinstance(v, ast.Call) and isinstance(v.func, ast.Attribute) and v.func.attr == "sample" and isinstance(v.func.value, ast.Call) \
                and isinstance(v.func.value.func, ast.Attribute) and v.func.value.func.attr == "action_dist" and v.func.value.args:
            ag = ast.unparse(v.func.value.args[0])
            ok = dotted(v.func.value.func.value) == fi.self_name
            ctx.check(ok, "SIM-2", fi, d.stmt, f"action ~ self.action_dist({ag})", "", "action not drawn from the policy itself")
        else:
            ctx.violation("SIM-2", fi, d.stmt, "action ~ self.action_dist(<agent state>)", f"action is `{norm(v) if v is not None else '?'}`")
    rvar = SL.sim3_reward_args(ctx, L)
    SL.sim4_advance(ctx, L, must_follow=("append",))
    # observation from observation_dist(a, ns); next agent state from next_agentstate(ag, a, o)
    ovar = nag = None
    for st in L.body:
        if isinstance(st, ast.Assign) and isinstance(st.targets[0], ast.Name) and isinstance(st.value, ast.Call):
            c = st.value
            if isinstance(c.func, ast.Attribute) and c.func.attr == "sample" and isinstance(c.func.value, ast.Call) \
                    and isinstance(c.func.value.func, ast.Attribute) and c.func.value.func.attr == "observation_dist":
                ovar = st.targets[0].id
                got = [ast.unparse(a) for a in c.func.value.args]
                ctx.check(got == [L.a, L.ns] and ast.unparse(c.func.value.func.value) == L.model, "OBS-1", fi, st,
                          f"observation ~ {L.model}.observation_dist({L.a}, {L.ns})", "",
                          f"the observation is drawn from observation_dist({', '.join(got)}): it must condition on the action taken and the state *entered*")
            if isinstance(c.func, ast.Attribute) and c.func.attr == "next_agentstate":
                nag = st.targets[0].id
                got = [ast.unparse(a) for a in ordered_args(c)]
                ctx.check(got == [ag, L.a, ovar] and dotted(c.func.value) == fi.self_name, "OBS-1", fi, st,
                          f"next agent state = self.next_agentstate({ag}, {L.a}, {ovar})", "",
                          f"agent state updated with ({', '.join(got)}), not with this step's (agent state, action, observation)")
    if ovar is None:
        ctx.violation("OBS-1", fi, L.loop, "observation sampled", "no observation is sampled from the model")
    if nag is None:
        ctx.violation("OBS-1", fi, L.loop, "agent state updated", "the policy's own next_agentstate is never applied")
    else:
        # agent state advance ag = nag after the record
        adv = [st for st in L.body if isinstance(st, ast.Assign) and isinstance(st.targets[0], ast.Name) and st.targets[0].id == ag]
        ok = len(adv) == 1 and isinstance(adv[0].value, ast.Name) and adv[0].value.id == nag
        ctx.check(ok, "OBS-1", fi, adv[0] if adv else L.loop, f"agent state advance {ag} = {nag}", "", "agent state is not advanced to the updated agent state")
        recs = [i for i, st in enumerate(L.body) if "append" in ast.unparse(st)]
        if adv and recs:
            ctx.check(L.body.index(adv[0]) > recs[-1], "OBS-1", fi, adv[0], "agent state advanced after recording", "", "agent state advanced before the step is recorded")
    # record: positional namedtuple fields
    step_fields = None
    for node in ast.walk(fi.module.tree):
        if isinstance(node, ast.Assign) and isinstance(node.targets[0], ast.Name) and node.targets[0].id == "Step" \
                and isinstance(node.value, ast.Call) and len(node.value.args) == 2 and isinstance(node.value.args[1], ast.Constant):
            step_fields = str(node.value.args[1].value).replace(",", " ").split()
    if step_fields is None:
        ctx.unknown("SIM-5", fi, L.loop, "Step field names", "namedtuple definition not found")
    else:
        roles = {"state": L.s, "agentstate": ag, "action": L.a, "nextstate": L.ns, "reward": rvar, "observation": ovar, "nextagentstate": nag}
        rule_record(ctx, L, roles, positional_fields=step_fields)
    rule_cap_and_terminal(ctx, L, positional=True)
    # initial agent state: given or the policy's own
    found = False
    for n in cfg.nodes:
        if n.kind == "if":
            r = is_none = None
            from ..util import is_none_test
            r = is_none_test(n.ast.test)
            if r and isinstance(r[0], ast.Name) and r[0].id == "initial_agentstate" and r[1]:
                found = True
                ok = any(isinstance(s, ast.Assign) and "initial_agentstate()" in ast.unparse(s.value) and ast.unparse(s.value).startswith(fi.self_name + ".") for s in n.ast.body)
                ctx.check(ok, "SIM-0", fi, n.ast, "agent state given or self.initial_agentstate()", "", "default agent state is not the policy's own initial agent state")
    if not found:
        ctx.unknown("SIM-0", fi, fi.node, "initial agent state default", "no `is None` test found")
    return L


def rule_evaluate(ctx: Ctx):
    P = ctx.P
    fi = P.method("mdp.policy.Policy", "evaluate_on")
    sims = [n for n in fn_body_nodes(fi) if isinstance(n, ast.For) and isinstance(n.iter, ast.Call)
            and isinstance(n.iter.func, ast.Name) and n.iter.func.id == "range"]
    if not sims:
        raise AnalysisError("Policy.evaluate_on: simulation loop not found")
    lp = sims[0]
    ok = len(lp.iter.args) == 1 and isinstance(lp.iter.args[0], ast.Name) and lp.iter.args[0].id == "n_simulations"
    ctx.check(ok, "MC-1", fi, lp, "runs n_simulations roll-outs", "", f"runs {norm(lp.iter)} roll-outs")
    run = [c for c in ast.walk(lp) if isinstance(c, ast.Call) and isinstance(c.func, ast.Attribute) and c.func.attr == "run_on"]
    if run:
        c = run[0]
        ok = dotted(c.func.value) == fi.self_name and (c.args and ast.unparse(c.args[0]) == "mdp" or (kwarg(c, "mdp") is not None and ast.unparse(kwarg(c, "mdp")) == "mdp"))
        ctx.check(ok, "MC-1", fi, c, "self.run_on(mdp, ...)", "", "evaluation rolls out a different policy or model")
        ms = kwarg(c, "max_steps")
        ctx.check(ms is not None and ast.unparse(ms) == "max_steps", "MC-1", fi, c, "roll-outs use the given step cap", "", "the step cap is not forwarded to the roll-outs")
        ctx.check(kwarg(c, "initial_state") is None, "MC-1", fi, c, "roll-outs start from the initial distribution", "", "evaluation roll-outs do not start from the initial distribution")
    else:
        ctx.violation("MC-1", fi, lp, "self.run_on(mdp, ...)", "no roll-out inside the evaluation loop")
    # returns of one roll-out
    rets = [st for st in lp.body if isinstance(st, ast.Assign) and isinstance(st.value, ast.Call) and "calc_returns" in ast.unparse(st.value.func)]
    if rets:
        c = rets[0].value
        res = run and [st for st in lp.body if isinstance(st, ast.Assign) and st.value is run[0]]
        resvar = res[0].targets[0].id if res else None
        got = [ast.unparse(a) for a in ordered_args(c)]
        ctx.check(got == [f"{resvar}.reward", "mdp.discount_rate"], "MC-2", fi, c, "returns = calc_returns(<this roll-out>.reward, mdp.discount_rate)", "",
                  f"returns are computed from ({', '.join(got)})")
        rv = rets[0].targets[0].id
        ini = [c2 for c2 in ast.walk(lp) if isinstance(c2, ast.Call) and isinstance(c2.func, ast.Attribute) and c2.func.attr == "append"
               and isinstance(c2.args[0], ast.Subscript) and isinstance(c2.args[0].value, ast.Name) and c2.args[0].value.id == rv]
        ok = bool(ini) and isinstance(ini[0].args[0].slice, ast.Constant) and ini[0].args[0].slice.value == 0
        ctx.check(ok, "MC-2", fi, ini[0] if ini else lp, "initial value sample is the return of step 0", "", "the initial-value sample is not the roll-out's first return")
        # zip of the same roll-out
        zl = [n for n in ast.walk(lp) if isinstance(n, ast.For) and isinstance(n.iter, ast.Call) and isinstance(n.iter.func, ast.Name) and n.iter.func.id == "zip"]
        if zl:
            za = [ast.unparse(a) for a in zl[0].iter.args]
            ok = za == [rv, f"{resvar}.state", f"{resvar}.action"]
            ctx.check(ok, "MC-3", fi, zl[0], "per-step samples zip (returns, states, actions) of one roll-out", "", f"zips {za}")
            tn = [e.id for e in zl[0].target.elts] if isinstance(zl[0].target, ast.Tuple) else []
            apps = [c2 for c2 in ast.walk(zl[0]) if isinstance(c2, ast.Call) and isinstance(c2.func, ast.Attribute) and c2.func.attr == "append"]
            for ap in apps:
                tgt = ast.unparse(ap.func.value)
                val = ast.unparse(ap.args[0])
                if len(tn) == 3:
                    if isinstance(ap.func.value, ast.Subscript) and isinstance(ap.func.value.value, ast.Subscript):
                        ok = tgt.endswith(f"[{tn[1]}][{tn[2]}]") and val == tn[0]
                    else:
                        ok = tgt.endswith(f"[{tn[1]}]") and val == tn[0]
                    ctx.check(ok, "MC-3", fi, ap, "return sample filed under its own state" + ("/action" if isinstance(ap.func.value.value, ast.Subscript) else ""), "", "a return sample is filed under the wrong state/action or a non-return is filed")
        else:
            ctx.unknown("MC-3", fi, lp, "per-step bookkeeping", "zip loop not found")
    else:
        ctx.unknown("MC-2", fi, lp, "returns of a roll-out", "calc_returns call not found")
    # reported numbers are means of exactly those lists; visits are count / n_simulations
    post = [n for n in fn_body_nodes(fi) if isinstance(n, ast.For) and isinstance(n.iter, ast.Call) and isinstance(n.iter.func, ast.Attribute)
            and n.iter.func.attr == "items" and not any(n is x for x in ast.walk(lp))]
    for n in post:
        src = ast.unparse(n.iter.func.value)
        tn = [e.id for e in n.target.elts] if isinstance(n.target, ast.Tuple) else []
        for st in n.body:
            if isinstance(st, ast.Assign) and isinstance(st.value, ast.Call) and ast.unparse(st.value.func).endswith("mean"):
                # np.mean(x) is normalised to x.mean() (canon.py): the averaged list is the receiver or the first argument
                f_ = st.value.func
                arg0 = ast.unparse(st.value.args[0]) if st.value.args else (ast.unparse(f_.value) if isinstance(f_, ast.Attribute) else "?")
                ok = len(tn) == 2 and arg0 == tn[1] and ast.unparse(st.targets[0]).endswith(f"[{tn[0]}]")
                ctx.check(ok, "MC-4", fi, st, "mean of its own samples" + (" (per action)" if isinstance(st.targets[0], ast.Subscript) and isinstance(st.targets[0].value, ast.Subscript) else " (per state)"), "", f"`{norm(st)}` averages samples of a different key")
            if isinstance(st, ast.AugAssign) and isinstance(st.value, ast.BinOp) and isinstance(st.value.op, ast.Div):
                ok = ast.unparse(st.value.right) == "n_simulations" and ast.unparse(st.value.left) == f"len({tn[1]})" if len(tn) == 2 else None
                ctx.check(ok, "MC-4", fi, st, "visit frequency = count / n_simulations", "", f"visit frequency computed as `{norm(st.value)}`")
    r = [n for n in fn_body_nodes(fi) if isinstance(n, ast.Return)]
    if r and isinstance(r[0].value, ast.Call):
        S = Snips(fi)
        # roles: the sample containers are identified by what is appended to them inside the roll-out loop
        ivs = S.find("ivs.append(rets[0])", within=lp)
        sv_app = S.find("svs[s].append(ret)", within=lp)
        av_app = S.find("avs[s][a].append(ret)", within=lp)
        ivn = ivs[0][1]["ivs"] if ivs else None
        svs = sv_app[0][1]["svs"] if sv_app else None
        avs = av_app[0][1]["avs"] if av_app else None
        iv = kwarg(r[0].value, "initial_value")
        e_ = S.m("np.mean(x)", iv) if iv is not None else None
        ctx.check(e_ is not None and ivn is not None and e_["x"] == ivn, "MC-4", fi, r[0], "initial_value = mean of the step-0 returns of the roll-outs", "",
                  f"initial_value is `{norm(iv) if iv is not None else None}`, not the mean of the list that collects each roll-out's first return")
        ns_ = kwarg(r[0].value, "n_simulations")
        ctx.check(ns_ is not None and ast.unparse(ns_) == "n_simulations", "MC-4", fi, r[0], "reports n_simulations", "", "reported simulation count is not the one used")
        # reported tables wrap the dictionaries filled from the matching sample containers
        for fld, ctor, depth, src in (("state_value", "StateTable.from_dict", 1, svs), ("action_value", "StateActionTable.from_dict", 2, avs)):
            fv = kwarg(r[0].value, fld)
            e_ = S.m(f"{ctor}(d, REST=ANY)", fv) if fv is not None else None
            if e_ is None or src is None:
                ctx.unknown("MC-4", fi, r[0], f"{fld} wraps the per-key means", "table constructor / sample container not recognised")
                continue
            pat_ = "d[k] = np.mean(x)" if depth == 1 else "d[k][k2] = np.mean(x)"
            sts = S.find(pat_, {"d": e_["d"]})
            good = False
            for st, e2 in sts:
                for lp2 in [l for l in ast.walk(fi.node) if isinstance(l, ast.For) and any(st is x for x in ast.walk(l))]:
                    it = S.m("for k_, x_ in src_.items():\n    REST", lp2) if depth == 1 else S.m("for k_, x_ in src_[k0_].items():\n    REST", lp2)
                    if it and it["x_"] == e2["x"] and it["src_"] == src and it["k_"] == (e2["k"] if depth == 1 else e2["k2"]):
                        good = True
            if sts:
                ctx.check(good, "MC-4", fi, sts[0][0], f"{fld}: each key's mean is over that key's own samples of the matching container", "",
                          f"the dictionary reported as `{fld}` is filled with means of a different sample container or under a different key")
            else:
                ctx.unknown("MC-4", fi, r[0], f"{fld} wraps the per-key means", "no mean store into the reported dictionary")


def rule_accessors(ctx: Ctx):
    C = ctx.P.cls("SimulationResult")
    for name, key in (("reward", "reward"), ("action", "action"), ("state", "state"), ("next_state", "next_state")):
        m = C.methods.get(name)
        if m is None:
            raise AnalysisError(f"SimulationResult.{name} vanished")
        gets = [c for c in ast.walk(m.node) if isinstance(c, ast.Call) and isinstance(c.func, ast.Attribute) and c.func.attr == "get"]
        ok = bool(gets) and isinstance(gets[0].args[0], ast.Constant) and gets[0].args[0].value == key
        ctx.check(ok, "ACC-1", m, m.node, f"SimulationResult.{name} reads step field '{key}'", "", f"accessor {name} reads field {norm(gets[0].args[0]) if gets else '?'}")
        comp = [c for c in ast.walk(m.node) if isinstance(c, ast.ListComp)]
        ok = bool(comp) and ast.unparse(comp[0].generators[0].iter) == "self.steps" and not comp[0].generators[0].ifs
        ctx.check(ok, "ACC-1", m, m.node, f"SimulationResult.{name} covers every step in order", "", "accessor skips or reorders steps")


def run(ctx: Ctx):
    G = CallGraph(ctx.P, ctx.X)
    mdp_rollout(ctx)
    pomdp_rollout(ctx)
    rule_evaluate(ctx)
    rule_accessors(ctx)
    fns = [f for f in ctx.P.all_functions() if f.module.name in ("msdm.core.mdp.policy", "msdm.core.pomdp.policy")]
    arg_permutation_rule(ctx, G, fns, "ARG")
    # generator threading inside the roll-out / evaluation functions (same rule as C13's RNG-2)
    from .c13 import RNG
    P = ctx.P
    r2 = RNG(ctx, fns=[P.method("mdp.policy.Policy", "run_on"), P.method("mdp.policy.Policy", "evaluate_on"),
                       P.method("POMDPPolicy", "run_on")])
    r2.rule_rng2()
    ctx.require("RNG-2", 8)
    for r, k in (("SIM-0", 5), ("SIM-1", 2), ("SIM-2", 3), ("SIM-3", 2), ("SIM-4", 4), ("SIM-5", 11), ("SIM-6", 5),
                 ("OBS-1", 4), ("MC-1", 4), ("MC-2", 2), ("MC-3", 3), ("MC-4", 5), ("ACC-1", 8), ("ARG", 4)):
        ctx.require(r, k)
    ctx.assume("Policy.calc_returns equals the backward recursion G_t = r_t + gamma*G_{t+1} (matrix identity, not decided here)")
    ctx.assume("Distribution.sample returns only positive-probability events (C11)")

"""C17 — R-MAX.  TEN-6 index spaces, SIM-1..4 training loop, SIM-8 count-limited model update, ALG-4 optimistic
constant, masked empirical backup, Q-dictionary labelling, greedy policy."""
from __future__ import annotations

import ast
import copy
from fractions import Fraction
from typing import Dict, List, Optional

from .. import alg, pat
from ..callgraph import CallGraph
from ..cfg import cfg_of
from ..model import FunctionInfo, AnalysisError
from ..report import Ctx
from ..util import posarg, cmp_views, norm, fn_body_nodes, kwarg
from .common import arg_permutation_rule, names_in, calls_named
from . import simloop as SL
from .c10 import depends_on

EXPLANATION = (
    "Structural necessary conditions of C17: every array is allocated with the extent of the list it is indexed through "
    "(index-space rule), the optimistic initial value normalises to rmax * 1/(1-gamma) for every pair, the model update admits "
    "exactly the first m samples of a pair (strict count guard) and increments the counter it tests, re-solving happens when a "
    "pair reaches the threshold, only pairs with count >= m are overwritten by the empirical backup R^ + gamma * P^ * max_a Q "
    "(unknown pairs are self-loops), the training loop follows the simulation protocol, the Q dictionary is labelled with "
    "state_list / action_list and the policy is greedy over exact maximisers. The bound Q <= rmax/(1-gamma) follows from the backup "
    "form by induction (recorded as an argument); Bellman consistency within tolerance at return time is not decided.")
RULES = ("TEN-6 allocation extent and index source use the same list; ALG-4 optimistic constant; SIM-8 count-limited update (strict guard, "
         "same counter, same indices, trigger at the threshold); VI-1 masked empirical backup; SIM-1..4 training loop; OBS-1 observation "
         "call carries this step; LAB-1 Q dictionary labels; POL-1 greedy policy; WIRE-1 train_on wiring")



# ------------------------------------------------------------------------------------------------------------------
# canonical spelling of an expression: every single-assignment temporary of the enclosing function is replaced by its
# defining expression, so a text comparison does not depend on which intermediate values the code chose to name.
def _top(fi: FunctionInfo) -> FunctionInfo:
    while getattr(fi, "parent", None) is not None:
        fi = fi.parent
    return fi


class _Inline(ast.NodeTransformer):
    def __init__(self, defs):
        self.defs = defs
        self.open: List[str] = []

    def visit_Name(self, n):
        if isinstance(n.ctx, ast.Load) and n.id in self.defs and n.id not in self.open and len(self.open) < 25:
            self.open.append(n.id)
            r = self.visit(copy.deepcopy(self.defs[n.id]))
            self.open.pop()
            return r
        return n


def expand(fi: FunctionInfo, node: ast.AST) -> ast.AST:
    """copy of `node` with the single-assignment locals of fi's outermost function inlined (recursively)."""
    return _Inline(pat.fn_defs(_top(fi).node)).visit(copy.deepcopy(node))


def canon(fi: FunctionInfo, node) -> Optional[str]:
    if node is None:
        return None
    if isinstance(node, str):
        node = ast.parse(node, mode="eval").body
    return pat.txt(expand(fi, node))


def defined_as(S: "pat.Snips", role: str, rhs: str, env):
    """(node, env) when the role is defined as `rhs` — by a statement `role = rhs`, or in place when the code did not name it."""
    cur = (env or {}).get(role)
    if isinstance(cur, pat.Virtual):
        e = S.m(rhs, cur.node, env)
        return (cur.node, e) if e is not None else (None, None)
    return S.first(f"V_{role} = {rhs}", env)


def run(ctx: Ctx):
    P = ctx.P
    G = CallGraph(P, ctx.X)
    C = P.cls("rmax.RMAX")
    init = C.methods["_init_training"]
    tr = C.methods["_training"]
    # ---------------- TEN-6 index spaces
    mdp_i = init.positional_params[1] if len(init.positional_params) > 1 else "mdp"
    Si = pat.Snips(init)
    src_i = {ast.unparse(n.targets[0]): n for n in fn_body_nodes(init) if isinstance(n, ast.Assign)}
    ns_def, na_def = src_i.get("self.n_states"), src_i.get("self.n_actions")

    def len_of(attr):
        n, e = Si.first(f"self.{attr} = len(E_l)")
        return canon(init, e["l"]) if e else None
    s_space, a_space = len_of("n_states"), len_of("n_actions")
    idx_calls = [c for c in ast.walk(tr.node) if isinstance(c, ast.Call) and isinstance(c.func, ast.Attribute) and c.func.attr == "index"]
    idx_lists = sorted({canon(tr, c.func.value) for c in idx_calls})
    ctx.check(s_space is not None and idx_lists == [s_space], "TEN-6", init, ns_def if ns_def is not None else init.node,
              f"state axis extent len({s_space}) matches the list states are indexed through {idx_lists}", "",
              f"state arrays are allocated with len({s_space}) rows but indexed with positions in {idx_lists}: when the two collections differ in size "
              f"(e.g. unreachable states in the state list) indexing goes out of bounds or aliases states")
    St = pat.Snips(tr)
    ia = St.find("V_m = dict(enumerate(E_l))")
    dec = canon(tr, ia[0][1]["l"]) if ia else None
    ok = bool(ia) and a_space is not None and dec == a_space
    ctx.check(ok, "TEN-6", tr, ia[0][0] if ia else tr.node, f"action indices are positions in {a_space}, the list the action axis was sized by", "",
              f"action axis is sized by len({a_space}) but action indices are decoded with `dict(enumerate({dec}))`")
    shapes = {"self.rewards": ["n_states", "n_actions"], "self.transitions": ["n_states", "n_actions", "n_states"], "self.s_a_counts": ["n_states", "n_actions"]}
    for var, want in shapes.items():
        n = src_i.get(var)
        _, e = Si.first(f"{var} = ANY(E_shape, REST, REST=ANY)")
        shp = expand(init, e["shape"]) if e else None
        got = [pat.txt(x).replace("self.", "") for x in shp.elts] if isinstance(shp, ast.Tuple) else None
        ctx.check(got == want, "TEN-6", init, n if n is not None else init.node, f"{var} allocated as {want}", "", f"`{var}` is allocated with shape {got}")
    # ---------------- ALG-4 optimistic constant
    qd = src_i.get("self.q_matrix")
    if qd is not None:
        p = alg.normalise(expand(init, qd.value))
        mons = list(p.items())
        ok = len(mons) == 1 and mons[0][1] == 1
        atoms = dict(mons[0][0]) if ok else {}
        ones = [k for k in atoms if k.startswith("np.ones(")]
        disc = [k for k in atoms if f"1 - {mdp_i}.discount_rate" in k.replace("(", "").replace(")", "") or f"1-{mdp_i}.discount_rate" in k]
        ok = ok and len(ones) == 1 and atoms.get("self.rmax") == 1 and len(disc) == 1 and len(atoms) == 3 and "(self.n_states, self.n_actions)" in ones[0]
        ok = ok and (disc[0].startswith("1/") or atoms[disc[0]] == -1)
        ctx.check(ok, "ALG-4", init, qd, "initial Q = rmax * 1/(1 - gamma) for every (state, action)", alg.show(p), f"initial Q normalises to `{alg.show(p)}`")
    else:
        ctx.violation("ALG-4", init, init.node, "optimistic initialisation", "q_matrix is not initialised")
    asserts = [a for a in fn_body_nodes(init) if isinstance(a, ast.Assert)]
    ok = any(Si.m(f"self.rmax == np.max({mdp_i}.reward_matrix)", a.test) is not None for a in asserts)
    ctx.check(ok, "ALG-4", init, asserts[0] if asserts else init.node, "rmax is asserted to be the maximum reward", "", "the rmax precondition is no longer asserted")
    # ---------------- SIM-8 count-limited update
    ob = C.methods["_observe"]
    st, ac, rw, nx = ob.positional_params[1:5]
    ifs = [n for n in ob.node.body if isinstance(n, ast.If)]
    if not ifs:
        ctx.violation("SIM-8", ob, ob.node, "count guard", "the model update is not guarded by the sample count")
    else:
        g = ifs[0]
        t = expand(ob, g.test)
        cnt = f"self.s_a_counts[{st}, {ac}]"
        views = cmp_views(t)
        ok_shape = any(l == cnt and r == "self.m" for l, op, r in views)
        ctx.check((cnt, "<", "self.m") in views, "SIM-8", ob, g, "samples are admitted only while count < m (strictly)", norm(t),
                  f"guard `{norm(t)}` admits more than the first m samples of a pair into the empirical model" if ok_shape else f"guard is `{norm(t)}`")
        incs = {canon(ob, n.target): n for n in g.body if isinstance(n, ast.AugAssign) and isinstance(n.op, ast.Add)}
        c = incs.get(cnt)
        ctx.check(c is not None and canon(ob, c.value) == "1", "SIM-8", ob, c if c is not None else g, "the tested counter is incremented by 1 for the same (state, action)", "",
                  "the counter that is tested is not the one incremented (or not by 1)")
        r = incs.get(f"self.rewards[{st}, {ac}]")
        ctx.check(r is not None and canon(ob, r.value) == rw, "SIM-8", ob, r if r is not None else g, "reward sum accumulates this step's reward", "", "reward accumulation changed")
        tt = incs.get(f"self.transitions[{st}, {ac}, {nx}]")
        ctx.check(tt is not None and canon(ob, tt.value) == "1", "SIM-8", ob, tt if tt is not None else g, "transition count of (state, action, next_state) incremented", "", "transition counting changed")
        trig = [n for n in g.body if isinstance(n, ast.If)]
        ok = bool(trig) and (cnt, "==", "self.m") in cmp_views(expand(ob, trig[0].test)) and any(
            isinstance(x, ast.Call) and pat.txt(x.func) == "self._value_iteration" for x in ast.walk(trig[0]))
        ctx.check(ok, "SIM-8", ob, trig[0] if trig else g, "the model is re-solved exactly when a pair reaches the threshold", "", "re-solve trigger changed")
        if trig and c is not None:
            ctx.check(g.body.index(trig[0]) > g.body.index(c), "SIM-8", ob, trig[0], "threshold test follows the increment", "", "threshold is tested before the count is incremented")
    # ---------------- VI-1 masked empirical backup (roles bound by patterns, definitions first: a role the code did not name is
    # bound to the expression itself, so named / further extracted / inlined spellings are the same to the rule)
    vi = C.methods["_value_iteration"]
    gam = vi.positional_params[1] if len(vi.positional_params) > 1 else "gamma"
    Sv = pat.Snips(vi)
    stmts = Sv.stmts
    MASK, VMAX, REW = "self.s_a_counts >= self.m", "np.max(self.q_matrix, axis=-1)", "self.rewards / V_cnt"
    TRANS = "self.transitions / V_cnt[:, :, None]"
    BACKUP = f"V_newq = V_R + {gam} * np.einsum(E_spec, V_P, V_v)"
    mn, me = Sv.first(f"V_mask = {MASK}")
    ctx.check(mn is not None, "VI-1", vi, mn if mn is not None else vi.node, "known pairs: count >= m", "", "mask of known pairs (count >= m) not found")
    env_m = dict(me or {})
    env = dict(env_m)
    for role, rhs in (("cnt", "np.where(self.s_a_counts == 0, 1, self.s_a_counts)"), ("v", VMAX), ("R", REW), ("P", TRANS)):
        _, e = Sv.first(f"V_{role} = {rhs}", env)
        if e:
            env = e
    STORE = "self.q_matrix[V_mask] = V_newq[V_mask]"
    sol = Sv.solve([BACKUP, STORE], env) or Sv.solve([BACKUP, STORE], env_m)    # second form: roles read off the backup itself, so that
    if sol is not None:                                                         # a wrong definition is diagnosed below
        be, (bn, qn) = sol
        env = dict(be)
    else:
        bn = be = None
        qn, qe = Sv.first(STORE, env_m)
        env = dict(qe or env_m)
    q_stores = [n for n in stmts if isinstance(n, (ast.Assign, ast.AugAssign)) and "self.q_matrix" in ast.unparse(n.targets[0] if isinstance(n, ast.Assign) else n.target)]
    if qn is None and q_stores:
        ctx.violation("VI-1", vi, q_stores[0], "only known pairs are overwritten (mask on both sides)",
                      f"`{norm(q_stores[0])}` also overwrites pairs tried fewer than m times (they must keep the optimistic value)")
    else:
        ctx.check(qn is not None, "VI-1", vi, qn if qn is not None else vi.node, "only known pairs are overwritten (mask on both sides)", "", "no masked store into the Q matrix")
    other = [n for n in q_stores if n is not qn]
    ctx.check(not other, "VI-1", vi, other[0] if other else vi.node, "no other store into q_matrix", "", f"`{norm(other[0]) if other else ''}` writes Q outside the mask")
    # the value that is stored: the backup matched above, else whatever defines the stored name
    nq = bn
    if nq is None and isinstance(env.get("newq"), str):
        nq = next((n for n in stmts if isinstance(n, ast.Assign) and isinstance(n.targets[0], ast.Name) and n.targets[0].id == env["newq"]), None)
    if nq is not None:
        p_ = alg.normalise(expand(vi, nq.value if isinstance(nq, ast.Assign) else nq))
        ctx.check(bn is not None, "VI-1", vi, nq, "backup = R^ + gamma * (P^ . max_a Q)", alg.show(p_), f"backup normalises to `{alg.show(p_)}`")
        if bn is not None:
            env = be
            spec = expand(vi, be["spec"])
            ok = isinstance(spec, ast.Constant) and str(spec.value).replace(" ", "") == "san,n->sa"
            ctx.check(ok, "VI-1", vi, nq, "future term contracts the successor axis of P^ with the state values", "", f"future term contracts `{pat.txt(spec)}`")
            vn, _ = defined_as(Sv, "v", VMAX, env)
            ctx.check(vn is not None, "VI-1", vi, vn if vn is not None else nq, "state value = max over actions of Q", "", "state values are not max_a Q")
            rn, re_ = defined_as(Sv, "R", REW, env)
            ctx.check(rn is not None, "VI-1", vi, rn if rn is not None else nq, "R^ = reward sum / count", "", "empirical reward changed")
            if re_:
                env = re_
            tn, _ = defined_as(Sv, "P", TRANS, env)
            ctx.check(tn is not None, "VI-1", vi, tn if tn is not None else nq, "P^ = transition counts / count", "", "empirical transition model changed")
            sn, _ = Sv.first("V_P[~V_mask] = self._self_transition_mat[~V_mask]", env)
            ctx.check(sn is not None, "VI-1", vi, sn if sn is not None else nq, "unknown pairs are self-loops", "", "unknown pairs are not modelled as self-loops")
    else:
        ctx.unknown("VI-1", vi, vi.node, "empirical backup", "definition of the new Q not found")
    brk = [n for n in ast.walk(vi.node) if isinstance(n, ast.If) and any(isinstance(b, ast.Break) for b in n.body)]
    ok = bool(brk) and Sv.m("np.all(np.abs(self.q_matrix[V_mask] - V_newq[V_mask]) < self.bellman_convergence_diff)", brk[0].test, env) is not None
    ctx.check(ok, "VI-1", vi, brk[0] if brk else vi.node, "re-solve stops when all known pairs changed by less than the configured tolerance", "", "stop rule of the re-solve changed")
    stm = C.methods["_self_transition_mat"]
    sn2, _ = pat.Snips(stm).first("V_m[np.arange(self.n_states), :, np.arange(self.n_states)] = 1")
    ctx.check(sn2 is not None, "VI-1", stm, stm.node, "self-loop tensor: P(s | s, a) = 1", "", "self-loop tensor changed")
    # ---------------- training loop
    loops = SL.find_loops(tr)
    if len(loops) != 1:
        raise AnalysisError("RMAX._training: simulation loop not found")
    L = loops[0]
    SL.sim1_absorbing_guard(ctx, L)
    cfg = cfg_of(tr)
    for d in cfg.reaching(cfg.node_for(L.sample_stmt), L.a):
        ok = d.value is not None and depends_on(tr, d.stmt, d.value, L.s)
        ctx.check(ok, "SIM-2", tr, d.stmt, f"action `{L.a}` chosen at the current state", "", "action is not chosen at the current state")
    Sl = pat.Snips(tr, literals=[x for x in (L.s, L.ns, L.a) if x])
    s_idx, ns_idx = f"{L.model}.state_list.index({L.s})", f"{L.model}.state_list.index({L.ns})"
    act = [c for c in ast.walk(L.loop) if isinstance(c, ast.Call) and ast.unparse(c.func) == "self._act"]
    ok = bool(act) and Sl.m(f"self._act({s_idx}, REST, REST=ANY)", act[0]) is not None
    ctx.check(ok, "SIM-2", tr, act[0] if act else L.loop, "action selection reads the Q row of the current state's index", "", "_act is not given the current state's index")
    rvar = SL.sim3_reward_args(ctx, L)
    SL.sim4_advance(ctx, L, must_follow=("_observe", "end_of_timestep"))
    obs = [c for c in ast.walk(L.loop) if isinstance(c, ast.Call) and ast.unparse(c.func) == "self._observe"]
    if obs:
        args4 = [posarg(obs[0], i) for i in range(4)]       # by parameter, positional or keyword
        got = [ast.unparse(a) if a is not None else "?" for a in args4]
        ai = next((d.var for d in cfg.defs if d.stmt in [n for n in L.body] and d.value is not None and "_act" in ast.unparse(d.value)), None)
        want = [s_idx, ai or (ast.unparse(act[0]) if act else "ai"), rvar or f"{L.model}.reward({L.s}, {ast.unparse(L.a_expr)}, {L.ns})", ns_idx]
        ok = all(a is not None for a in args4) and [canon(tr, a) for a in args4] == [canon(tr, w) for w in want]      # compared with temporaries expanded on both sides
        ctx.check(ok, "OBS-1", tr, obs[0], f"_observe({', '.join(want)})", "", f"the model is updated with ({', '.join(got)}), not with this step's (state, action, reward, successor)")
        gm = kwarg(obs[0], "gamma")
        ctx.check(gm is not None and canon(tr, gm) == f"{L.model}.discount_rate", "OBS-1", tr, obs[0], "re-solve uses the MDP's discount rate", "", "discount passed to the re-solve is not the MDP's")
    else:
        ctx.violation("OBS-1", tr, L.loop, "model update per step", "the experienced step is never fed to the model")
    rets = [n for n in fn_body_nodes(tr) if isinstance(n, ast.Return)]
    ctx.check(bool(rets) and canon(tr, rets[0].value) == "self.q_matrix", "WIRE-1", tr, rets[0] if rets else tr.node, "training returns the learned Q matrix", "", "training returns something else")
    # ---------------- labels
    cq = C.methods["_create_q"]
    qm, mdp_p = cq.positional_params[1:3]
    Sq = pat.Snips(cq)
    LABEL = f"V_q[V_s][V_a] = {qm}[V_si, V_ai]"
    sol = Sq.solve([f"V_i2s = dict(enumerate({mdp_p}.state_list))", f"V_i2a = dict(enumerate({mdp_p}.action_list))",
                    "V_s = V_i2s[V_si]", "V_a = V_i2a[V_ai]", LABEL])
    st_ = sol[1][-1] if sol else Sq.first(LABEL)[0]
    ctx.check(sol is not None, "LAB-1", cq, st_ if st_ is not None else cq.node, "q[state_list[i]][action_list[j]] = q_matrix[i, j]", "", "Q dictionary labelling changed")
    ok = False
    if sol is not None:
        env = sol[0]
        l0 = [n for n in ast.walk(cq.node) if isinstance(n, ast.For) and isinstance(n.target, ast.Name)]
        rows = [n for n in l0 if n.target.id == env["si"]]
        cols = [n for n in l0 if n.target.id == env["ai"]]
        ok = bool(rows) and bool(cols) and all(Sq.m(f"range({qm}.shape[0])", n.iter) is not None for n in rows) \
            and all(Sq.m(f"range({qm}.shape[1])", n.iter) is not None for n in cols)
    ctx.check(ok, "LAB-1", cq, cq.node, "rows iterate axis 0, columns axis 1", "", "label loops iterate the wrong axes")
    # ---------------- policy and wiring
    cp = C.methods["_create_policy"]
    pol = list(cp.nested.values())
    if pol:
        f = pol[0]
        sp = f.positional_params[0]
        qp = cp.positional_params[2]
        Sp = pat.Snips(f, literals=[sp])
        MAXQ = "V_maxq = max(V_row.values())"
        sol = Sp.solve([f"V_row = {qp}[{sp}]", MAXQ, "[V_a for V_a in V_row.keys() if V_row[V_a] == V_maxq]"]) \
            or Sp.solve([f"V_row = {qp}[{sp}]", MAXQ, "[V_a for V_a, V_v in V_row.items() if V_v == V_maxq]"])
        mx = sol[1][1] if sol else Sp.first(MAXQ)[0]
        ctx.check(sol is not None, "POL-1", f, mx if mx is not None else f.node, "greedy policy: exact maximisers of the state's Q row", "", "greedy set is not {a : Q[s][a] == max Q[s]}")
        rets = [r for r in ast.walk(f.node) if isinstance(r, ast.Return)]
        ctx.check(bool(rets) and all(Sp.m("ANY.uniform(REST, REST=ANY)", r.value) is not None for r in rets), "POL-1", f, f.node, "uniform over the greedy set", "", "policy is not uniform over the greedy set")
        hs = [h for h in ast.walk(f.node) if isinstance(h, ast.ExceptHandler)]
        ok = bool(hs) and Sp.has(f"V_x = {cp.positional_params[1]}.actions({sp})", within=hs[0])
        ctx.check(ok, "POL-1", f, hs[0] if hs else f.node, "unknown states: all available actions", "", "fallback changed")
    else:
        ctx.violation("POL-1", cp, cp.node, "greedy policy closure", "policy closure vanished")
    to = C.methods["train_on"]
    mp_ = to.positional_params[1]
    So = pat.Snips(to)
    sol = So.solve([f"V_qm = self._training({mp_}, V_rng, V_el)", f"V_q = self._create_q(V_qm, {mp_})"])
    rets = [n for n in fn_body_nodes(to) if isinstance(n, ast.Return)]
    ok = sol is not None and bool(rets) and So.m(f"ANY(q_values=V_q, policy=self._create_policy({mp_}, V_q), REST=ANY)", rets[0].value, sol[0]) is not None
    ctx.check(ok, "WIRE-1", to, to.node, "train_on: Q dictionary and policy are built from the trained matrix", "", "train_on wiring changed")
    where = {nm: sorted((c.lineno, c.col_offset) for c in ast.walk(to.node) if isinstance(c, ast.Call) and pat.txt(c.func) == nm)
             for nm in ("self._init_training", "self._training")}
    ok = bool(where["self._init_training"]) and bool(where["self._training"]) and where["self._init_training"][0] < where["self._training"][0]
    ctx.check(ok, "WIRE-1", to, to.node, "model is initialised before training", "", "initialisation order changed")
    actf = C.methods["_act"]
    stp, rngp = actf.positional_params[1:3]
    Sa = pat.Snips(actf)
    ok = Sa.has(f"{rngp}.choice(range(self.n_actions))") and Sa.has(f"np.argmax(self.q_matrix[{stp}])")
    ctx.check(ok, "POL-1", actf, actf.node, "behaviour: greedy in the current Q row, random among all actions on full ties", "", "behaviour policy changed")
    arg_permutation_rule(ctx, G, [x for x in P.all_functions() if x.module.name == "msdm.algorithms.rmax"], "ARG")
    for rr, k in (("TEN-6", 5), ("ALG-4", 2), ("SIM-8", 6), ("VI-1", 10), ("SIM-1", 1), ("SIM-2", 2), ("SIM-3", 1), ("SIM-4", 2), ("OBS-1", 2),
                  ("LAB-1", 2), ("POL-1", 3), ("WIRE-1", 3)):
        ctx.require(rr, k)
    ctx.assume("induction on the backup form: with rmax = max R, Q <= rmax/(1-gamma) is preserved by R^ + gamma * P^ * max Q (argument, not checked)")

"""C17 — R-MAX.  TEN-6 index spaces, SIM-1..4 training loop, SIM-8 count-limited model update, ALG-4 optimistic
constant, masked empirical backup, Q-dictionary labelling, greedy policy."""
from __future__ import annotations

import ast
from fractions import Fraction
from typing import Dict, List, Optional

from .. import alg, pat
from ..callgraph import CallGraph
from ..cfg import cfg_of
from ..model import FunctionInfo, AnalysisError
from ..report import Ctx
from ..util import cmp_views, norm, fn_body_nodes, kwarg
from .common import arg_permutation_rule, names_in, calls_named
from . import simloop as SL
from .c10 import depends_on

EXPLANATION = (
    "Structural necessary conditions of C17: every array is allocated with the extent of the list it is indexed through "
    "(index-space rule), the optimistic initial value normalises to rmax * 1/(1-gamma) for every pair, the model update admits "
    "exactly the first m samples of a pair (strict count guard) and increments the counter it tests, re-solving happens when a "
    "pair reaches the threshold, only pairs with count >= m are overwritten by the empirical backup R^ + gamma * P^ * max_a Q "
    "(unknown pairs are self-loops), the training loop follows the simulation protocol, the Q dictionary is labelled with "
    "state_list / action_list and the policy is greedy over exact maximisers. The bound Q <= rmax/(1-gamma) follows from the backup "
    "form by induction (recorded as an argument); Bellman consistency within tolerance at return time is not decided.")
RULES = ("TEN-6 allocation extent and index source use the same list; ALG-4 optimistic constant; SIM-8 count-limited update (strict guard, "
         "same counter, same indices, trigger at the threshold); VI-1 masked empirical backup; SIM-1..4 training loop; OBS-1 observation "
         "call carries this step; LAB-1 Q dictionary labels; POL-1 greedy policy; WIRE-1 train_on wiring")


def run(ctx: Ctx):
    P = ctx.P
    G = CallGraph(P, ctx.X)
    C = P.cls("rmax.RMAX")
    init = C.methods["_init_training"]
    tr = C.methods["_training"]
    # ---------------- TEN-6 index spaces
    src_i = {ast.unparse(n.targets[0]): n for n in fn_body_nodes(init) if isinstance(n, ast.Assign)}
    ns_def, na_def = src_i.get("self.n_states"), src_i.get("self.n_actions")

    def len_of(n):
        if n is not None and isinstance(n.value, ast.Call) and isinstance(n.value.func, ast.Name) and n.value.func.id == "len":
            return ast.unparse(n.value.args[0])
        return None
    s_space, a_space = len_of(ns_def), len_of(na_def)
    idx_calls = [c for c in ast.walk(tr.node) if isinstance(c, ast.Call) and isinstance(c.func, ast.Attribute) and c.func.attr == "index"]
    idx_lists = sorted({ast.unparse(c.func.value) for c in idx_calls})
    ctx.check(s_space is not None and idx_lists == [s_space], "TEN-6", init, ns_def if ns_def is not None else init.node,
              f"state axis extent len({s_space}) matches the list states are indexed through {idx_lists}", "",
              f"state arrays are allocated with len({s_space}) rows but indexed with positions in {idx_lists}: when the two collections differ in size "
              f"(e.g. unreachable states in the state list) indexing goes out of bounds or aliases states")
    ia = [n for n, _ in pat.find(tr.node, "V_m = dict(enumerate(E_l))")]
    ok = bool(ia) and a_space is not None and ast.unparse(ia[0].value) == f"dict(enumerate({a_space}))"
    ctx.check(ok, "TEN-6", tr, ia[0] if ia else tr.node, f"action indices are positions in {a_space}, the list the action axis was sized by", "",
              f"action axis is sized by len({a_space}) but action indices are decoded with `{ast.unparse(ia[0].value) if ia else None}`")
    shapes = {"self.rewards": ["n_states", "n_actions"], "self.transitions": ["n_states", "n_actions", "n_states"], "self.s_a_counts": ["n_states", "n_actions"]}
    for var, want in shapes.items():
        n = src_i.get(var)
        got = [ast.unparse(e).replace("self.", "") for e in n.value.args[0].elts] if n is not None and isinstance(n.value, ast.Call) and n.value.args and isinstance(n.value.args[0], ast.Tuple) else None
        ctx.check(got == want, "TEN-6", init, n if n is not None else init.node, f"{var} allocated as {want}", "", f"`{var}` is allocated with shape {got}")
    # ---------------- ALG-4 optimistic constant
    qd = src_i.get("self.q_matrix")
    if qd is not None:
        p = alg.normalise(qd.value)
        mons = list(p.items())
        ok = len(mons) == 1 and mons[0][1] == 1
        atoms = dict(mons[0][0]) if ok else {}
        ones = [k for k in atoms if k.startswith("np.ones(")]
        disc = [k for k in atoms if "1 - mdp.discount_rate" in k.replace("(", "").replace(")", "") or "1-mdp.discount_rate" in k]
        ok = ok and len(ones) == 1 and atoms.get("self.rmax") == 1 and len(disc) == 1 and len(atoms) == 3 and "(self.n_states, self.n_actions)" in ones[0]
        ok = ok and (disc[0].startswith("1/") or atoms[disc[0]] == -1)
        ctx.check(ok, "ALG-4", init, qd, "initial Q = rmax * 1/(1 - gamma) for every (state, action)", alg.show(p), f"initial Q normalises to `{alg.show(p)}`")
    else:
        ctx.violation("ALG-4", init, init.node, "optimistic initialisation", "q_matrix is not initialised")
    asserts = [a for a in fn_body_nodes(init) if isinstance(a, ast.Assert)]
    ok = any(ast.unparse(a.test).replace(" ", "") == "self.rmax==np.max(mdp.reward_matrix)" for a in asserts)
    ctx.check(ok, "ALG-4", init, asserts[0] if asserts else init.node, "rmax is asserted to be the maximum reward", "", "the rmax precondition is no longer asserted")
    # ---------------- SIM-8 count-limited update
    ob = C.methods["_observe"]
    st, ac, rw, nx = ob.positional_params[1:5]
    ifs = [n for n in ob.node.body if isinstance(n, ast.If)]
    if not ifs:
        ctx.violation("SIM-8", ob, ob.node, "count guard", "the model update is not guarded by the sample count")
    else:
        g = ifs[0]
        t = g.test
        cnt = f"self.s_a_counts[{st}, {ac}]"
        views = cmp_views(t)
        ok_shape = any(l == cnt and r == "self.m" for l, op, r in views)
        ctx.check((cnt, "<", "self.m") in views, "SIM-8", ob, g, "samples are admitted only while count < m (strictly)", norm(t),
                  f"guard `{norm(t)}` admits more than the first m samples of a pair into the empirical model" if ok_shape else f"guard is `{norm(t)}`")
        incs = {ast.unparse(n.target): n for n in g.body if isinstance(n, ast.AugAssign) and isinstance(n.op, ast.Add)}
        c = incs.get(f"self.s_a_counts[{st}, {ac}]")
        ctx.check(c is not None and ast.unparse(c.value) == "1", "SIM-8", ob, c if c is not None else g, "the tested counter is incremented by 1 for the same (state, action)", "",
                  "the counter that is tested is not the one incremented (or not by 1)")
        r = incs.get(f"self.rewards[{st}, {ac}]")
        ctx.check(r is not None and ast.unparse(r.value) == rw, "SIM-8", ob, r if r is not None else g, "reward sum accumulates this step's reward", "", "reward accumulation changed")
        tt = incs.get(f"self.transitions[{st}, {ac}, {nx}]")
        ctx.check(tt is not None and ast.unparse(tt.value) == "1", "SIM-8", ob, tt if tt is not None else g, "transition count of (state, action, next_state) incremented", "", "transition counting changed")
        trig = [n for n in g.body if isinstance(n, ast.If)]
        ok = bool(trig) and (f"self.s_a_counts[{st}, {ac}]", "==", "self.m") in cmp_views(trig[0].test) and "self._value_iteration(" in ast.unparse(trig[0])
        ctx.check(ok, "SIM-8", ob, trig[0] if trig else g, "the model is re-solved exactly when a pair reaches the threshold", "", "re-solve trigger changed")
        if trig and c is not None:
            ctx.check(g.body.index(trig[0]) > g.body.index(c), "SIM-8", ob, trig[0], "threshold test follows the increment", "", "threshold is tested before the count is incremented")
    # ---------------- VI-1 masked empirical backup (patterns with metavariables: independent of local names)
    vi = C.methods["_value_iteration"]
    gam = vi.positional_params[1] if len(vi.positional_params) > 1 else "gamma"
    stmts = [n for n in ast.walk(vi.node) if isinstance(n, ast.stmt)]
    mn, me = pat.first(vi.node, "V_mask = self.s_a_counts >= self.m", nodes=stmts)
    ctx.check(mn is not None, "VI-1", vi, mn if mn is not None else vi.node, "known pairs: count >= m", "", "mask of known pairs (count >= m) not found")
    env = dict(me or {})
    qn, qe = pat.first(vi.node, "self.q_matrix[V_mask] = V_newq[V_mask]", env, nodes=stmts)
    q_stores = [n for n in stmts if isinstance(n, (ast.Assign, ast.AugAssign)) and "self.q_matrix" in ast.unparse(n.targets[0] if isinstance(n, ast.Assign) else n.target)]
    if qn is None and q_stores:
        ctx.violation("VI-1", vi, q_stores[0], "only known pairs are overwritten (mask on both sides)",
                      f"`{norm(q_stores[0])}` also overwrites pairs tried fewer than m times (they must keep the optimistic value)")
    else:
        ctx.check(qn is not None, "VI-1", vi, qn if qn is not None else vi.node, "only known pairs are overwritten (mask on both sides)", "", "no masked store into the Q matrix")
    other = [n for n in q_stores if n is not qn]
    ctx.check(not other, "VI-1", vi, other[0] if other else vi.node, "no other store into q_matrix", "", f"`{norm(other[0]) if other else ''}` writes Q outside the mask")
    env = dict(qe or env)
    newq = env.get("newq")
    nq = next((n for n in stmts if isinstance(n, ast.Assign) and isinstance(n.targets[0], ast.Name) and n.targets[0].id == newq), None) if newq else None
    if nq is not None:
        bn, be = pat.first(nq, f"V_newq = V_R + {gam} * np.einsum(E_spec, V_P, V_v)", env, nodes=[nq])
        p_ = alg.normalise(nq.value)
        ctx.check(bn is not None, "VI-1", vi, nq, "backup = R^ + gamma * (P^ . max_a Q)", alg.show(p_), f"backup normalises to `{alg.show(p_)}`")
        if bn is not None:
            env = be
            spec = be["spec"]
            ok = isinstance(spec, ast.Constant) and str(spec.value).replace(" ", "") == "san,n->sa"
            ctx.check(ok, "VI-1", vi, nq, "future term contracts the successor axis of P^ with the state values", "", f"future term contracts `{pat.txt(spec)}`")
            vn, _ = pat.first(vi.node, "V_v = np.max(self.q_matrix, axis=-1)", env, nodes=stmts)
            ctx.check(vn is not None, "VI-1", vi, vn if vn is not None else nq, "state value = max over actions of Q", "", "state values are not max_a Q")
            rn, re_ = pat.first(vi.node, "V_R = self.rewards / V_cnt", env, nodes=stmts)
            ctx.check(rn is not None, "VI-1", vi, rn if rn is not None else nq, "R^ = reward sum / count", "", "empirical reward changed")
            if re_:
                env = re_
            tn, _ = pat.first(vi.node, "V_P = self.transitions / V_cnt[:, :, None]", env, nodes=stmts)
            ctx.check(tn is not None, "VI-1", vi, tn if tn is not None else nq, "P^ = transition counts / count", "", "empirical transition model changed")
            sn, _ = pat.first(vi.node, "V_P[~V_mask] = self._self_transition_mat[~V_mask]", env, nodes=stmts)
            ctx.check(sn is not None, "VI-1", vi, sn if sn is not None else nq, "unknown pairs are self-loops", "", "unknown pairs are not modelled as self-loops")
    else:
        ctx.unknown("VI-1", vi, vi.node, "empirical backup", "definition of the new Q not found")
    brk = [n for n in ast.walk(vi.node) if isinstance(n, ast.If) and any(isinstance(b, ast.Break) for b in n.body)]
    ok = bool(brk) and pat.m("np.all(np.abs(self.q_matrix[V_mask] - V_newq[V_mask]) < self.bellman_convergence_diff)", brk[0].test, env) is not None
    ctx.check(ok, "VI-1", vi, brk[0] if brk else vi.node, "re-solve stops when all known pairs changed by less than the configured tolerance", "", "stop rule of the re-solve changed")
    stm = C.methods["_self_transition_mat"]
    sn2, _ = pat.first(stm.node, "V_m[np.arange(self.n_states), :, np.arange(self.n_states)] = 1")
    ctx.check(sn2 is not None, "VI-1", stm, stm.node, "self-loop tensor: P(s | s, a) = 1", "", "self-loop tensor changed")
    # ---------------- training loop
    loops = SL.find_loops(tr)
    if len(loops) != 1:
        raise AnalysisError("RMAX._training: simulation loop not found")
    L = loops[0]
    SL.sim1_absorbing_guard(ctx, L)
    cfg = cfg_of(tr)
    for d in cfg.reaching(cfg.node_for(L.sample_stmt), L.a):
        ok = d.value is not None and depends_on(tr, d.stmt, d.value, L.s)
        ctx.check(ok, "SIM-2", tr, d.stmt, f"action `{L.a}` chosen at the current state", "", "action is not chosen at the current state")
    act = [c for c in ast.walk(L.loop) if isinstance(c, ast.Call) and ast.unparse(c.func) == "self._act"]
    ok = bool(act) and ast.unparse(act[0].args[0]) == f"{L.model}.state_list.index({L.s})"
    ctx.check(ok, "SIM-2", tr, act[0] if act else L.loop, "action selection reads the Q row of the current state's index", "", "_act is not given the current state's index")
    rvar = SL.sim3_reward_args(ctx, L)
    SL.sim4_advance(ctx, L, must_follow=("_observe", "end_of_timestep"))
    obs = [c for c in ast.walk(L.loop) if isinstance(c, ast.Call) and ast.unparse(c.func) == "self._observe"]
    if obs:
        got = [ast.unparse(a) for a in obs[0].args]
        ai = next((d.var for d in cfg.defs if d.stmt in [n for n in L.body] and d.value is not None and "_act" in ast.unparse(d.value)), "ai")
        want = [f"{L.model}.state_list.index({L.s})", ai, rvar, f"{L.model}.state_list.index({L.ns})"]
        ctx.check(got == want, "OBS-1", tr, obs[0], f"_observe({', '.join(want)})", "", f"the model is updated with ({', '.join(got)}), not with this step's (state, action, reward, successor)")
        gm = kwarg(obs[0], "gamma")
        ctx.check(gm is not None and ast.unparse(gm) == f"{L.model}.discount_rate", "OBS-1", tr, obs[0], "re-solve uses the MDP's discount rate", "", "discount passed to the re-solve is not the MDP's")
    else:
        ctx.violation("OBS-1", tr, L.loop, "model update per step", "the experienced step is never fed to the model")
    rets = [n for n in fn_body_nodes(tr) if isinstance(n, ast.Return)]
    ctx.check(bool(rets) and ast.unparse(rets[0].value) == "self.q_matrix", "WIRE-1", tr, rets[0] if rets else tr.node, "training returns the learned Q matrix", "", "training returns something else")
    # ---------------- labels
    cq = C.methods["_create_q"]
    qm, mdp_p = cq.positional_params[1:3]
    s_map, e1 = pat.first(cq.node, f"V_i2s = dict(enumerate({mdp_p}.state_list))")
    a_map, e2 = pat.first(cq.node, f"V_i2a = dict(enumerate({mdp_p}.action_list))")
    env = dict(e1 or {}); env.update(e2 or {})
    st_, e3 = pat.first(cq.node, f"V_q[V_s][V_a] = {qm}[V_si, V_ai]", env)
    ok = s_map is not None and a_map is not None and st_ is not None
    if ok:
        env = e3
        ok = pat.first(cq.node, "V_s = V_i2s[V_si]", env)[0] is not None and pat.first(cq.node, "V_a = V_i2a[V_ai]", env)[0] is not None
    ctx.check(ok, "LAB-1", cq, st_ if st_ is not None else cq.node, "q[state_list[i]][action_list[j]] = q_matrix[i, j]", "", "Q dictionary labelling changed")
    ok = False
    if st_ is not None:
        l0 = [n for n in ast.walk(cq.node) if isinstance(n, ast.For) and isinstance(n.target, ast.Name)]
        rng_ = {n.target.id: ast.unparse(n.iter).replace(" ", "") for n in l0}
        ok = rng_.get(env["si"]) == f"range({qm}.shape[0])" and rng_.get(env["ai"]) == f"range({qm}.shape[1])"
    ctx.check(ok, "LAB-1", cq, cq.node, "rows iterate axis 0, columns axis 1", "", "label loops iterate the wrong axes")
    # ---------------- policy and wiring
    cp = C.methods["_create_policy"]
    pol = list(cp.nested.values())
    if pol:
        f = pol[0]
        sp = f.positional_params[0]
        qp = cp.positional_params[2]
        mx, em = pat.first(f.node, "V_maxq = max(V_row.values())")
        ok = mx is not None and pat.first(f.node, f"V_row = {qp}[{sp}]", em)[0] is not None
        comp = [n for n in ast.walk(f.node) if isinstance(n, ast.ListComp)]
        ok = ok and bool(comp) and pat.m("[V_a for V_a in V_row.keys() if V_row[V_a] == V_maxq]", comp[0], em) is not None
        ctx.check(ok, "POL-1", f, mx if mx is not None else f.node, "greedy policy: exact maximisers of the state's Q row", "", "greedy set is not {a : Q[s][a] == max Q[s]}")
        rets = [r for r in ast.walk(f.node) if isinstance(r, ast.Return)]
        ctx.check(bool(rets) and all(isinstance(r.value, ast.Call) and ast.unparse(r.value.func).endswith("uniform") for r in rets), "POL-1", f, f.node, "uniform over the greedy set", "", "policy is not uniform over the greedy set")
        hs = [h for h in ast.walk(f.node) if isinstance(h, ast.ExceptHandler)]
        ok = bool(hs) and any(pat.m(f"V_x = {cp.positional_params[1]}.actions({sp})", x) is not None for x in hs[0].body)
        ctx.check(ok, "POL-1", f, hs[0] if hs else f.node, "unknown states: all available actions", "", "fallback changed")
    else:
        ctx.violation("POL-1", cp, cp.node, "greedy policy closure", "policy closure vanished")
    to = C.methods["train_on"]
    mp_ = to.positional_params[1]
    t1, e1 = pat.first(to.node, f"V_qm = self._training({mp_}, V_rng, V_el)")
    t2, e2 = pat.first(to.node, f"V_q = self._create_q(V_qm, {mp_})", e1)
    rets = [n for n in fn_body_nodes(to) if isinstance(n, ast.Return) and isinstance(n.value, ast.Call)]
    ok = t1 is not None and t2 is not None and bool(rets) and kwarg(rets[0].value, "q_values") is not None and ast.unparse(kwarg(rets[0].value, "q_values")) == e2["q"] \
        and kwarg(rets[0].value, "policy") is not None and ast.unparse(kwarg(rets[0].value, "policy")).replace(" ", "") == f"self._create_policy({mp_},{e2['q']})"
    ctx.check(ok, "WIRE-1", to, to.node, "train_on: Q dictionary and policy are built from the trained matrix", "", "train_on wiring changed")
    tsrc = ast.unparse(to.node)
    ctx.check(tsrc.index("self._init_training(") < tsrc.index("self._training("), "WIRE-1", to, to.node, "model is initialised before training", "", "initialisation order changed")
    actf = C.methods["_act"]
    stp, rngp = actf.positional_params[1:3]
    asrc = ast.unparse(actf.node).replace(" ", "")
    ok = f"{rngp}.choice(range(self.n_actions))" in asrc and f"np.argmax(self.q_matrix[{stp}])" in asrc
    ctx.check(ok, "POL-1", actf, actf.node, "behaviour: greedy in the current Q row, random among all actions on full ties", "", "behaviour policy changed")
    arg_permutation_rule(ctx, G, [x for x in P.all_functions() if x.module.name == "msdm.algorithms.rmax"], "ARG")
    for rr, k in (("TEN-6", 5), ("ALG-4", 2), ("SIM-8", 6), ("VI-1", 10), ("SIM-1", 1), ("SIM-2", 2), ("SIM-3", 1), ("SIM-4", 2), ("OBS-1", 2),
                  ("LAB-1", 2), ("POL-1", 3), ("WIRE-1", 3)):
        ctx.require(rr, k)
    ctx.assume("induction on the backup form: with rmax = max R, Q <= rmax/(1-gamma) is preserved by R^ + gamma * P^ * max Q (argument, not checked)")

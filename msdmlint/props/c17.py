"""C17 — R-MAX.  TEN-6 index spaces, SIM-1..4 training loop, SIM-8 count-limited model update, ALG-4 optimistic
constant, masked empirical backup, Q-dictionary labelling, greedy policy."""
from __future__ import annotations

import ast
from fractions import Fraction
from typing import Dict, List, Optional

from .. import alg
from ..callgraph import CallGraph
from ..cfg import cfg_of
from ..model import FunctionInfo, AnalysisError
from ..report import Ctx
from ..util import norm, fn_body_nodes, kwarg
from .common import arg_permutation_rule, names_in, calls_named
from . import simloop as SL
from .c10 import depends_on

EXPLANATION = (
    "Structural necessary conditions of C17: every array is allocated with the extent of the list it is indexed through "
    "(index-space rule), the optimistic initial value normalises to rmax * 1/(1-gamma) for every pair, the model update admits "
    "exactly the first m samples of a pair (strict count guard) and increments the counter it tests, re-solving happens when a "
    "pair reaches the threshold, only pairs with count >= m are overwritten by the empirical backup R^ + gamma * P^ * max_a Q "
    "(unknown pairs are self-loops), the training loop follows the simulation protocol, the Q dictionary is labelled with "
    "state_list / action_list and the policy is greedy over exact maximisers. The bound Q <= rmax/(1-gamma) follows from the backup "
    "form by induction (recorded as an argument); Bellman consistency within tolerance at return time is not decided.")
RULES = ("TEN-6 allocation extent and index source use the same list; ALG-4 optimistic constant; SIM-8 count-limited update (strict guard, "
         "same counter, same indices, trigger at the threshold); VI-1 masked empirical backup; SIM-1..4 training loop; OBS-1 observation "
         "call carries this step; LAB-1 Q dictionary labels; POL-1 greedy policy; WIRE-1 train_on wiring")


def run(ctx: Ctx):
    P = ctx.P
    G = CallGraph(P, ctx.X)
    C = P.cls("rmax.RMAX")
    init = C.methods["_init_training"]
    tr = C.methods["_training"]
    # ---------------- TEN-6 index spaces
    src_i = {ast.unparse(n.targets[0]): n for n in fn_body_nodes(init) if isinstance(n, ast.Assign)}
    ns_def, na_def = src_i.get("self.n_states"), src_i.get("self.n_actions")

    def len_of(n):
        if n is not None and isinstance(n.value, ast.Call) and isinstance(n.value.func, ast.Name) and n.value.func.id == "len":
            return ast.unparse(n.value.args[0])
        return None
    s_space, a_space = len_of(ns_def), len_of(na_def)
    idx_calls = [c for c in ast.walk(tr.node) if isinstance(c, ast.Call) and isinstance(c.func, ast.Attribute) and c.func.attr == "index"]
    idx_lists = sorted({ast.unparse(c.func.value) for c in idx_calls})
    ctx.check(s_space is not None and idx_lists == [s_space], "TEN-6", init, ns_def if ns_def is not None else init.node,
              f"state axis extent len({s_space}) matches the list states are indexed through {idx_lists}", "",
              f"state arrays are allocated with len({s_space}) rows but indexed with positions in {idx_lists}: when the two collections differ in size "
              f"(e.g. unreachable states in the state list) indexing goes out of bounds or aliases states")
    ia = [n for n in fn_body_nodes(tr) if isinstance(n, ast.Assign) and ast.unparse(n.targets[0]) == "index_to_action"]
    ok = bool(ia) and a_space is not None and ast.unparse(ia[0].value) == f"dict(enumerate({a_space}))"
    ctx.check(ok, "TEN-6", tr, ia[0] if ia else tr.node, f"action indices are positions in {a_space}, the list the action axis was sized by", "",
              f"action axis is sized by len({a_space}) but action indices are decoded with `{ast.unparse(ia[0].value) if ia else None}`")
    shapes = {"self.rewards": ["n_states", "n_actions"], "self.transitions": ["n_states", "n_actions", "n_states"], "self.s_a_counts": ["n_states", "n_actions"]}
    for var, want in shapes.items():
        n = src_i.get(var)
        got = [ast.unparse(e).replace("self.", "") for e in n.value.args[0].elts] if n is not None and isinstance(n.value, ast.Call) and n.value.args and isinstance(n.value.args[0], ast.Tuple) else None
        ctx.check(got == want, "TEN-6", init, n if n is not None else init.node, f"{var} allocated as {want}", "", f"`{var}` is allocated with shape {got}")
    # ---------------- ALG-4 optimistic constant
    qd = src_i.get("self.q_matrix")
    if qd is not None:
        p = alg.normalise(qd.value)
        mons = list(p.items())
        ok = len(mons) == 1 and mons[0][1] == 1
        atoms = dict(mons[0][0]) if ok else {}
        ones = [k for k in atoms if k.startswith("np.ones(")]
        disc = [k for k in atoms if "1 - mdp.discount_rate" in k.replace("(", "").replace(")", "") or "1-mdp.discount_rate" in k]
        ok = ok and len(ones) == 1 and atoms.get("self.rmax") == 1 and len(disc) == 1 and len(atoms) == 3 and "(self.n_states, self.n_actions)" in ones[0]
        ok = ok and (disc[0].startswith("1/") or atoms[disc[0]] == -1)
        ctx.check(ok, "ALG-4", init, qd, "initial Q = rmax * 1/(1 - gamma) for every (state, action)", alg.show(p), f"initial Q normalises to `{alg.show(p)}`")
    else:
        ctx.violation("ALG-4", init, init.node, "optimistic initialisation", "q_matrix is not initialised")
    asserts = [a for a in fn_body_nodes(init) if isinstance(a, ast.Assert)]
    ok = any(ast.unparse(a.test).replace(" ", "") == "self.rmax==np.max(mdp.reward_matrix)" for a in asserts)
    ctx.check(ok, "ALG-4", init, asserts[0] if asserts else init.node, "rmax is asserted to be the maximum reward", "", "the rmax precondition is no longer asserted")
    # ---------------- SIM-8 count-limited update
    ob = C.methods["_observe"]
    st, ac, rw, nx = ob.positional_params[1:5]
    ifs = [n for n in ob.node.body if isinstance(n, ast.If)]
    if not ifs:
        ctx.violation("SIM-8", ob, ob.node, "count guard", "the model update is not guarded by the sample count")
    else:
        g = ifs[0]
        t = g.test
        ok_shape = isinstance(t, ast.Compare) and ast.unparse(t.left) == f"self.s_a_counts[{st}, {ac}]" and ast.unparse(t.comparators[0]) == "self.m"
        ctx.check(ok_shape and isinstance(t.ops[0], ast.Lt), "SIM-8", ob, g, "samples are admitted only while count < m (strictly)", norm(t),
                  f"guard `{norm(t)}` admits more than the first m samples of a pair into the empirical model" if ok_shape else f"guard is `{norm(t)}`")
        incs = {ast.unparse(n.target): n for n in g.body if isinstance(n, ast.AugAssign) and isinstance(n.op, ast.Add)}
        c = incs.get(f"self.s_a_counts[{st}, {ac}]")
        ctx.check(c is not None and ast.unparse(c.value) == "1", "SIM-8", ob, c if c is not None else g, "the tested counter is incremented by 1 for the same (state, action)", "",
                  "the counter that is tested is not the one incremented (or not by 1)")
        r = incs.get(f"self.rewards[{st}, {ac}]")
        ctx.check(r is not None and ast.unparse(r.value) == rw, "SIM-8", ob, r if r is not None else g, "reward sum accumulates this step's reward", "", "reward accumulation changed")
        tt = incs.get(f"self.transitions[{st}, {ac}, {nx}]")
        ctx.check(tt is not None and ast.unparse(tt.value) == "1", "SIM-8", ob, tt if tt is not None else g, "transition count of (state, action, next_state) incremented", "", "transition counting changed")
        trig = [n for n in g.body if isinstance(n, ast.If)]
        ok = bool(trig) and ast.unparse(trig[0].test).replace(" ", "") == f"self.s_a_counts[{st},{ac}]==self.m" and "self._value_iteration(gamma)" in ast.unparse(trig[0])
        ctx.check(ok, "SIM-8", ob, trig[0] if trig else g, "the model is re-solved exactly when a pair reaches the threshold", "", "re-solve trigger changed")
        if trig and c is not None:
            ctx.check(g.body.index(trig[0]) > g.body.index(c), "SIM-8", ob, trig[0], "threshold test follows the increment", "", "threshold is tested before the count is incremented")
    # ---------------- VI-1 masked empirical backup
    vi = C.methods["_value_iteration"]
    sv = {ast.unparse(n.targets[0]): n for n in ast.walk(vi.node) if isinstance(n, ast.Assign)}
    m = sv.get("mask")
    ctx.check(m is not None and ast.unparse(m.value).replace(" ", "") == "self.s_a_counts>=self.m", "VI-1", vi, m if m is not None else vi.node, "known pairs: count >= m", "", "mask of known pairs changed")
    st_q = sv.get("self.q_matrix[mask]")
    ctx.check(st_q is not None and ast.unparse(st_q.value) == "new_q[mask]", "VI-1", vi, st_q if st_q is not None else vi.node,
              "only known pairs are overwritten (mask on both sides)", "", "the Q update also overwrites pairs tried fewer than m times (they must keep the optimistic value)")
    other = [n for n in ast.walk(vi.node) if isinstance(n, (ast.Assign, ast.AugAssign)) and "self.q_matrix" in ast.unparse(n.targets[0] if isinstance(n, ast.Assign) else n.target)
             and n is not st_q]
    ctx.check(not other, "VI-1", vi, other[0] if other else vi.node, "no other store into q_matrix", "", f"`{norm(other[0]) if other else ''}` writes Q outside the mask")
    nq = sv.get("new_q")
    if nq is not None:
        p = alg.normalise(nq.value)
        ein = [k for m_ in p for k, _ in m_ if k.startswith("np.einsum(")]
        ok = len(p) == 2 and p.get((("empirical_reward_mat", 1),)) == 1 and len(ein) == 1 and p.get(tuple(sorted(((ein[0], 1), ("gamma", 1))))) == 1
        ctx.check(ok, "VI-1", vi, nq, "backup = R^ + gamma * (P^ . max_a Q)", alg.show(p), f"backup normalises to `{alg.show(p)}`")
        ok = bool(ein) and ein[0].replace(" ", "") == "np.einsum('san,n->sa',empirical_transition_mat,v)"
        ctx.check(ok, "VI-1", vi, nq, "future term contracts the successor axis of P^ with the state values", "", f"future term is `{ein[0] if ein else None}`")
    v = sv.get("v")
    ctx.check(v is not None and ast.unparse(v.value).replace(" ", "") == "np.max(self.q_matrix,axis=-1)", "VI-1", vi, v if v is not None else vi.node, "state value = max over actions of Q", "", "state values are not max_a Q")
    er, et = sv.get("empirical_reward_mat"), sv.get("empirical_transition_mat")
    ctx.check(er is not None and ast.unparse(er.value).replace(" ", "") == "self.rewards/pseudo_count", "VI-1", vi, er if er is not None else vi.node, "R^ = reward sum / count", "", "empirical reward changed")
    ctx.check(et is not None and ast.unparse(et.value).replace(" ", "") == "self.transitions/pseudo_count[:,:,None]", "VI-1", vi, et if et is not None else vi.node, "P^ = transition counts / count", "", "empirical transition model changed")
    sl = sv.get("empirical_transition_mat[~mask]")
    ctx.check(sl is not None and ast.unparse(sl.value) == "self._self_transition_mat[~mask]", "VI-1", vi, sl if sl is not None else vi.node, "unknown pairs are self-loops", "", "unknown pairs are not modelled as self-loops")
    brk = [n for n in ast.walk(vi.node) if isinstance(n, ast.If) and any(isinstance(b, ast.Break) for b in n.body)]
    ok = bool(brk) and ast.unparse(brk[0].test).replace(" ", "") == "np.all(np.abs(self.q_matrix[mask]-new_q[mask])<self.bellman_convergence_diff)"
    ctx.check(ok, "VI-1", vi, brk[0] if brk else vi.node, "re-solve stops when all known pairs changed by less than the configured tolerance", "", "stop rule of the re-solve changed")
    stm = C.methods["_self_transition_mat"]
    ok = "self_transition_mat[np.arange(self.n_states), :, np.arange(self.n_states)] = 1" in ast.unparse(stm.node)
    ctx.check(ok, "VI-1", stm, stm.node, "self-loop tensor: P(s | s, a) = 1", "", "self-loop tensor changed")
    # ---------------- training loop
    loops = SL.find_loops(tr)
    if len(loops) != 1:
        raise AnalysisError("RMAX._training: simulation loop not found")
    L = loops[0]
    SL.sim1_absorbing_guard(ctx, L)
    cfg = cfg_of(tr)
    for d in cfg.reaching(cfg.node_for(L.sample_stmt), L.a):
        ok = d.value is not None and depends_on(tr, d.stmt, d.value, L.s)
        ctx.check(ok, "SIM-2", tr, d.stmt, f"action `{L.a}` chosen at the current state", "", "action is not chosen at the current state")
    act = [c for c in ast.walk(L.loop) if isinstance(c, ast.Call) and ast.unparse(c.func) == "self._act"]
    ok = bool(act) and ast.unparse(act[0].args[0]) == f"{L.model}.state_list.index({L.s})"
    ctx.check(ok, "SIM-2", tr, act[0] if act else L.loop, "action selection reads the Q row of the current state's index", "", "_act is not given the current state's index")
    rvar = SL.sim3_reward_args(ctx, L)
    SL.sim4_advance(ctx, L, must_follow=("_observe", "end_of_timestep"))
    obs = [c for c in ast.walk(L.loop) if isinstance(c, ast.Call) and ast.unparse(c.func) == "self._observe"]
    if obs:
        got = [ast.unparse(a) for a in obs[0].args]
        ai = next((d.var for d in cfg.defs if d.stmt in [n for n in L.body] and d.value is not None and "_act" in ast.unparse(d.value)), "ai")
        want = [f"{L.model}.state_list.index({L.s})", ai, rvar, f"{L.model}.state_list.index({L.ns})"]
        ctx.check(got == want, "OBS-1", tr, obs[0], f"_observe({', '.join(want)})", "", f"the model is updated with ({', '.join(got)}), not with this step's (state, action, reward, successor)")
        gm = kwarg(obs[0], "gamma")
        ctx.check(gm is not None and ast.unparse(gm) == f"{L.model}.discount_rate", "OBS-1", tr, obs[0], "re-solve uses the MDP's discount rate", "", "discount passed to the re-solve is not the MDP's")
    else:
        ctx.violation("OBS-1", tr, L.loop, "model update per step", "the experienced step is never fed to the model")
    rets = [n for n in fn_body_nodes(tr) if isinstance(n, ast.Return)]
    ctx.check(bool(rets) and ast.unparse(rets[0].value) == "self.q_matrix", "WIRE-1", tr, rets[0] if rets else tr.node, "training returns the learned Q matrix", "", "training returns something else")
    # ---------------- labels
    cq = C.methods["_create_q"]
    src = ast.unparse(cq.node)
    ok = "index_to_state = dict(enumerate(mdp.state_list))" in src and "index_to_action = dict(enumerate(mdp.action_list))" in src \
        and "s = index_to_state[si]" in src and "a = index_to_action[ai]" in src and "q[s][a] = q_matrix[si, ai]" in src
    ctx.check(ok, "LAB-1", cq, cq.node, "q[state_list[i]][action_list[j]] = q_matrix[i, j]", "", "Q dictionary labelling changed")
    ok = "range(q_matrix.shape[0])" in src and "range(q_matrix.shape[1])" in src
    ctx.check(ok, "LAB-1", cq, cq.node, "rows iterate axis 0, columns axis 1", "", "label loops iterate the wrong axes")
    # ---------------- policy and wiring
    cp = C.methods["_create_policy"]
    psrc = ast.unparse(cp.node)
    ok = "maxq = max(action_vals.values())" in psrc and "[a for a in action_vals.keys() if action_vals[a] == maxq]" in psrc and "DictDistribution.uniform(max_actions)" in psrc
    ctx.check(ok, "POL-1", cp, cp.node, "greedy policy: uniform over exact maximisers of the state's Q row", "", "greedy policy changed")
    ctx.check("max_actions = mdp.actions(s)" in psrc, "POL-1", cp, cp.node, "unknown states: all available actions", "", "fallback changed")
    to = C.methods["train_on"]
    tsrc = ast.unparse(to.node)
    ok = "q_matrix = self._training(mdp, rng, event_listener)" in tsrc and "q = self._create_q(q_matrix, mdp)" in tsrc and "policy=self._create_policy(mdp, q)" in tsrc and "q_values=q" in tsrc
    ctx.check(ok, "WIRE-1", to, to.node, "train_on: Q dictionary and policy are built from the trained matrix", "", "train_on wiring changed")
    ctx.check(tsrc.index("self._init_training(mdp)") < tsrc.index("self._training("), "WIRE-1", to, to.node, "model is initialised before training", "", "initialisation order changed")
    actf = C.methods["_act"]
    asrc = ast.unparse(actf.node)
    ok = "rng.choice(range(self.n_actions))" in asrc and "np.argmax(self.q_matrix[state])" in asrc
    ctx.check(ok, "POL-1", actf, actf.node, "behaviour: greedy in the current Q row, random among all actions on full ties", "", "behaviour policy changed")
    arg_permutation_rule(ctx, G, [x for x in P.all_functions() if x.module.name == "msdm.algorithms.rmax"], "ARG")
    for rr, k in (("TEN-6", 5), ("ALG-4", 2), ("SIM-8", 6), ("VI-1", 10), ("SIM-1", 1), ("SIM-2", 2), ("SIM-3", 1), ("SIM-4", 2), ("OBS-1", 2),
                  ("LAB-1", 2), ("POL-1", 3), ("WIRE-1", 3)):
        ctx.require(rr, k)
    ctx.assume("induction on the backup form: with rmax = max R, Q <= rmax/(1-gamma) is preserved by R^ + gamma * P^ * max Q (argument, not checked)")

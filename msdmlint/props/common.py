"""Rule helpers shared by several properties."""
from __future__ import annotations

import ast
from typing import Dict, Iterable, List, Optional, Sequence, Set, Tuple

from ..callgraph import CallGraph, CallSite
from ..cfg import cfg_of, FunctionCFG
from ..dag import T, walk
from ..model import FunctionInfo, ClassInfo, dotted
from ..report import Ctx
from ..util import norm, fn_body_nodes, walk_local, parents

# canonical parameter names of the duck-typed model interface
PROTOCOL_PARAMS = {
    "next_state_dist": ("s", "a"),
    "reward": ("s", "a", "ns"),
    "actions": ("s",),
    "is_absorbing": ("s",),
    "observation_dist": ("a", "ns"),
    "next_state": ("s", "a"),
    "state_estimator": ("b", "a", "o"),
    "predictive_observation_dist": ("b", "a"),
    "next_agentstate": ("ag", "a", "o"),
    "action_value": ("b", "a"),
}


def arg_permutation_rule(ctx: Ctx, G: CallGraph, fns: Iterable[FunctionInfo], rule: str,
                         methods: Optional[Set[str]] = None) -> int:
    """ARG: a call that passes exactly the callee's own parameter names, but in a different order,
    is an argument-selection defect (e.g. reward(s, ns, a)).  Only plain-name arguments count; anything
    else is not examined.  Returns the number of call sites examined."""
    n = 0
    for fi in fns:
        for node in fn_body_nodes(fi):
            if not isinstance(node, ast.Call) or node.keywords and any(k.arg is None for k in node.keywords):
                continue
            f = node.func
            name = f.attr if isinstance(f, ast.Attribute) else (f.id if isinstance(f, ast.Name) else None)
            if name is None or (methods is not None and name not in methods):
                continue
            params = PROTOCOL_PARAMS.get(name)
            if params is None:
                continue
            if any(isinstance(a, ast.Starred) for a in node.args):
                continue
            pos = [a.id if isinstance(a, ast.Name) else None for a in node.args]
            kws = {k.arg: (k.value.id if isinstance(k.value, ast.Name) else None) for k in node.keywords}
            if len(pos) + len(kws) != len(params):
                continue
            n += 1
            bound = dict(zip(params, pos))
            bound.update({k: v for k, v in kws.items() if k in params})
            names = [bound.get(p) for p in params]
            # instance: interface parameter names stay (they are what the rule is about), other spellings are hidden
            inst = f"{name}(...) argument order"
            if None in names:
                ctx.passed(rule, fi, node, f"{name}(...) arguments", "arguments are not plain parameter names")
                continue
            # strip a common prefix/suffix such as self-loop names is not attempted: exact permutation only
            if sorted(names) == sorted(params) and list(names) != list(params):
                ctx.violation(rule, fi, node, inst,
                              f"arguments are the interface's own parameter names {params} in a different order")
            else:
                ctx.passed(rule, fi, node, inst, "argument names consistent with the interface order")
    return n


def stmts_assigning_attr(fi: FunctionInfo, obj_name: str) -> Dict[str, List[ast.stmt]]:
    """statements `obj_name.<attr> = ...` (and setattr(obj_name, '<attr>', ...)) in fi's own body."""
    out: Dict[str, List[ast.stmt]] = {}
    for node in fn_body_nodes(fi):
        if isinstance(node, ast.Assign):
            for t in node.targets:
                if isinstance(t, ast.Attribute) and isinstance(t.value, ast.Name) and t.value.id == obj_name:
                    out.setdefault(t.attr, []).append(node)
        elif isinstance(node, ast.Expr) and isinstance(node.value, ast.Call):
            c = node.value
            if isinstance(c.func, ast.Name) and c.func.id == "setattr" and len(c.args) == 3 \
                    and isinstance(c.args[0], ast.Name) and c.args[0].id == obj_name \
                    and isinstance(c.args[1], ast.Constant) and isinstance(c.args[1].value, str):
                out.setdefault(c.args[1].value, []).append(node)
    return out


def must_pass(cfg: FunctionCFG, src: int, dst: int, through_stmts: Sequence[ast.AST]) -> bool:
    nodes = {cfg.node_for(s) for s in through_stmts}
    nodes.discard(None)
    return cfg.all_paths_pass(src, dst, nodes)


def return_nodes(cfg: FunctionCFG) -> List[int]:
    return [n.id for n in cfg.nodes if n.kind == "stmt" and isinstance(n.ast, ast.Return)]


def calls_named(fi: FunctionInfo, name: str) -> List[ast.Call]:
    out = []
    for node in fn_body_nodes(fi):
        if isinstance(node, ast.Call):
            f = node.func
            nm = f.attr if isinstance(f, ast.Attribute) else (f.id if isinstance(f, ast.Name) else None)
            if nm == name:
                out.append(node)
    return out


def arg_of(call: ast.Call, callee: Optional[FunctionInfo], pname: str, pos_index: Optional[int] = None) -> Optional[ast.AST]:
    for kw in call.keywords:
        if kw.arg == pname:
            return kw.value
    if callee is not None:
        pos = callee.positional_params
        if callee.is_method and not callee.is_static and pos and pos[0] in ("self", "cls"):
            pos = pos[1:]
        if pname in pos:
            i = pos.index(pname)
            if i < len(call.args):
                return call.args[i]
        return None
    if pos_index is not None and pos_index < len(call.args):
        return call.args[pos_index]
    return None


def term_mentions_attr(t: T, attr: str) -> bool:
    for x in walk(t):
        if x.op == "attr" and x.args[1] == attr:
            return True
    return False


def names_in(node: ast.AST) -> Set[str]:
    return {n.id for n in ast.walk(node) if isinstance(n, ast.Name)}


def attr_chain_text(node: ast.AST) -> Optional[str]:
    return dotted(node)


def converged_from_counter(expr: ast.AST, counter: str, cap: str) -> Optional[bool]:
    """`converged` must be equivalent to  counter < cap - 1  (the counter is the 0-based index of the last pass).
    True / False when the expression is a single comparison of affine forms in (counter, cap); None otherwise."""
    from fractions import Fraction
    from .. import alg
    if not (isinstance(expr, ast.Compare) and len(expr.ops) == 1):
        return None
    l, r = alg.normalise(expr.left), alg.normalise(expr.comparators[0])
    d = alg.add(l, r, -1)
    c_atom, k_atom = ((counter, 1),), ((cap, 1),)
    if set(d) - {(), c_atom, k_atom}:
        return None
    cc, kc, k0 = d.get(c_atom, Fraction(0)), d.get(k_atom, Fraction(0)), d.get((), Fraction(0))
    op = type(expr.ops[0])
    # normalise to  counter - cap + k  <op> 0
    if cc == 1 and kc == -1:
        pass
    elif cc == -1 and kc == 1:
        k0 = -k0
        op = {ast.Lt: ast.Gt, ast.LtE: ast.GtE, ast.Gt: ast.Lt, ast.GtE: ast.LtE}.get(op, op)
    else:
        return None
    if op is ast.Lt:
        return k0 == 1
    if op is ast.LtE:
        return k0 == 2
    return False


CACHE_DECORATORS = ("method_cache", "lru_cache", "cache", "cached_property", "functools.lru_cache", "functools.cache", "functools.cached_property")


def cache_on_mutable_state_rule(ctx: Ctx, classes: Iterable[ClassInfo], rule: str, extra_attrs: Iterable[str] = ()) -> int:
    """A memoised method (lru_cache / method_cache / …) is keyed by its arguments only.  If it reads an instance attribute that some method other
    than __init__ assigns (state that changes after construction: a seed filled in lazily, a table installed by the last training run), the cached
    value outlives the change.  PASS for every method that reads such state and is not memoised; VIOLATION for one that is."""
    n = 0
    for C in classes:
        mutable = set(extra_attrs)
        for m in C.methods.values():
            if m.name == "__init__":
                continue
            for a in ast.walk(m.node):
                if isinstance(a, ast.Attribute) and isinstance(a.ctx, ast.Store) and isinstance(a.value, ast.Name) and a.value.id == getattr(m, "self_name", "self"):
                    mutable.add(a.attr)
        for m in C.methods.values():
            sn = getattr(m, "self_name", "self")
            reads = sorted({a.attr for a in ast.walk(m.node) if isinstance(a, ast.Attribute) and isinstance(a.ctx, ast.Load) and isinstance(a.value, ast.Name)
                            and a.value.id == sn and a.attr in mutable})
            if not reads:
                continue
            n += 1
            cached = [d for d in m.decorators if d.split("(")[0] in CACHE_DECORATORS]
            ctx.check(not cached, rule, m, m.node, f"{m.name}: reads state that changes after construction and is not memoised", str(reads),
                      f"`{m.name}` is decorated with {cached} but reads {reads}, which another method assigns after construction: the cache is keyed by the arguments only, "
                      "so a value computed before the change is served after it")
    return n

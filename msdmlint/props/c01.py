"""C01 — value iteration (vectorised + dict) and policy iteration.  BEL-1..6, TEN-1/2/3/5."""
from __future__ import annotations

import ast
from fractions import Fraction
from typing import Dict, List, Optional, Tuple

from .. import alg
from ..bellman import (check_elementwise, check_einsums, check_mask_stores, check_sinks, check_solves, check_discount_degree,
                       check_ingredients, calls_of, loc_of, monomials, classify_monomial, _mask_name)
from ..callgraph import CallGraph, ext_name
from ..cfg import cfg_of
from ..dag import T, walk, show, deep_inline, simplify
from ..model import FunctionInfo, AnalysisError, dotted
from ..report import Ctx
from ..tensor import Typer, MASKS, kwarg_t, const_int
from ..util import arg_nodes, arg_texts, cmp_views, norm, fn_body_nodes, walk_local, kwarg
from ..pat import Snips
from .common import arg_permutation_rule, names_in, calls_named, converged_from_counter

EXPLANATION = (
    "Bellman-form analysis of the three planners on the expression DAG of their results (interprocedurally inlined): "
    "ingredients reach every reported quantity, the discount multiplies the future term exactly once and the reward term "
    "never, absorbing / cannot-reach masks are applied to the source-state rows of the model copies that reach the backup, "
    "placeholders are written after the solve, the policy is the normalised indicator of the availability-penalised action "
    "values, the stop rule uses the configured residual with rtol=0, converged derives from the iteration counter, "
    "initial_value is the expectation of the reported table; einsum axis kinds, table sinks and the batched solve rank are "
    "typed. Convergence to the optimum within the bound is a contraction argument recorded as an assumption.")
RULES = ("BEL-1 ingredients; BEL-2 discount degree; BEL-3 masks on every path from the model copy to the backup; BEL-4 policy from "
         "penalised values (no finite partial store between penalty and indicator); BEL-5 stop rule / converged / configured caps; "
         "BEL-6 initial value; TEN-1 einsum kinds; TEN-2 variance; TEN-3 mask axis + table sinks; TEN-5 solve rank; DICT-1..5 dict "
         "implementation (guard dominance, accumulation normal form, residual rule); SIB-1 both VI implementations share the signature")

INGREDIENTS = ["transition_matrix", "state_action_reward_matrix|reward_matrix", "discount_rate", "action_matrix",
               "absorbing_state_vec", "_unable_to_reach_absorbing"]


def result_kwargs(term: T, suffix: str = "Result") -> Optional[Dict[str, T]]:
    for x in walk(term):
        if x.op == "call" and x.args[0].op == "classref" and x.args[0].args[0] is not None \
                and x.args[0].args[0].name.endswith(suffix) and x.args[2]:
            return dict(x.args[2])
    return None


def table_data(t: T) -> Optional[T]:
    if t.op == "call" and t.args[0].op == "attr" and t.args[0].args[1] in ("from_state_list", "from_state_action_lists"):
        d = kwarg_t(t, "data")
        if d is None and t.args[1]:
            d = t.args[1][-1]
        return d
    return None


def strip(t: T) -> T:
    from ..tensor import unzip
    while True:
        if t.op == "proj":
            t = t.args[0]
        elif t.op == "inlined":
            t = t.args[1]
        elif t.op == "elem" and unzip(t) is not None:
            t = unzip(t)
        else:
            return t


def addends(t: T) -> List[T]:
    """split a sum into its addends without looking through partial stores."""
    t = strip(t)
    if t.op == "binop" and t.args[0] in ("+", "-"):
        return addends(t.args[1]) + addends(t.args[2])
    return [t]


def mask_chain(typer: Typer, t: T, depth: int = 0) -> List[Tuple[set, Optional[str]]]:
    """for every def-use path of an array value back to a model array: (set of masks zeroed on axis 0, base array)."""
    if depth > 30:
        return [(set(), None)]
    t = strip(t)
    if t.op == "where":
        idx, val, old = t.args
        if idx.op == "viewidx":
            idx = idx.args[1]
        items = list(idx.args[0]) if idx.op == "tuple" else [idx]
        m = _mask_name(typer, items[0]) if items else None
        zero = val.op == "const" and val.args[0] == 0
        if m is None and typer._is_alloc(old) and typer.base_array(val) is not None:
            # batch stacking  X = zeros(...); X[i] = model_array : continue with the stacked array
            return mask_chain(typer, val, depth + 1)
        out = []
        for ms, b in mask_chain(typer, old, depth + 1):
            out.append((ms | ({m} if (m and zero) else set()), b))
        return out
    if t.op == "phi":
        out = []
        for a in t.args[0]:
            if a.op in ("prev", "undef") or typer._pure_alloc(a):
                continue        # paths are stated from the definition of the model copy (a zero-trip fill loop is no counter-example)
            out += mask_chain(typer, a, depth + 1)
        return out
    if t.op == "binop" and t.args[0] == "*":
        # multiplication by the negated mask zeroes the rows as well
        for a, b in ((t.args[1], t.args[2]), (t.args[2], t.args[1])):
            inner = b
            while inner.op == "subscript":
                inner = inner.args[0]
            m = _mask_name(typer, inner)
            if m is not None and inner.op == "unary":
                return [(ms | {m}, bb) for ms, bb in mask_chain(typer, a, depth + 1)]
        # scaling by a scalar (the discount rate, a constant) keeps the rows
        from ..bellman import is_discount
        for a, b in ((t.args[1], t.args[2]), (t.args[2], t.args[1])):
            if is_discount(b, typer) or b.op == "const" or typer.roles(b) == ():
                return mask_chain(typer, a, depth + 1)
    if t.op == "call":
        f = t.args[0]
        from ..tensor import PRESERVE_METHODS, PRESERVE_FUNCS
        if f.op == "attr" and f.args[1] in PRESERVE_METHODS:
            return mask_chain(typer, f.args[0], depth + 1)
        e = ext_name(f)
        if e in PRESERVE_FUNCS and t.args[1]:
            return mask_chain(typer, t.args[1][0], depth + 1)
        if e in ("numpy.einsum", "torch.einsum") and len(t.args[1]) >= 2:
            # a reward expectation built from a masked transition copy inherits its masks
            outs = []
            for a in t.args[1][1:]:
                for ms, b in mask_chain(typer, a, depth + 1):
                    if b == "transition_matrix":
                        outs.append((ms, "state_action_reward_matrix"))
            if outs:
                return outs
    if t.op == "subscript":
        return mask_chain(typer, t.args[0], depth + 1)
    return [(set(), typer.base_array(t))]


def backup_einsum(term: T) -> Optional[T]:
    """the einsum contracting the transition model with a state-value vector ('san,n->sa' shape)."""
    for c in calls_of(term, {"numpy.einsum", "torch.einsum"}):
        spec = c.args[1][0].args[0] if c.args[1] and c.args[1][0].op == "const" else ""
        if isinstance(spec, str) and "->" in spec:
            ins, out = spec.replace(" ", "").split("->")
            subs = ins.split(",")
            if any(len(s) >= 3 for s in subs) and any(len(s) <= 2 for s in subs) and len(out) >= 2 and len(subs) >= 2:
                return c
    return None


def check_masks_on_operand(ctx: Ctx, typer: Typer, operand: T, fi: FunctionInfo, node, what: str, required=("absorbing_state_vec", "_unable_to_reach_absorbing")):
    paths = mask_chain(typer, operand)
    if not paths:
        ctx.unknown("BEL-3", fi, node, f"{what}: masks between model copy and backup", "no def-use path recognised")
        return
    for m in required:
        ok = all(m in ms for ms, b in paths)
        ctx.check(ok, "BEL-3", fi, node, f"{what}: rows of {m} zeroed before the backup", f"{len(paths)} def-use path(s)",
                  f"on some def-use path from the model array to the backup the rows selected by `{m}` are not zeroed: "
                  f"such states would keep transitions / rewards")


def placeholder_rule(ctx: Ctx, typer: Typer, data: T, fi: FunctionInfo, node, what: str):
    d = strip(data)
    ok = d.op == "where" and _mask_name(typer, (d.args[0].args[0][0] if d.args[0].op == "tuple" else d.args[0])) == "_unable_to_reach_absorbing" \
        and d.args[1].op == "attr" and d.args[1].args[1] == "undefined_value"
    ctx.check(ok, "BEL-3", fi, node, f"{what}: placeholder written under _unable_to_reach_absorbing after the solve", "",
              f"the reported {what} is not `where(cannot-reach, undefined_value, solver result)`: the configured placeholder is missing or is "
              f"written before the solver runs")
    if ok:
        inner = d.args[2]
        solved = any(x.op in ("proj", "inlined") or (x.op == "call" and ext_name(x.args[0]) in ("numpy.max", "numpy.linalg.solve", "numpy.einsum")) for x in walk(inner))
        ctx.check(solved, "BEL-3", fi, node, f"{what}: placeholder applied to the solver's result", "", "placeholder is applied to something other than the solver's output")


def policy_rule(ctx: Ctx, typer: Typer, pol: T, fi: FunctionInfo, node, who: str):
    """BEL-4: normalised indicator-of-max of penalised action values."""
    isc = [c for c in calls_of(pol, {"numpy.isclose"}) if len(c.args[1]) >= 2]
    ind = None
    for c in isc:
        a, b = c.args[1][0], c.args[1][1]
        mx = [x for x in walk(b) if x.op == "call" and (ext_name(x.args[0]) in ("numpy.max", "numpy.amax") or (x.args[0].op == "attr" and x.args[0].args[1] == "max"))]
        if mx:
            ind = (c, a, mx[0])
            break
    if ind is None:
        amax = [x for x in walk(pol) if x.op == "call" and ((x.args[0].op == "attr" and x.args[0].args[1] == "argmax") or ext_name(x.args[0]) == "numpy.argmax")]
        if amax:
            cfi, cnode = loc_of(amax[0], fi)
            ctx.violation("BEL-4", cfi, cnode, f"{who}: policy shares ties", "the policy is a one-hot argmax: ties between maximal actions are not shared uniformly")
        else:
            ctx.unknown("BEL-4", fi, node, f"{who}: greedy indicator", "isclose(Q, max Q) not found")
        return
    c, q, mx = ind
    cfi, cnode = loc_of(c, fi)
    mq = mx.args[1][0] if ext_name(mx.args[0]) else mx.args[0].args[0]
    ctx.check(strip(mq) == strip(q) or mq is q or mq.key() == q.key(), "BEL-4", cfi, cnode, f"{who}: indicator compares Q with max of the same Q", "",
              "the maximum is taken over a different array than the one it is compared with")
    from ..tensor import kwarg_t as kw
    ax = kw(mx, "axis")
    if ax is None and ext_name(mx.args[0]) and len(mx.args[1]) > 1:
        ax = mx.args[1][1]
    if ax is None and not ext_name(mx.args[0]) and mx.args[1]:
        ax = mx.args[1][0]
    r = typer.roles(q)
    if r is not None and ax is not None and const_int(ax) is not None:
        ctx.check(r[const_int(ax)] == "A", "BEL-4", cfi, cnode, f"{who}: max over the action axis", f"roles {r}",
                  f"the maximum is taken over axis {const_int(ax)} of {r}, which is not the action axis")
    # penalised on every path: no finite partial store between penalty and indicator
    qq = strip(q)
    pen_ok = None
    detail = ""
    if qq.op == "where":
        idx, val, old = qq.args
        it = idx.args[0][0] if idx.op == "tuple" else idx
        neg_am = it.op == "unary" and typer.base_array(it.args[1]) == "action_matrix"
        is_neginf = any(x.op == "const" and x.args[0] == "-inf" for x in walk(val)) and "float" in show(val)
        if neg_am and is_neginf:
            pen_ok = True
            detail = "-inf stored under ~action_matrix"
        else:
            pen_ok = False
            detail = f"a partial store `{show(val, 40)}` under `{show(idx, 50)}` overwrites whole rows of the action values (including the " \
                     f"availability penalty) before the greedy indicator is formed"
    else:
        ms = monomials(qq)
        has_pen = any(len(m) == 1 and m[0].op == "call" and ext_name(m[0].args[0]) == "numpy.log"
                      and typer.base_array(m[0].args[1][0]) == "action_matrix" for m in ms)
        pen_ok = has_pen
        detail = "log(action_matrix) addend present" if has_pen else "the action values compared carry no availability penalty"
    ctx.check(pen_ok, "BEL-4", cfi, cnode, f"{who}: indicator formed from availability-penalised action values", detail, detail)
    # normalised over the action axis
    div = [x for x in walk(pol) if x.op == "binop" and x.args[0] == "/" and any(y is c or y.key() == c.key() for y in walk(x.args[1]))]
    if div:
        den = div[0].args[2]
        ok = den.op == "call" and den.args[0].op == "attr" and den.args[0].args[1] == "sum" and \
            (den.args[0].args[0].key() == div[0].args[1].key())
        ctx.check(ok, "BEL-4", cfi, cnode, f"{who}: indicator normalised by its own row sum", "", "the indicator is not divided by its own sum over actions")
        axs = den.args[1][0] if den.args[1] else kw(den, "axis")
        ctx.check(axs is not None and const_int(axs) == -1, "BEL-4", cfi, cnode, f"{who}: normaliser sums the action axis", "", "the normaliser does not sum over the last (action) axis")
    else:
        ctx.violation("BEL-4", cfi, cnode, f"{who}: indicator normalised", "the greedy indicator is not normalised to a distribution")


def initial_value_rule(ctx: Ctx, iv: T, state_table: T, fi: FunctionInfo, node, who: str):
    ok = None
    if iv.op == "call" and iv.args[0].op == "builtin" and iv.args[0].args[0] == "sum" and iv.args[1] and iv.args[1][0].op == "comp":
        comp = iv.args[1][0]
        elt = comp.args[1]
        gen = comp.args[2][0]
        it = gen.args[0]
        src_ok = it.op == "call" and it.args[0].op == "attr" and it.args[0].args[1] == "items" and \
            any(x.op == "attr" and x.args[1] == "initial_state_dist" for x in walk(it))
        tab_ok = False
        if elt.op == "binop" and elt.args[0] == "*":
            for a, b in ((elt.args[1], elt.args[2]), (elt.args[2], elt.args[1])):
                if a.op == "subscript" and a.args[0].key() == state_table.key() and a.args[1].op == "elem" and a.args[1].args[1] == (0,) \
                        and b.op == "elem" and b.args[1] == (1,):
                    tab_ok = True
        ok = src_ok and tab_ok
    # (written after seed C01-d) a dense product <values, initial_state_vec> over an array that already holds the +-inf placeholders multiplies
    # 0 * inf = nan for placeholder states outside the initial support; the expectation must run over the support only
    dense = (iv.op == "call" and iv.args[0].op == "attr" and iv.args[0].args[1] in ("dot", "matmul")) or (iv.op == "binop" and iv.args[0] == "@") \
        or (iv.op == "call" and ext_name(iv.args[0]) in ("numpy.dot", "numpy.einsum", "numpy.matmul", "numpy.inner"))
    if dense and any(x.op == "where" and any(y.op == "attr" and y.args[1] == "undefined_value" for y in walk(x.args[1])) for x in walk(iv)):
        ctx.violation("BEL-6", fi, node, f"{who}: initial_value = sum over initial_state_dist of reported state_value[s]*p",
                      f"initial_value is a dense product ({show(iv, 70)}) over values that already carry the undefined-value placeholder: for a placeholder of "
                      "+-inf and a state outside the initial support it evaluates 0 * inf = nan; the expectation must range over the support of the initial distribution")
        return
    if ok is None or ok is False:
        # definite only when the reported table (or its data) does not occur in the expression at all
        data = table_data(state_table)
        keys = {state_table.key()} | ({data.key()} if data is not None else set())
        if not any(x.key() in keys for x in walk(iv)):
            ok = False
        elif ok is False and not (iv.op == "call" and iv.args[0].op == "builtin"):
            ok = None
    ctx.check(ok, "BEL-6", fi, node, f"{who}: initial_value = sum over initial_state_dist of reported state_value[s]*p", "",
              f"initial_value is not the initial-distribution expectation of the *reported* state-value table ({show(iv, 80)})")


# ------------------------------------------------------------------------------------------------ vectorised VI
def vi_vectorised(ctx: Ctx, typer: Typer, seen: set):
    P, X = ctx.P, ctx.X
    fi = P.method("ValueIteration", "_vectorized_plan_on")
    term = simplify(deep_inline(X, X.returns(fi), 3))
    kw = result_kwargs(term)
    if kw is None:
        raise AnalysisError("ValueIteration._vectorized_plan_on: result constructor not found")
    who = "VI-vectorised"
    sv, av = table_data(kw["state_value"]), table_data(kw["action_value"])
    if av is not None:
        avi0 = strip(av)
        avi0 = strip(avi0.args[2]) if avi0.op == "where" else avi0
        r0 = typer.roles(avi0)
        typer._memo.clear()
        if r0 is not None:
            # the loop-carried variable whose loop definition is the action-value expression itself has its roles
            _, anode = loc_of(avi0, fi)
            for x in walk(term):
                if x.op == "prev" and getattr(x, "src", None) and isinstance(x.src[1], ast.Assign) and any(anode is y for y in ast.walk(x.src[1])):
                    typer.prev_env.setdefault(x.args[0], r0)
    pol = table_data(kw["policy"])
    if sv is None or av is None or pol is None:
        raise AnalysisError("VI-vectorised: result tables not recognised")
    check_ingredients(ctx, sv, typer, fi, fi.node, f"{who} state_value", INGREDIENTS + ["undefined_value"] if False else INGREDIENTS)
    check_ingredients(ctx, pol, typer, fi, fi.node, f"{who} policy", ["transition_matrix", "discount_rate", "action_matrix"])
    check_discount_degree(ctx, av, typer, fi, fi.node, f"{who} action values")
    be = backup_einsum(av)
    if be is None:
        ctx.unknown("BEL-3", fi, fi.node, f"{who}: backup einsum", "not found")
    else:
        bfi, bnode = loc_of(be, fi)
        check_masks_on_operand(ctx, typer, be.args[1][1], bfi, bnode, f"{who} transition operand")
        # reward addend
        avi = strip(av)
        avi = avi.args[2] if avi.op == "where" else avi
        rew = [a for a in addends(avi) if typer.base_array(a) in ("state_action_reward_matrix", "reward_matrix")
               or any(b == "state_action_reward_matrix" for _, b in mask_chain(typer, a))]
        if rew:
            check_masks_on_operand(ctx, typer, rew[0], bfi, bnode, f"{who} reward operand")
        else:
            ctx.unknown("BEL-3", fi, fi.node, f"{who}: reward addend", "not recognised")
    placeholder_rule(ctx, typer, sv, fi, fi.node, f"{who} state_value")
    placeholder_rule(ctx, typer, av, fi, fi.node, f"{who} action_value")
    policy_rule(ctx, typer, pol, fi, fi.node, who)
    # single-action override reads action_matrix
    p = strip(pol)
    if p.op == "where":
        ok = typer.base_array(p.args[1]) == "action_matrix" or any(x.op == "attr" and x.args[1] == "action_matrix" for x in walk(p.args[1]))
        ctx.check(ok, "BEL-4", fi, fi.node, f"{who}: single-action rows copied from action_matrix", "", "rows of single-action states are overwritten with something other than the availability row")
    initial_value_rule(ctx, kw["initial_value"], kw["state_value"], fi, fi.node, who)
    stop_rule_vec(ctx, typer, term, fi, kw, who, "value_iteration_vectorized", "max_residual")
    # the state values are the max over actions of the action values
    svv = strip(sv)
    svv = svv.args[2] if svv.op == "where" else svv
    mxs = [x for x in walk(svv) if x.op == "call" and ext_name(x.args[0]) == "numpy.max"]
    avi = strip(av)
    avi = avi.args[2] if avi.op == "where" else avi
    if mxs:
        _, anode = loc_of(avi, fi)
        for x in walk(mxs[0].args[1][0]):       # the loop-carried action values have the roles of the action values that leave the loop
            if x.op == "prev" and getattr(x, "src", None) and isinstance(x.src[1], ast.Assign) and any(anode is y for y in ast.walk(x.src[1])):
                typer.prev_env[x.args[0]] = typer.roles(avi)
        r = typer.roles(mxs[0].args[1][0])
        ax = kwarg_t(mxs[0], "axis")
        ok = (r[const_int(ax)] == "A") if (r is not None and ax is not None and const_int(ax) is not None) else None
        ctx.check(ok, "BEL-4", fi, fi.node, f"{who}: state value = max over the action axis of the action values", f"roles {r}", f"state values reduce axis {show(ax) if ax else None} of {r}")
    check_einsums(ctx, term, typer, fi, seen=seen)
    check_elementwise(ctx, term, typer, fi, seen=seen)
    check_mask_stores(ctx, term, typer, fi, seen=seen)
    check_sinks(ctx, term, typer, fi)
    return kw


def stop_rule_vec(ctx: Ctx, typer: Typer, term: T, fi: FunctionInfo, kw: Dict[str, T], who: str, callee_name: str, tol_attr: Optional[str]):
    """BEL-5 for the vectorised planners: loop cap and tolerance are the configured ones; converged from the counter."""
    X, P = ctx.X, ctx.P
    callee = P.fn(callee_name)
    inl = [x for x in walk(term) if x.op == "inlined" and x.args[0] is callee]
    if not inl:
        ctx.unknown("BEL-5", fi, fi.node, f"{who}: solver call", "inlined solver not found")
        return
    call = inl[0].args[2]
    binding = X.bind_call(callee, call)
    loops = [n for n in fn_body_nodes(callee) if isinstance(n, ast.For)]
    if not loops:
        raise AnalysisError(f"{callee_name}: iteration loop vanished")
    lp = loops[0]
    bound = X.subst(X.expr(callee, lp.iter), callee, binding)
    ok = bound.op == "call" and bound.args[1] and bound.args[1][0].op == "attr" and bound.args[1][0].args[1] == "max_iterations"
    ctx.check(ok, "BEL-5", callee, lp, f"{who}: iteration cap is the configured max_iterations", show(bound, 60),
              f"the loop is bounded by `{show(bound, 60)}`, not by the planner's configured max_iterations")
    brk = [n for n in ast.walk(lp) if isinstance(n, ast.If) and any(isinstance(b, ast.Break) for b in n.body)]
    if not brk:
        ctx.violation("BEL-5", callee, lp, f"{who}: stop rule", "the iteration never stops early: no residual/stability test breaks the loop")
    else:
        test = X.subst(X.expr(callee, brk[0].test), callee, binding)
        if tol_attr:
            isc = calls_of(test, {"numpy.isclose"})
            if isc:
                c = isc[0]
                atol, rtol = kwarg_t(c, "atol"), kwarg_t(c, "rtol")
                ok = atol is not None and atol.op == "attr" and atol.args[1] == tol_attr
                ctx.check(ok, "BEL-5", callee, brk[0], f"{who}: stop tolerance is the configured {tol_attr}", show(atol, 40) if atol else "default",
                          f"the residual test uses atol=`{show(atol, 40) if atol is not None else 'numpy default'}`; the configured `{tol_attr}` does not reach it")
                ctx.check(rtol is not None and rtol.op == "const" and rtol.args[0] == 0, "BEL-5", callee, brk[0], f"{who}: stop rule is absolute (rtol=0)", "",
                          "the residual test keeps numpy's default relative tolerance, so large values stop early")
                a0, a1 = c.args[1][0], c.args[1][1]
                ok = any(x.op == "prev" for x in walk(a0)) or any(x.op == "prev" for x in walk(a1)) or a0.key() != a1.key()
                ctx.check(ok and a0.key() != a1.key(), "BEL-5", callee, brk[0], f"{who}: stop rule compares successive iterates", "", "the stop rule compares an iterate with itself")
                alls = [x for x in walk(test) if x.op == "call" and x.args[0].op == "attr" and x.args[0].args[1] == "all"]
                ctx.check(bool(alls), "BEL-5", callee, brk[0], f"{who}: every state must be within tolerance (.all())", "", "the stop rule does not require all states to be within tolerance")
            else:
                ctx.unknown("BEL-5", callee, brk[0], f"{who}: residual test", "np.isclose(...) not found")
        else:
            isc = calls_of(test, {"numpy.isclose"})
            eq = [x for x in walk(test) if x.op == "compare" and x.args[0] == ("==",)]
            ok = bool(isc or eq) and any(x.op == "call" and x.args[0].op == "attr" and x.args[0].args[1] == "all" for x in walk(test))
            ctx.check(ok, "BEL-5", callee, brk[0], f"{who}: stops when the policy is stable", "", "policy iteration does not stop on policy stability")
    cv = kw.get("converged")
    ok = False
    if cv is not None and cv.op == "compare" and len(cv.args[0]) == 1 and cv.args[0][0] in ("<", ">", "<=", ">="):
        sides = list(cv.args[1])
        has_cap = [any(x.op == "attr" and x.args[1] == "max_iterations" for x in walk(t_)) for t_ in sides]
        has_cnt = [any(x.op == "elem" for x in walk(t_)) for t_ in sides]
        ok = (has_cnt[0] and has_cap[1]) or (has_cnt[1] and has_cap[0])      # the exact inequality is decided by converged_rules
    ctx.check(ok, "BEL-5", fi, fi.node, f"{who}: converged = iterations < max_iterations - 1", "", f"converged is `{show(cv, 60) if cv is not None else None}`, not derived from the iteration counter against the cap")


# ------------------------------------------------------------------------------------------------ policy iteration
def pi_batched(ctx: Ctx, typer: Typer, seen: set):
    P, X = ctx.P, ctx.X
    fi = P.method("PolicyIteration", "batch_plan_on")
    term = simplify(deep_inline(X, X.returns(fi), 3))
    kw = result_kwargs(term)
    if kw is None:
        raise AnalysisError("PolicyIteration.batch_plan_on: result constructor not found")
    who = "PI"
    sv, av, pol = table_data(kw["state_value"]), table_data(kw["action_value"]), table_data(kw["policy"])
    if sv is None or av is None or pol is None:
        raise AnalysisError("PI: result tables not recognised")
    check_ingredients(ctx, sv, typer, fi, fi.node, f"{who} state_value", INGREDIENTS)
    check_ingredients(ctx, pol, typer, fi, fi.node, f"{who} policy", ["transition_matrix", "discount_rate", "action_matrix"])
    # inside the solver: action values and the system matrix
    callee = P.fn("policy_iteration_vectorized")
    inl = [x for x in walk(term) if x.op == "inlined" and x.args[0] is callee]
    if not inl:
        raise AnalysisError("PI: solver call not found")
    binding = X.bind_call(callee, inl[0].args[2])
    solves = calls_of(term, {"numpy.linalg.solve"})
    if solves:
        s = solves[0]
        sfi, snode = loc_of(s, fi)
        A = s.args[1][0]
        ms = monomials(A)
        eye = [m for m in ms if classify_monomial(typer, m)["eye"]]
        ctx.check(bool(eye), "BEL-2", sfi, snode, "PI: system matrix is eye - gamma*P_pi", "", "the system matrix has no identity term")
        check_discount_degree(ctx, A, typer, sfi, snode, "PI system matrix")
        # masks reach the transition model used in the system matrix
        done = False
        for e in calls_of(A, {"numpy.einsum"}):
            for o in e.args[1][1:]:
                if not done and any(b == "transition_matrix" for _, b in mask_chain(typer, o)):
                    check_masks_on_operand(ctx, typer, o, sfi, snode, "PI transition operand of the solve")
                    done = True
        if not done:
            ctx.unknown("BEL-3", sfi, snode, "PI transition operand of the solve", "transition operand not recognised")
        rhs = s.args[1][1]
        paths = mask_chain(typer, rhs)
    else:
        ctx.violation("BEL-2", fi, fi.node, "PI: evaluation by linear solve", "no linear solve reaches the result")
    avs = strip(av)
    avs = avs.args[2] if avs.op == "where" else avs
    check_discount_degree(ctx, avs, typer, fi, fi.node, "PI action values")
    placeholder_rule(ctx, typer, sv, fi, fi.node, f"{who} state_value")
    placeholder_rule(ctx, typer, av, fi, fi.node, f"{who} action_value")
    policy_rule(ctx, typer, pol, fi, fi.node, who)
    initial_value_rule(ctx, kw["initial_value"], kw["state_value"], fi, fi.node, who)
    stop_rule_vec(ctx, typer, term, fi, kw, who, "policy_iteration_vectorized", None)
    # reward expectation built from the masked transition copy
    be = [c for c in calls_of(term, {"numpy.einsum"}) if c.args[1] and c.args[1][0].op == "const" and c.args[1][0].args[0].replace(" ", "") == "san,san->sa"]
    if be:
        bfi, bnode = loc_of(be[0], fi)
        ops = be[0].args[1][1:]
        tr = [o for o in ops if any(b == "transition_matrix" for _, b in mask_chain(typer, o))]
        if tr:
            check_masks_on_operand(ctx, typer, tr[0], bfi, bnode, "PI transition operand of the reward expectation")
    check_einsums(ctx, term, typer, fi, seen=seen)
    check_elementwise(ctx, term, typer, fi, seen=seen)
    check_mask_stores(ctx, term, typer, fi, seen=seen)
    check_sinks(ctx, term, typer, fi)
    check_solves(ctx, term, typer, fi)
    # plan_on delegates to the batch entry point
    po = P.method("PolicyIteration", "plan_on")
    t = X.returns(po)
    ok = t.op == "subscript" and const_int(t.args[1]) == 0 and t.args[0].op == "call" and t.args[0].args[0].op == "attr" and t.args[0].args[0].args[1] == "batch_plan_on"
    ctx.check(ok, "BEL-5", po, po.node, "PI.plan_on = batch_plan_on([mdp])[0]", "", "plan_on does not delegate to the batched implementation")


# ------------------------------------------------------------------------------------------------ dict VI
def vi_dict(ctx: Ctx):
    P = ctx.P
    f = P.fn("value_iteration_tabular")
    mdp = f.positional_params[0]
    cfg = cfg_of(f)
    who = "VI-dict"
    S = Snips(f)
    acc = [n for n in fn_body_nodes(f) if isinstance(n, ast.AugAssign) and isinstance(n.target, ast.Subscript)
           and isinstance(n.target.value, ast.Subscript)]
    if not acc:
        ctx.violation("DICT-1", f, f.node, f"{who}: Bellman accumulation", "no accumulation into action_values[s][a]")
        return
    a = acc[0]
    rets = [n for n in fn_body_nodes(f) if isinstance(n, ast.Return) and isinstance(n.value, ast.Tuple) and len(n.value.elts) == 3]
    vname = ast.unparse(rets[-1].value.elts[0]) if rets else None
    qname = ast.unparse(rets[-1].value.elts[1]) if rets else None
    p = alg.normalise(a.value)
    probs = [n for n in fn_body_nodes(f) if isinstance(n, ast.For) and isinstance(n.iter, ast.Call) and "next_state_dist" in ast.unparse(n.iter)
             and any(a is x for x in ast.walk(n))]
    ok = None
    detail = alg.show(p)
    if probs and isinstance(probs[0].target, ast.Tuple):
        nsv, pv = [e.id for e in probs[0].target.elts]
        call = probs[0].iter.func.value
        sa = [ast.unparse(x) for x in call.args]
        want = {tuple(sorted(((pv, 1), (f"{mdp}.reward({sa[0]}, {sa[1]}, {nsv})", 1)))): Fraction(1),
                tuple(sorted(((pv, 1), (f"{mdp}.discount_rate", 1), (f"{vname}[{nsv}]", 1)))): Fraction(1)}
        ok = p == want
        tgt = [ast.unparse(a.target.value.slice), ast.unparse(a.target.slice)]
        ctx.check(tgt == sa and ast.unparse(a.target.value.value) == qname, "DICT-1", f, a, f"{who}: accumulates into the returned action values at [s][a] of the (s, a) whose successors are enumerated", "",
                  f"accumulates into {ast.unparse(a.target.value.value)}{tgt} while enumerating successors of {sa}")
    ctx.check(ok, "DICT-1", f, a, f"{who}: increment = p*reward(s,a,ns) + p*gamma*V[ns]", detail,
              f"the accumulated term normalises to `{detail}`, not to p*reward(s,a,ns) + p*gamma*V[ns] with V the returned state values")
    # guard: absorbing or cannot-reach states are skipped before accumulation — stated on the path condition of the accumulation, so that
    # `if C: continue` and `if not C: <accumulate>` are the same thing
    from ..util import lexical_guards, atomic_facts
    facts = atomic_facts(lexical_guards(f, a))
    loopvars = [n.target for n in fn_body_nodes(f) if isinstance(n, ast.For) and any(a is x for x in ast.walk(n))]
    sname = None
    for t in loopvars:
        if isinstance(t, ast.Tuple) and len(t.elts) == 2 and all(isinstance(e_, ast.Name) for e_ in t.elts) and "state_list" in ast.unparse([n for n in fn_body_nodes(f) if isinstance(n, ast.For) and n.target is t][0].iter):
            sname = (t.elts[0].id, t.elts[1].id)
    absf = [(t_, tr) for t_, tr in facts if "is_absorbing(" in t_]
    unrf = [(t_, tr) for t_, tr in facts if "_unable_to_reach_absorbing[" in t_]
    if not absf and not unrf:
        ctx.violation("DICT-2", f, a, f"{who}: absorbing / cannot-reach guard", "no guard skips absorbing or cannot-reach states before the accumulation")
    else:
        ctx.check(bool(absf) and all(not tr for _, tr in absf), "DICT-2", f, a, f"{who}: guard tests is_absorbing(s)", str(sorted(facts)), "absorbing states are not skipped (they must be worth 0)")
        ctx.check(bool(unrf) and all(not tr for _, tr in unrf), "DICT-2", f, a, f"{who}: guard tests _unable_to_reach_absorbing", str(sorted(facts)), "cannot-reach states are not skipped")
        ctx.check(bool(absf) and bool(unrf) and all(not tr for _, tr in absf + unrf), "DICT-2", f, a, f"{who}: either condition skips", "", "the guard requires both conditions")
        ctx.passed("DICT-2", f, a, f"{who}: guard dominates the accumulation", "path condition of the accumulation statement")
        if sname:
            ctx.check(any(t_.endswith(f".is_absorbing({sname[1]})") for t_, _ in absf), "DICT-2", f, a, f"{who}: guard is on the state being backed up", "", "guard tests a different state")
            ctx.check(any(t_.endswith(f"_unable_to_reach_absorbing[{sname[0]}]") for t_, _ in unrf), "DICT-2", f, a, f"{who}: cannot-reach mask indexed by the state's own index", "", "mask indexed with a different index")
    # actions enumerated are the state's available actions
    fa = [n for n in fn_body_nodes(f) if isinstance(n, ast.For) and isinstance(n.iter, ast.Call) and ast.unparse(n.iter.func).endswith(".actions")]
    ctx.check(bool(fa), "DICT-3", f, fa[0] if fa else f.node, f"{who}: backs up only mdp.actions(s)", "", "actions are not taken from mdp.actions(s)")
    # residual rule
    roles = {"V": vname, "Q": qname}
    res = S.find("residual = max(residual, abs(V[s] - new_value))", roles) or S.find("residual = max(residual, abs(new_value - V[s]))", roles)
    brk = [n for n in fn_body_nodes(f) if isinstance(n, ast.If) and any(isinstance(b, ast.Break) for b in n.body)]
    # a running maximum  r = max(r, <...>)  (the absolute difference may be named by a temporary)
    anyres = [n for n, _ in S.find("r = max(r, ANY)")] + [n for n, _ in S.find("r = max(ANY, r)")]
    if anyres and brk:
        ctx.check(bool(res), "DICT-4", f, anyres[0], f"{who}: residual = max |V_old - V_new|", "", "residual is not the running maximum of |old - new| of the returned state values")
        e = res[0][1] if res else {}
        rv = e.get("residual") or anyres[0].targets[0].id
        t = brk[0].test
        ok = (rv, "<", "max_residual") in cmp_views(t)
        ctx.check(ok, "DICT-4", f, brk[0], f"{who}: stops when residual < max_residual", "", f"stop test is `{norm(t)}`")
        zero = [n for n in fn_body_nodes(f) if isinstance(n, ast.Assign) and ast.unparse(n.targets[0]) == rv and isinstance(n.value, ast.Constant) and n.value.value == 0]
        inloop = [n for n in fn_body_nodes(f) if isinstance(n, ast.For) and isinstance(n.iter, ast.Call) and ast.unparse(n.iter.func) == "range"]
        ok = bool(zero) and bool(inloop) and any(zero[0] is x for x in ast.walk(inloop[0]))
        ctx.check(ok, "DICT-4", f, zero[0] if zero else f.node, f"{who}: residual reset each sweep", "", "the residual is not reset at the start of each sweep")
        ok = bool(inloop) and ast.unparse(inloop[0].iter.args[0]) == "max_iterations"
        ctx.check(ok, "DICT-4", f, inloop[0] if inloop else f.node, f"{who}: sweep cap is max_iterations", "", "sweep cap is not max_iterations")
        if res:
            nv = S.find("new_value = max(Q[s].values())", {**roles, "new_value": e["new_value"], "s": e["s"]})
            st = S.find("V[s] = new_value", {**roles, "new_value": e["new_value"], "s": e["s"]})
            ctx.check(bool(nv) and bool(st), "DICT-4", f, nv[0][0] if nv else anyres[0], f"{who}: new value = max over the state's action values, stored back", "", "new state value is not the max of its action values (or is not stored)")
    else:
        ctx.unknown("DICT-4", f, f.node, f"{who}: residual rule", "idiom not recognised")
    # wrapper
    w = P.method("ValueIteration", "_dict_plan_on")
    wm = w.positional_params[1]
    SW = Snips(w)
    src = ast.unparse(w.node)
    call = calls_named(w, "value_iteration_tabular")
    ok = bool(call) and kwarg(call[0], "max_residual") is not None and ast.unparse(kwarg(call[0], "max_residual")) == "self.max_residual" \
        and kwarg(call[0], "max_iterations") is not None and ast.unparse(kwarg(call[0], "max_iterations")) == "self.max_iterations"
    ctx.check(ok, "DICT-5", w, call[0] if call else w.node, f"{who}: configured residual and cap are forwarded", "", "the configured max_residual / max_iterations do not reach the dict solver")
    ok = "self.undefined_value" in src and "_unable_to_reach_absorbing" in src
    ctx.check(ok, "DICT-5", w, w.node, f"{who}: placeholder for cannot-reach states", "", "placeholder handling missing")
    unp = [n for n in fn_body_nodes(w) if isinstance(n, ast.Assign) and call and n.value is call[0] and isinstance(n.targets[0], ast.Tuple) and len(n.targets[0].elts) == 3]
    svn, avn, itn = [ast.unparse(e_) for e_ in unp[0].targets[0].elts] if unp else (None, None, None)
    g = SW.solve([f"maxq = max(av[s].values())", f"max_actions = [a for a in {wm}.actions(s) if np.isclose(av[s][a], maxq)]"], {"av": avn}) if avn else None
    ctx.check(g is not None, "DICT-5", w, g[1][1] if g else w.node, f"{who}: greedy set = available actions whose value is close to the max", "", "greedy set is not drawn from mdp.actions(s) against the row maximum")
    dd = SW.find("DictDistribution({a: 1 / len(max_actions) for a in max_actions})", {"max_actions": g[0]["max_actions"]} if g else None)
    ctx.check(bool(dd), "DICT-5", w, dd[0][0] if dd else w.node, f"{who}: policy uniform over the greedy set", "", "policy is not uniform over the greedy set")
    r = [n for n in fn_body_nodes(w) if isinstance(n, ast.Return) and isinstance(n.value, ast.Call)]
    kws = arg_nodes(r[0].value) if r else {}
    svk = ast.unparse(kws["state_value"]) if "state_value" in kws else None
    ok = "initial_value" in kws and SW.m(f"sum([sv[s] * p for s, p in {wm}.initial_state_dist().items()])", kws["initial_value"], {"sv": svk}) is not None
    ctx.check(ok if ok else None, "DICT-5", w, w.node, f"{who}: initial_value from the reported table", "", "idiom not recognised")
    ok = "converged" in kws and itn is not None and converged_from_counter(kws["converged"], itn, "self.max_iterations")
    ctx.check(ok if ok else None, "DICT-5", w, w.node, f"{who}: converged from the sweep counter", "", "idiom not recognised")


def converged_rules(ctx: Ctx):
    from .common import converged_from_counter
    P = ctx.P
    for cls, meth in (("ValueIteration", "_vectorized_plan_on"), ("ValueIteration", "_dict_plan_on"), ("PolicyIteration", "batch_plan_on")):
        f = P.method(cls, meth)
        kws = [k for n in ast.walk(f.node) if isinstance(n, ast.Call) for k in n.keywords if k.arg == "converged"]
        if not kws:
            ctx.violation("BEL-5", f, f.node, f"{cls}.{meth}: converged reported", "the result carries no converged flag")
            continue
        # the counter: the only plain name in the expression, bound as the last value unpacked from the solver call
        cand = sorted({n.id for n in ast.walk(kws[0].value) if isinstance(n, ast.Name)} - {"self"})
        unp = [n for n in fn_body_nodes(f) if isinstance(n, ast.Assign) and isinstance(n.targets[0], ast.Tuple) and isinstance(n.value, ast.Call)
               and isinstance(n.targets[0].elts[-1], ast.Name)]
        counter = cand[0] if len(cand) == 1 and any(n.targets[0].elts[-1].id == cand[0] for n in unp) else None
        ok = converged_from_counter(kws[0].value, counter, "self.max_iterations") if counter else (False if not cand else None)
        ctx.check(ok, "BEL-5", f, kws[0].value, f"{cls}.{meth}: converged <=> iterations < max_iterations - 1", ast.unparse(kws[0].value),
                  f"converged is `{ast.unparse(kws[0].value)}`; `iterations` is the 0-based index of the last pass, so convergence within the cap is "
                  f"`iterations < max_iterations - 1` (this form is true even when the budget was exhausted, or is not derived from the counter)")


def dispatch(ctx: Ctx):
    P = ctx.P
    f = P.method("ValueIteration", "plan_on")
    src = ast.unparse(f.node)
    ok = "self._dict_plan_on(mdp)" in src and "self._vectorized_plan_on(mdp)" in src
    ctx.check(ok, "SIB-1", f, f.node, "plan_on dispatches to both implementations on the same mdp", "", "dispatch lost an implementation")


def run(ctx: Ctx):
    G = CallGraph(ctx.P, ctx.X)
    typer = Typer()
    seen: set = set()
    vi_vectorised(ctx, typer, seen)
    pi_batched(ctx, typer, seen)
    vi_dict(ctx)
    converged_rules(ctx)
    dispatch(ctx)
    fns = [f for f in ctx.P.all_functions() if f.module.name in ("msdm.algorithms.valueiteration", "msdm.algorithms.policyiteration")]
    arg_permutation_rule(ctx, G, fns, "ARG")
    ctx.extra["numpy_major_of_environment"] = __import__("msdmlint.bellman", fromlist=["numpy_major"]).numpy_major()
    for r, k in (("BEL-1", 15), ("BEL-2", 5), ("BEL-3", 10), ("BEL-4", 9), ("BEL-5", 9), ("BEL-6", 2), ("TEN-1", 4), ("TEN-3", 8),
                 ("TEN-5", 1), ("DICT-1", 2), ("DICT-2", 5), ("DICT-4", 4), ("DICT-5", 4), ("ARG", 2)):
        ctx.require(r, k)
    ctx.assume("contraction: for gamma<1 iterating the checked operator to residual eps gives ||V-V*|| <= eps*gamma/(1-gamma); "
               "for gamma=1 with non-positive rewards value iteration from 0 on the masked model converges (negative programming)")
    ctx.assume("numerical near-ties and the 1e-5/1e-8 tolerances of np.isclose are runtime facts")

"""C18 — grid games and factor tables.  ALG-5 factor-table algebra in logit space, terminal handling (guarded returns),
one-step clamp (interval reasoning on one expression), constraint tables, unconditional swap exclusion."""
from __future__ import annotations

import ast
from fractions import Fraction
from typing import Dict, List, Optional

from .. import alg
from ..cfg import cfg_of
from ..model import FunctionInfo, AnalysisError
from ..report import Ctx
from ..util import norm, fn_body_nodes, walk_local, kwarg, lexical_guards
from .common import names_in

EXPLANATION = (
    "Structural necessary conditions of C18: the factor-table product adds logits of matching rows and drops -inf rows, the "
    "mixture adds probabilities, scaling adds log(num), the constructor normalises scores by softmax; a terminal or "
    "goal-occupying state returns the terminal table before any move logic and rewards are the zero map when either end is "
    "terminal; each agent's candidate cells are {stay, one clamped step} with weights that sum to 1, obstacle / wall constraint "
    "tables put zero mass on the moved cell, the fence mixture weights sum to 1; the pairwise interaction adds -inf for "
    "collisions (outside goal cells) and, unconditionally, for swaps; the result is the product of the independent move tables "
    "with the interaction table. Normalisation of the joint and the full collision semantics depend on runtime joins and are not decided.")
RULES = ("ALG-5 factor-table algebra; TERM-1 terminal handling; CLAMP-1 clamped one-step move; MOVE-1 candidate / constraint tables; "
         "PAIR-1 collision exclusion; SWAP-1 swap exclusion is not conditional on goal cells; JOIN-1 final product; ACT-1 literal action set")


def run(ctx: Ctx):
    P = ctx.P
    D = P.cls("DiscreteFactorTable")
    # ---------------- ALG-5
    pr = D.methods["product"]
    lg = [n for n in ast.walk(pr.node) if isinstance(n, ast.Assign) and ast.unparse(n.targets[0]) == "logit"]
    ok = bool(lg) and alg.normalise(lg[0].value) == {(("self.logit(si)", 1),): Fraction(1), (("other.logit(oi)", 1),): Fraction(1)}
    ctx.check(ok, "ALG-5", pr, lg[0] if lg else pr.node, "product: logit of a joined row = sum of the two rows' logits", "", f"joined logit is `{norm(lg[0].value) if lg else None}`")
    cfg = cfg_of(pr)
    if lg:
        gs = [ast.unparse(cfg.nodes[b].ast.test) for b, lab in cfg.guards(cfg.node_for(lg[0])) if cfg.nodes[b].kind == "if" and lab.startswith("T")]
        ctx.check(any(t == "dict_match(si, oi)" for t in gs), "ALG-5", pr, lg[0], "product: rows are joined only when shared variables match", str(gs), "rows are joined without the match test")
    sk = [n for n in ast.walk(pr.node) if isinstance(n, ast.If) and ast.unparse(n.test).replace(" ", "") == "logit==-np.inf" and any(isinstance(b, ast.Continue) for b in n.body)]
    ctx.check(bool(sk), "ALG-5", pr, sk[0] if sk else pr.node, "product: rows of zero probability (-inf) are dropped", "", "zero-probability joined rows are kept")
    lp = [n for n in ast.walk(pr.node) if isinstance(n, ast.For)]
    ok = bool(lp) and ast.unparse(lp[0].iter).replace(" ", "") == "product(self.support,other.support)"
    ctx.check(ok, "ALG-5", pr, lp[0] if lp else pr.node, "product: all pairs of rows are considered", "", "join does not enumerate all row pairs")
    rets = [n for n in fn_body_nodes(pr) if isinstance(n, ast.Return)]
    ok = any(ast.unparse(r.value).replace(" ", "") == "DiscreteFactorTable(support=jsupport,logits=jlogits)" for r in rets)
    ctx.check(ok, "ALG-5", pr, pr.node, "product: result built from joined rows and summed logits (normalised by the constructor)", "", "product result construction changed")
    mx = D.methods["mix"]
    jp = [n for n in ast.walk(mx.node) if isinstance(n, ast.Assign) and ast.unparse(n.targets[0]) == "jprob"]
    ok = bool(jp) and all(alg.normalise(n.value) == {(("np.exp(self.logit(si))", 1),): Fraction(1), (("np.exp(other.logit(oi))", 1),): Fraction(1)} for n in jp)
    ctx.check(ok, "ALG-5", mx, jp[0] if jp else mx.node, "mixture: probability of a row = sum of the two rows' probabilities", "", "mixture does not add probabilities")
    jl = [n for n in ast.walk(mx.node) if isinstance(n, ast.Assign) and ast.unparse(n.targets[0]) == "jlogit"]
    ctx.check(bool(jl) and all(ast.unparse(n.value) == "np.log(jprob)" for n in jl), "ALG-5", mx, jl[0] if jl else mx.node, "mixture: stored as log of the summed probability", "", "mixture logit is not log(sum of probabilities)")
    ml = D.methods["__mul__"]
    comp = [n for n in ast.walk(ml.node) if isinstance(n, ast.ListComp)]
    ok = bool(comp) and alg.normalise(comp[0].elt) == {(("logit", 1),): Fraction(1), (("np.log(num)", 1),): Fraction(1)} and ast.unparse(comp[0].generators[0].iter) == "self.logits"
    ctx.check(ok, "ALG-5", ml, comp[0] if comp else ml.node, "scaling: logit + log(num) for every row", "", "scaling does not add log(num) to every logit")
    ctx.check("DiscreteFactorTable(support=self.support, logits=mlogits)" in ast.unparse(ml.node), "ALG-5", ml, ml.node, "scaling keeps the support", "", "scaling changes the support")
    a_, o_ = D.methods["__and__"], D.methods["__or__"]
    ctx.check("return self.product(other)" in ast.unparse(a_.node) and "return self.mix(other)" in ast.unparse(o_.node), "ALG-5", a_, a_.node, "& is the product, | is the mixture", "", "operator wiring changed")
    init = D.methods["__init__"]
    isrc = ast.unparse(init.node)
    ok = "probs = softmax(scores)" in isrc and "scores = np.log(probs)" in isrc
    ctx.check(ok, "ALG-5", init, init.node, "constructor: probabilities are the softmax of the scores (and scores the log of given probabilities)", "", "constructor normalisation changed")
    # ---------------- grid game
    G = P.cls("TabularGridGame")
    nsd = G.methods["next_state_dist"]
    s_p, ja_p = nsd.positional_params[1:3]
    body = nsd.node.body
    firsts = [st for st in body[:3] if isinstance(st, ast.If)]
    tests = [ast.unparse(st.test) for st in firsts]
    ok = f"self.is_terminal({s_p})" in tests and f"self.is_absorbing({s_p})" in tests and all(
        isinstance(st.body[0], ast.Return) and "TERMINALSTATE" in ast.unparse(st.body[0].value) for st in firsts)
    ctx.check(ok, "TERM-1", nsd, firsts[0] if firsts else nsd.node, "terminal and goal-occupying states return the terminal table before any move logic", str(tests),
              "the terminal / goal tests do not come first or do not return the terminal table")
    jr = G.methods["joint_rewards"]
    jb = jr.node.body
    ok = len(jb) >= 2 and isinstance(jb[0], ast.Assign) and "0 for an in self.agent_names" in ast.unparse(jb[0].value) and isinstance(jb[1], ast.If) \
        and ast.unparse(jb[1].test).replace(" ", "") == f"self.is_terminal({jr.positional_params[1]})orself.is_terminal({jr.positional_params[3]})" \
        and isinstance(jb[1].body[0], ast.Return) and ast.unparse(jb[1].body[0].value) == ast.unparse(jb[0].targets[0])
    ctx.check(ok, "TERM-1", jr, jb[1] if len(jb) > 1 else jr.node, "rewards are the zero map when either end is terminal", "", "terminal transitions are not paid zero")
    it = G.methods["is_terminal"]
    ctx.check("get('isTerminal', False)" in ast.unparse(it.node), "TERM-1", it, it.node, "is_terminal reads the isTerminal flag", "", "terminal predicate changed")
    # clamp
    for axis, ext in (("x", "self.width"), ("y", "self.height")):
        st = [n for n in ast.walk(nsd.node) if isinstance(n, ast.Assign) and ast.unparse(n.targets[0]) == f"agent['{axis}']"]
        ok = False
        detail = ""
        if st:
            v = st[0].value
            detail = ast.unparse(v)
            if isinstance(v, ast.Call) and ast.unparse(v.func) == "max" and len(v.args) == 2:
                inner = [a for a in v.args if isinstance(a, ast.Call) and ast.unparse(a.func) == "min"]
                zero = [a for a in v.args if isinstance(a, ast.Constant) and a.value == 0]
                if inner and zero and len(inner[0].args) == 2:
                    ia = [ast.unparse(a).replace(" ", "") for a in inner[0].args]
                    ok = f"{ext}-1" in ia and f"agent['{axis}']+agentaction['{axis}']" in ia
        ctx.check(ok, "CLAMP-1", nsd, st[0] if st else nsd.node, f"{axis}' = max(min({axis} + d{axis}, {ext} - 1), 0)", detail,
                  f"the moved {axis} coordinate `{detail}` is not clamped to [0, {ext} - 1] around {axis} + action[{axis}]: an agent could leave the grid or move more than one cell")
    ja = G.methods["joint_actions"]
    lits = [n for n in ast.walk(ja.node) if isinstance(n, ast.List) and n.elts and all(isinstance(e, ast.Dict) for e in n.elts)]
    ok = False
    if lits:
        vals = []
        for d in lits[0].elts:
            kv = {ast.literal_eval(k): ast.literal_eval(v) for k, v in zip(d.keys, d.values)}
            vals.append((kv.get("x"), kv.get("y")))
        ok = sorted(vals) == sorted([(0, 0), (1, 0), (-1, 0), (0, 1), (0, -1)])
    ctx.check(ok, "ACT-1", ja, lits[0] if lits else ja.node, "literal action set = stay and the four unit moves", "", "the action set contains a move of more than one cell or a diagonal")
    # candidate and constraint tables
    mv = [n for n in ast.walk(nsd.node) if isinstance(n, ast.Assign) and ast.unparse(n.targets[0]) == "agentMove" and isinstance(n.value, ast.Call) and ast.unparse(n.value.func) == "Pr"]
    if mv:
        c = mv[0].value
        sup = [ast.unparse(e).replace(" ", "") for e in c.args[0].elts] if c.args and isinstance(c.args[0], ast.List) else []
        pk = kwarg(c, "probs")
        ok = sup == [f"{{an:{s_p}[an]}}", "{an:agent}"] and isinstance(pk, ast.List) and alg.add(alg.normalise(pk.elts[0]), alg.normalise(pk.elts[1])) == {(): Fraction(1)}
        ctx.check(ok, "MOVE-1", nsd, mv[0], "candidate cells are {stay, clamped move} with weights summing to 1", ast.unparse(c), f"candidate table is `{norm(c, 80)}`")
    else:
        ctx.violation("MOVE-1", nsd, nsd.node, "per-agent candidate table", "no per-agent move table")
    cons = [n for n in ast.walk(nsd.node) if isinstance(n, ast.Assign) and ast.unparse(n.targets[0]) in ("obsConstraint", "wallConstraint")]
    for cn in cons:
        c = cn.value
        sup = [ast.unparse(e).replace(" ", "") for e in c.args[0].elts] if c.args and isinstance(c.args[0], ast.List) else []
        pk = kwarg(c, "probs")
        ok = sup == [f"{{an:{s_p}[an]}}", "{an:agent}"] and isinstance(pk, ast.List) and [ast.unparse(e) for e in pk.elts] == ["1", "0"]
        ctx.check(ok, "MOVE-1", nsd, cn, f"{ast.unparse(cn.targets[0])}: zero mass on the moved cell, all mass on staying", ast.unparse(c),
                  f"constraint table `{norm(c, 70)}` does not forbid the moved cell")
    ands = [n for n in ast.walk(nsd.node) if isinstance(n, ast.AugAssign) and isinstance(n.op, ast.BitAnd) and ast.unparse(n.target) == "agentMove"]
    ctx.check(len(ands) >= 2, "MOVE-1", nsd, ands[0] if ands else nsd.node, "obstacle and wall constraints are multiplied into the move table", "", "a constraint is not applied to the move table")
    fn = [n for n in ast.walk(nsd.node) if isinstance(n, ast.Assign) and ast.unparse(n.targets[0]) == "agentMove" and isinstance(n.value, ast.BinOp) and isinstance(n.value.op, ast.BitOr)]
    if fn:
        l, r = fn[0].value.left, fn[0].value.right
        wt = lambda x: alg.normalise(x.right) if isinstance(x, ast.BinOp) and isinstance(x.op, ast.Mult) else {(): Fraction(1)}
        ok = alg.add(wt(l), wt(r)) == {(): Fraction(1)} and ast.unparse(l.left) == "agentMove" and ast.unparse(r.left) == "fenceEffect" and ast.unparse(l.right) == "self.fence_success_prob"
        ctx.check(ok, "MOVE-1", nsd, fn[0], "fence: move with the success probability, stay with the complement", ast.unparse(fn[0].value), f"fence mixture is `{norm(fn[0].value, 80)}`")
    # pairwise interactions
    cfg = cfg_of(nsd)
    pen = [n for n in ast.walk(nsd.node) if isinstance(n, ast.AugAssign) and ast.unparse(n.target) == "logit" and "-np.inf" in ast.unparse(n.value)]
    coll, swap = [], []
    for n in pen:
        lg_ = [(ast.unparse(t).replace(" ", ""), lab) for t, lab in lexical_guards(nsd, n)]
        gs = lg_
        direct = [lg_[0][0]] if lg_ and lg_[0][1] == "T" else []
        under_skip = any(t == "notskip" and lab == "T" for t, lab in gs)
        if any(t == "self.same_location(ns[an0],ns[an1])" for t in direct):
            coll.append((n, under_skip))
        if any(t == f"self.same_location(ns[an0],{s_p}[an1])andself.same_location(ns[an1],{s_p}[an0])" for t in direct):
            swap.append((n, under_skip))
    ctx.check(bool(coll), "PAIR-1", nsd, coll[0][0] if coll else nsd.node, "two agents in the same (non-goal) cell get logit -inf", "", "no collision exclusion")
    ctx.check(bool(swap), "SWAP-1", nsd, swap[0][0] if swap else nsd.node, "two agents exchanging cells get logit -inf", "", "no swap exclusion")
    if swap:
        ok = any(not us for _, us in swap)
        ctx.check(ok, "SWAP-1", nsd, swap[0][0], "the swap exclusion applies regardless of goal cells (not only under `not skip`)", "",
                  "every swap exclusion is conditional on `not skip`: when a goal cell is involved (agents standing on each other's goals) two agents can swap cells")
    lg2 = [n for n in ast.walk(nsd.node) if isinstance(n, ast.For) and ast.unparse(n.iter).replace(" ", "") == "combinations(self.agent_names,r=2)"]
    ctx.check(bool(lg2), "PAIR-1", nsd, lg2[0] if lg2 else nsd.node, "interactions are evaluated for every pair of agents", "", "pairwise loop changed")
    rets = [n for n in fn_body_nodes(nsd) if isinstance(n, ast.Return)]
    ok = any(ast.unparse(r.value).replace(" ", "") == "agentDist&interactionEffects" for r in rets)
    ctx.check(ok, "JOIN-1", nsd, rets[-1] if rets else nsd.node, "result = product of the independent move tables with the interaction table", "", "final product changed")
    src = ast.unparse(nsd.node)
    ok = "agentDist = reduce(lambda a, b: a & b, agentMoveDists)" in src and "interactionEffects = Pr(interactions, logits=interactionLogits)" in src
    ctx.check(ok, "JOIN-1", nsd, nsd.node, "independent move tables are combined by the factor product; interactions enter as logits", "", "joint construction changed")
    ctx.check("for ns in agentDist.support" in src and "interactions.append(ns)" in src and "interactionLogits.append(logit)" in src, "JOIN-1", nsd, nsd.node,
              "one interaction logit per joint successor", "", "interaction rows are not aligned with the joint successors")
    for rr, k in (("ALG-5", 10), ("TERM-1", 3), ("CLAMP-1", 2), ("ACT-1", 1), ("MOVE-1", 4), ("PAIR-1", 2), ("SWAP-1", 2), ("JOIN-1", 3)):
        ctx.require(rr, k)
    ctx.assume("dict_match / dict_merge implement the natural join of nested assignments (msdm.core.utils.dictutils)")

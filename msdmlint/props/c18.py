"""C18 — grid games and factor tables.  ALG-5 factor-table algebra in logit space, terminal handling (guarded returns),
one-step clamp (interval reasoning on one expression), constraint tables, unconditional swap exclusion.

Locals are identified by their role (the loop variables of the row-pair loop, the list that is handed to the result table,
the copy of the agent's cell that is moved, the table that is appended to the list of move tables, ...), never by spelling:
patterns are written with role names (pat.Snips) and the bound names are carried in an environment."""
from __future__ import annotations

import ast
from fractions import Fraction
from typing import Optional

from .. import alg
from ..cfg import cfg_of
from ..model import FunctionInfo
from ..pat import Snips, Virtual
from ..report import Ctx
from ..util import norm, fn_body_nodes, lexical_guards, ancestors, name_free
from .common import names_in

EXPLANATION = (
    "Structural necessary conditions of C18: the factor-table product adds logits of matching rows and drops -inf rows, the "
    "mixture adds probabilities, scaling adds log(num), the constructor normalises scores by softmax; a terminal or "
    "goal-occupying state returns the terminal table before any move logic and rewards are the zero map when either end is "
    "terminal; each agent's candidate cells are {stay, one clamped step} with weights that sum to 1, obstacle / wall constraint "
    "tables put zero mass on the moved cell, the fence mixture weights sum to 1; the pairwise interaction adds -inf for "
    "collisions (outside goal cells) and, unconditionally, for swaps; the result is the product of the independent move tables "
    "with the interaction table. Normalisation of the joint and the full collision semantics depend on runtime joins and are not decided.")
RULES = ("ALG-5 factor-table algebra; TERM-1 terminal handling; CLAMP-1 clamped one-step move; MOVE-1 candidate / constraint tables; "
         "PAIR-1 collision exclusion; SWAP-1 swap exclusion is not conditional on goal cells; JOIN-1 final product; ACT-1 literal action set")

ONE = {(): Fraction(1)}


def _sum_of(*atoms: str):
    return {((a, 1),): Fraction(1) for a in atoms}


def _direct(block: ast.AST, node: ast.AST) -> bool:
    """`node` (a statement, or the call of an expression statement) is a direct statement of block's body."""
    return any(st is node or (isinstance(st, ast.Expr) and st.value is node) for st in block.body)


def _resolved(S: Snips, node: Optional[ast.AST]) -> Optional[ast.AST]:
    """the expression a single-assignment local stands for (the node itself when it is not such a name)."""
    seen = set()
    while isinstance(node, ast.Name) and isinstance(node.ctx, ast.Load) and node.id in S.defs and node.id not in seen:
        seen.add(node.id)
        node = S.defs[node.id]
    return node


def _values(S: Snips, node: ast.AST):
    """(where, value) pairs an expression can stand for: a local name stands for the value of each of its plain assignments in the
    function; anything else is its own value, written in place."""
    if isinstance(node, ast.Name) and node.id not in S.literals:
        return [(st, st.value) for st in S.stmts if isinstance(st, ast.Assign) and len(st.targets) == 1
                and isinstance(st.targets[0], ast.Name) and st.targets[0].id == node.id]
    return [(node, node)]


def _mentions(S: Snips, node: ast.AST, name: str) -> bool:
    """`name` occurs in node, looking through single-assignment locals."""
    todo, seen = [node], set()
    while todo:
        for x in ast.walk(todo.pop()):
            if isinstance(x, ast.Name):
                if x.id == name:
                    return True
                if x.id in S.defs and x.id not in seen:
                    seen.add(x.id)
                    todo.append(S.defs[x.id])
    return False


def _ordered(S: Snips, op, lpat: str, rpat: str, node: Optional[ast.AST], env) -> Optional[dict]:
    """node is `L <op> R` with L, R matching the two patterns in this order (no commutation)."""
    node = _resolved(S, node)
    if isinstance(node, ast.BinOp) and isinstance(node.op, op):
        e = S.m(lpat, node.left, env)
        if e is not None:
            return S.m(rpat, node.right, e)
    return None


def _clamped(S: Snips, v: ast.AST, moved: str, top: str, env) -> bool:
    """v is max(min(<moved>, <top>), 0), the arguments of max and of min in either order; an argument may be named by a
    temporary (the match is definition-transparent)."""
    return any(S.m(outer.format(inner.format(moved, top)), v, env) is not None
               for outer in ("max({}, 0)", "max(0, {})") for inner in ("min({}, {})", "min({1}, {0})"))


def _row_pair_roles(S: Snips, fi: FunctionInfo, oth: str):
    """roles of product / mix: the loop over all pairs of rows (si, oi), the two lists handed to the result table
    (jsupport receives the merged row, jlogits the joined logit)."""
    loops = [n for n in ast.walk(fi.node) if isinstance(n, ast.For)]
    pair = [(n, e) for n in loops for e in [S.m(f"for si, oi in product(self.support, {oth}.support):\n    REST", n)] if e is not None]
    return loops, pair


def run(ctx: Ctx):
    P = ctx.P
    D = P.cls("DiscreteFactorTable")
    # ---------------- ALG-5
    pr = D.methods["product"]
    oth = pr.positional_params[1]
    S = Snips(pr)
    lp, pair = _row_pair_roles(S, pr, oth)
    loop_ok = bool(lp) and bool(pair) and pair[0][0] is lp[0]          # the first loop of the method is the loop over all row pairs
    loop, env = pair[0] if pair else (None, {})
    # the result table and the two lists it is built from: both start empty, the first receives the merged row, the second the joined logit
    rsol = S.solve(["return DiscreteFactorTable(support=jsupport, logits=jlogits)", "jsupport = []", "jlogits = []"], env)
    renv = rsol[0] if rsol else env
    lsol = S.solve(["jlogits.append(logit)", "logit = E_val"], renv, within=loop) if loop is not None else None
    lenv = lsol[0] if lsol else None
    lg = [n for n, _ in S.find("logit = E_val", {k: v for k, v in lenv.items() if k != "val"})] if lenv else []
    want = _sum_of(f"self.logit({env.get('si')})", f"{oth}.logit({env.get('oi')})")
    ok = bool(lg) and all(alg.normalise(n.value) == want for n in lg)
    ctx.check(ok, "ALG-5", pr, lg[0] if lg else pr.node, "product: logit of a joined row = sum of the two rows' logits", "",
              f"joined logit is `{name_free(pr, lg[0].value) if lg else None}`")
    cfg = cfg_of(pr)
    if lg:
        gts = [cfg.nodes[b].ast.test for b, lab in cfg.guards(cfg.node_for(lg[0])) if cfg.nodes[b].kind == "if" and lab.startswith("T")]
        ctx.check(any(S.m("dict_match(si, oi)", t, env) is not None for t in gts), "ALG-5", pr, lg[0], "product: rows are joined only when shared variables match",
                  str([name_free(pr, t) for t in gts]), "rows are joined without the match test")
    # on the path to the append the logit is known not to be -inf — `if logit == -inf: continue` and `if logit != -inf: append` alike
    from ..util import lexical_guards as _lg, atomic_facts as _af
    apps = [c for c in ast.walk(pr.node) if isinstance(c, ast.Call) and isinstance(c.func, ast.Attribute) and c.func.attr == "append" and lenv
            and c.args and ast.unparse(c.args[0]) == str(lenv.get("logit"))]
    sk = []
    for c in apps:
        facts = _af(_lg(pr, c))
        if any(t_.replace(" ", "") in (f"{lenv.get('logit')}==-np.inf", f"-np.inf=={lenv.get('logit')}") and not tr for t_, tr in facts):
            sk.append(c)
    ctx.check(bool(sk) and len(sk) == len(apps), "ALG-5", pr, sk[0] if sk else pr.node, "product: rows of zero probability (-inf) are dropped", "", "zero-probability joined rows are kept")
    ctx.check(loop_ok, "ALG-5", pr, lp[0] if lp else pr.node, "product: all pairs of rows are considered", "", "join does not enumerate all row pairs")
    msol = S.solve(["soi = dict_merge(si, oi)", "jsupport.append(soi)"], lenv, within=loop) if (lenv and rsol and loop is not None) else None
    ok = rsol is not None and lenv is not None and msol is not None
    ctx.check(ok, "ALG-5", pr, rsol[1][0] if rsol else pr.node, "product: result built from joined rows and summed logits (normalised by the constructor)", "",
              "product result construction changed")
    mx = D.methods["mix"]
    moth = mx.positional_params[1]
    SM = Snips(mx)
    _, mpair = _row_pair_roles(SM, mx, moth)
    mloop, menv = mpair[0] if mpair else (None, {})
    mret = SM.solve(["return DiscreteFactorTable(support=jsupport, logits=jlogits)", "jsupport = []", "jlogits = []"], menv)
    # the names whose value is appended to the result's logit list inside the row-pair loop, and the probability they are the log of
    jl, jp = [], []
    jl_ok = jp_ok = mloop is not None and mret is not None
    if jl_ok:
        for call, e in SM.find("jlogits.append(E_x)", mret[0], within=mloop):
            for n, v in _values(SM, e["x"]):
                jl.append(n)
                e3 = SM.m("np.log(E_p)", v)
                if e3 is None:
                    jl_ok = False
                    continue
                for n2, v2 in _values(SM, e3["p"]):
                    if not any(n2 is x for x, _ in jp):
                        jp.append((n2, v2))
    want = _sum_of(f"np.exp(self.logit({menv.get('si')}))", f"np.exp({moth}.logit({menv.get('oi')}))")
    ok = jp_ok and bool(jp) and all(alg.normalise(v) == want for _, v in jp)
    ctx.check(ok, "ALG-5", mx, jp[0][0] if jp else mx.node, "mixture: probability of a row = sum of the two rows' probabilities", "", "mixture does not add probabilities")
    ctx.check(jl_ok and bool(jl), "ALG-5", mx, jl[0] if jl else mx.node, "mixture: stored as log of the summed probability", "", "mixture logit is not log(sum of probabilities)")
    ml = D.methods["__mul__"]
    num = ml.positional_params[1]
    SL = Snips(ml)
    comp = [n for n in ast.walk(ml.node) if isinstance(n, ast.ListComp)]
    cenv = SL.m("[E_elt for lg in self.logits]", comp[0]) if comp else None
    ok = cenv is not None and alg.normalise(cenv["elt"]) == _sum_of(cenv["lg"], f"np.log({num})")
    ctx.check(ok, "ALG-5", ml, comp[0] if comp else ml.node, "scaling: logit + log(num) for every row", "", "scaling does not add log(num) to every logit")
    # the list of scaled logits (the comprehension above, named by a local or written in place) goes with the unchanged support into the result
    scaled = [e for n, e in SL.find("mlogits = [E_elt for lg in self.logits]") if comp and e["elt"] is comp[0].elt]
    ok = any(SL.has("DiscreteFactorTable(support=self.support, logits=mlogits)", {"mlogits": e["mlogits"]}) for e in scaled)
    ctx.check(ok, "ALG-5", ml, ml.node, "scaling keeps the support", "", "scaling changes the support")
    a_, o_ = D.methods["__and__"], D.methods["__or__"]
    ok = Snips(a_).has(f"return self.product({a_.positional_params[1]})") and Snips(o_).has(f"return self.mix({o_.positional_params[1]})")
    ctx.check(ok, "ALG-5", a_, a_.node, "& is the product, | is the mixture", "", "operator wiring changed")
    init = D.methods["__init__"]
    SI = Snips(init)               # probs / scores are parameters of the constructor (part of its interface)
    ok = "probs" in init.positional_params and "scores" in init.positional_params and SI.has("probs = softmax(scores)") and SI.has("scores = np.log(probs)")
    ctx.check(ok, "ALG-5", init, init.node, "constructor: probabilities are the softmax of the scores (and scores the log of given probabilities)", "", "constructor normalisation changed")
    # ---------------- grid game
    G = P.cls("TabularGridGame")
    nsd = G.methods["next_state_dist"]
    s_p, ja_p = nsd.positional_params[1:3]
    body = nsd.node.body
    ST = Snips(nsd)
    t_pats = (f"self.is_terminal({s_p})", f"self.is_absorbing({s_p})")

    def _named_test(st) -> bool:
        """st only gives a name to one of the two tests (`t = self.is_terminal(s)`); it is no move logic."""
        return isinstance(st, ast.Assign) and len(st.targets) == 1 and isinstance(st.targets[0], ast.Name) and st.targets[0].id in ST.defs \
            and any(ST.m(tp, st.value) is not None for tp in t_pats)

    def _first_stmt(stmts):
        return next((x for x in stmts if not (isinstance(x, ast.Assign) and len(x.targets) == 1 and isinstance(x.targets[0], ast.Name)
                                              and x.targets[0].id in ST.defs)), None)
    firsts = [st for st in [x for x in body if not _named_test(x)][:3] if isinstance(st, ast.If)]
    tests = [name_free(nsd, st.test) for st in firsts]
    ok = all(any(ST.m(tp, st.test) is not None for st in firsts) for tp in t_pats) and all(
        isinstance(_first_stmt(st.body), ast.Return) and _first_stmt(st.body).value is not None
        and _mentions(ST, _first_stmt(st.body).value, "TERMINALSTATE") for st in firsts)
    ctx.check(ok, "TERM-1", nsd, firsts[0] if firsts else nsd.node, "terminal and goal-occupying states return the terminal table before any move logic", str(tests),
              "the terminal / goal tests do not come first or do not return the terminal table")
    jr = G.methods["joint_rewards"]
    jb = jr.node.body
    SJ = Snips(jr)
    # the zero map, by what it is (named or written in place), is returned under the test; only single assignments of locals come before
    # (a dict comprehension assigned to a name is read as the loop that fills it: model._desugar_dict_builds)
    jsol_ = SJ.solve(["for an in self.agent_names:\n    jr[an] = 0",
                      f"if self.is_terminal({jr.positional_params[1]}) or self.is_terminal({jr.positional_params[3]}):\n    return jr\n    REST"])
    jif = jsol_[1][1] if jsol_ else None
    jfor = jsol_[1][0] if jsol_ else None
    ok = jif is not None and any(st is jif for st in jb) and all(
        st is jfor or (isinstance(st, ast.Assign) and all(isinstance(t, ast.Name) and t.id in SJ.defs for t in st.targets)) for st in jb[:next(i for i, st in enumerate(jb) if st is jif)])
    ctx.check(ok, "TERM-1", jr, jif if jif is not None else (jb[1] if len(jb) > 1 else jr.node), "rewards are the zero map when either end is terminal", "", "terminal transitions are not paid zero")
    it = G.methods["is_terminal"]
    ctx.check(Snips(it).has(f"{it.positional_params[1]}.get('isTerminal', False)"), "TERM-1", it, it.node, "is_terminal reads the isTerminal flag", "", "terminal predicate changed")
    # --- roles of the per-agent part: the loop over agents (an), the moved copy of the agent's cell (agent), the agent's action
    SG = Snips(nsd)
    aloop, R, act = None, {}, None
    for n, e in SG.find("for an in self.agent_names:\n    REST"):
        r = SG.solve([f"agent = copy.deepcopy({s_p}[an])"], e, within=n)
        if r is not None and all(_direct(n, x) for x in r[1]):
            aloop, R = n, r[0]
            # the agent's own action: named by an unconditional statement of the loop, or read in place (`ja[an]` not named)
            act = next((e2 for n2, e2 in SG.find(f"agentaction = {ja_p}[an]", R, within=n)
                        if _direct(n, n2) or isinstance(e2.get("agentaction"), Virtual)), None)
            break
    # clamp
    for axis, ext in (("x", "self.width"), ("y", "self.height")):
        st = [n for n, _ in SG.find(f"agent['{axis}'] = E_v", R, within=aloop)] if aloop is not None else []
        ok = False
        detail = ""
        if st:
            v = st[0].value
            detail = name_free(nsd, v, depth=0)
            ok = act is not None and _clamped(SG, v, f"agent['{axis}'] + agentaction['{axis}']", f"{ext} - 1", act)
        ctx.check(ok, "CLAMP-1", nsd, st[0] if st else nsd.node, f"{axis}' = max(min({axis} + d{axis}, {ext} - 1), 0)", detail,
                  f"the moved {axis} coordinate `{detail}` is not clamped to [0, {ext} - 1] around {axis} + action[{axis}]: an agent could leave the grid or move more than one cell")
    ja = G.methods["joint_actions"]
    lits = [n for n in ast.walk(ja.node) if isinstance(n, ast.List) and n.elts and all(isinstance(e, ast.Dict) for e in n.elts)]
    ok = False
    if lits:
        vals = []
        for d in lits[0].elts:
            kv = {ast.literal_eval(k): ast.literal_eval(v) for k, v in zip(d.keys, d.values)}
            vals.append((kv.get("x"), kv.get("y")))
        ok = sorted(vals) == sorted([(0, 0), (1, 0), (-1, 0), (0, 1), (0, -1)])
    ctx.check(ok, "ACT-1", ja, lits[0] if lits else ja.node, "literal action set = stay and the four unit moves", "", "the action set contains a move of more than one cell or a diagonal")
    # candidate and constraint tables: the move table (mv) is what each round of the agent loop appends to the list of tables (dists)
    if aloop is not None:
        for n, e in SG.find("dists.append(mv)", R, within=aloop):
            if _direct(aloop, n):
                R = e
                break
    stay_move = f"[{{an: {s_p}[an]}}, {{an: agent}}]"
    mv = [n for n, _ in SG.find("mv = Pr(REST, REST=ANY)", R, within=aloop)] if aloop is not None and "mv" in R else []
    if mv:
        c = mv[0].value
        e = SG.m(f"Pr({stay_move}, probs=[E_p0, E_p1])", c, R)
        ok = e is not None and alg.add(alg.normalise(e["p0"]), alg.normalise(e["p1"])) == ONE
        ctx.check(ok, "MOVE-1", nsd, mv[0], "candidate cells are {stay, clamped move} with weights summing to 1", name_free(nsd, c, depth=0), f"candidate table is `{name_free(nsd, c, depth=0, width=80)}`")
    else:
        ctx.violation("MOVE-1", nsd, nsd.node, "per-agent candidate table", "no per-agent move table")

    def over(node) -> str:
        """what the innermost loop around `node` (inside the agent loop) ranges over."""
        for anc in ancestors(nsd, node):
            if anc is aloop:
                break
            if isinstance(anc, ast.For):
                return {"self.obstacles": "obstacle", "self.walls": "wall", "self.fences": "fence"}.get(norm(anc.iter), "other")
        return "agent"
    ands = [n for n in (ast.walk(aloop) if aloop is not None and "mv" in R else []) if isinstance(n, ast.AugAssign) and isinstance(n.op, ast.BitAnd) and SG.m("mv", n.target, R) is not None]
    for a in ands:
        role = over(a)
        if isinstance(a.value, ast.Name):            # the constraint table is what the name multiplied into the move table was assigned
            tabs = [(n, n.value) for n, _ in SG.find("c = E_v", {"c": a.value.id}, within=aloop)]
        else:
            tabs = [(a, a.value)]
        if not tabs:
            ctx.violation("MOVE-1", nsd, a, f"{role} constraint: zero mass on the moved cell, all mass on staying", "the constraint multiplied into the move table is not a table built in the agent loop")
        for cn, c in tabs:
            ok = SG.m(f"Pr({stay_move}, probs=[1, 0])", c, R) is not None
            ctx.check(ok, "MOVE-1", nsd, cn, f"{role} constraint: zero mass on the moved cell, all mass on staying", name_free(nsd, c, depth=0),
                      f"constraint table `{name_free(nsd, c, depth=0, width=70)}` does not forbid the moved cell")
    ok = len(ands) >= 2 and {"obstacle", "wall"} <= {over(a) for a in ands}
    ctx.check(ok, "MOVE-1", nsd, ands[0] if ands else nsd.node, "obstacle and wall constraints are multiplied into the move table", "", "a constraint is not applied to the move table")
    fn = [n for n in (ast.walk(aloop) if aloop is not None and "mv" in R else []) if isinstance(n, ast.Assign) and len(n.targets) == 1 and SG.m("mv", n.targets[0], R) is not None
          and isinstance(_resolved(SG, n.value), ast.BinOp) and isinstance(_resolved(SG, n.value).op, ast.BitOr)]
    if fn:
        v = fn[0].value
        keep = f"Pr([{{an: {s_p}[an]}}])"             # the table that keeps the agent where it is
        p_succ = alg.normalise(ast.parse("self.fence_success_prob", mode="eval").body)
        # the other component, written in place or named by a single-assignment local (the match is definition-transparent)
        e = _ordered(SG, ast.BitOr, "mv * self.fence_success_prob", f"{keep} * E_w", v, R)
        w = alg.normalise(e["w"]) if e is not None else None
        if e is None and _ordered(SG, ast.BitOr, "mv * self.fence_success_prob", keep, v, R) is not None:
            e, w = R, dict(ONE)
        ok = e is not None and alg.add(p_succ, w) == ONE
        if e is None:                                # ... or named by a local that is assigned more than once: every assignment is that table
            e = _ordered(SG, ast.BitOr, "mv * self.fence_success_prob", "fe * E_w", v, R)
            w = alg.normalise(e["w"]) if e is not None else None
            if e is None:
                e = _ordered(SG, ast.BitOr, "mv * self.fence_success_prob", "fe", v, R)
                w = dict(ONE)
            ok = e is not None and alg.add(p_succ, w) == ONE
            if ok:
                stay = [n for n, _ in SG.find("fe = E_v", {"fe": e["fe"]}, within=aloop)]
                ok = bool(stay) and all(SG.m(keep, n.value, R) is not None for n in stay)
        ctx.check(ok, "MOVE-1", nsd, fn[0], "fence: move with the success probability, stay with the complement", name_free(nsd, v, depth=0), f"fence mixture is `{name_free(nsd, v, depth=0, width=80)}`")
    # --- roles of the joint part: product of the move tables (ad), interaction table (ie) built from rows (inter) and logits (ilog),
    #     the loop over joint successors (ns) with its running logit, the loop over pairs of agents (an0, an1)
    J = {"dists": R["dists"]} if "dists" in R else {}
    jsol = SG.solve(["ad = reduce(lambda a, b: a & b, dists)", "ie = Pr(inter, logits=ilog)"], J)
    J = jsol[0] if jsol else J
    nloop, N = None, None
    for n, e in SG.find("for ns in ad.support:\n    REST", J):
        r = SG.solve(["inter.append(ns)", "ilog.append(logit)", "logit = 0"], e, within=n)
        if r is not None and all(_direct(n, x) for x in r[1]):
            nloop, N = n, r[0]
            break
    ploops = [n for n in ast.walk(nsd.node) if isinstance(n, ast.For) and SG.m("combinations(self.agent_names, r=2)", n.iter) is not None]
    ploop, PE = None, None
    if nloop is not None:
        for n, e in SG.find("for an0, an1 in combinations(self.agent_names, r=2):\n    REST", N, within=nloop):
            ploop, PE = n, e
            break
    # pairwise interactions
    pen = [n for n in (ast.walk(ploop) if ploop is not None else []) if isinstance(n, ast.AugAssign) and isinstance(n.op, ast.Add)
           and SG.m("logit", n.target, PE) is not None and "-np.inf" in ast.unparse(_resolved(SG, n.value))]
    per_pair = {x.id for st in (ploop.body if ploop is not None else []) for x in ast.walk(st) if isinstance(x, ast.Name) and isinstance(x.ctx, ast.Store)}
    coll, swap = [], []
    for n in pen:
        gs = lexical_guards(nsd, n)
        direct = [gs[0][0]] if gs and gs[0][1] == "T" else []
        # conditional on state computed per pair (the goal-cell flag): an outer guard that reads a name assigned inside the pair loop
        under_skip = any(names_in(t) & per_pair for t, _ in gs[1:])
        if any(SG.m("self.same_location(ns[an0], ns[an1])", t, PE) is not None for t in direct):
            coll.append((n, under_skip))
        if any(SG.m(f"self.same_location(ns[an0], {s_p}[an1]) and self.same_location(ns[an1], {s_p}[an0])", t, PE) is not None for t in direct):
            swap.append((n, under_skip))
    ctx.check(bool(coll), "PAIR-1", nsd, coll[0][0] if coll else nsd.node, "two agents in the same (non-goal) cell get logit -inf", "", "no collision exclusion")
    ctx.check(bool(swap), "SWAP-1", nsd, swap[0][0] if swap else nsd.node, "two agents exchanging cells get logit -inf", "", "no swap exclusion")
    if swap:
        ok = any(not us for _, us in swap)
        ctx.check(ok, "SWAP-1", nsd, swap[0][0], "the swap exclusion applies regardless of goal cells (not only under `not skip`)", "",
                  "every swap exclusion is conditional on the goal-cell flag: when a goal cell is involved (agents standing on each other's goals) two agents can swap cells")
    ctx.check(bool(ploops), "PAIR-1", nsd, ploops[0] if ploops else nsd.node, "interactions are evaluated for every pair of agents", "", "pairwise loop changed")
    rets = [n for n in fn_body_nodes(nsd) if isinstance(n, ast.Return)]
    ok = any(_ordered(SG, ast.BitAnd, "ad", "ie", r.value, J) is not None for r in rets)
    ctx.check(ok, "JOIN-1", nsd, rets[-1] if rets else nsd.node, "result = product of the independent move tables with the interaction table", "", "final product changed")
    ctx.check(jsol is not None, "JOIN-1", nsd, nsd.node, "independent move tables are combined by the factor product; interactions enter as logits", "", "joint construction changed")
    ctx.check(nloop is not None, "JOIN-1", nsd, nsd.node,
              "one interaction logit per joint successor", "", "interaction rows are not aligned with the joint successors")
    # MERGE-1 (written after seeds C18-c / C18-d): the row merge used by the factor product builds its result on a DEEP copy of the left row;
    # the recursion writes into nested dictionaries of the result, so a shallow copy (or the row itself) lets it write into the operand's own rows
    dm = ctx.P.fn("dictutils.dict_merge")
    left_p, res_p = dm.positional_params[0], (dm.positional_params[2] if len(dm.positional_params) > 2 else "res")
    SM = Snips(dm)
    inits = [n for n in ast.walk(dm.node) if isinstance(n, ast.Assign) and len(n.targets) == 1 and isinstance(n.targets[0], ast.Name) and n.targets[0].id == res_p]
    deep = [n for n in inits if SM.m(f"{res_p} = deepcopy({left_p})", n) is not None or SM.m(f"{res_p} = copy.deepcopy({left_p})", n) is not None]
    ctx.check(bool(inits) and len(deep) == len(inits), "MERGE-1", dm, inits[0] if inits else dm.node, "merged row starts as a deep copy of the left row", "",
              f"the result of dict_merge starts as `{norm(inits[0].value, 50) if inits else '?'}`: nested dictionaries are shared with the left operand and are overwritten by the recursive merge")
    writes_nested = SM.has(f"dict_merge(ANY, ANY, {res_p}[k])") or SM.has(f"dict_merge(ANY, ANY, res={res_p}[k])")
    ctx.check(writes_nested if writes_nested else None, "MERGE-1", dm, dm.node, "the recursion merges into the nested dictionary of the result", "", "idiom not recognised")
    for rr, k in (("ALG-5", 10), ("TERM-1", 3), ("CLAMP-1", 2), ("ACT-1", 1), ("MOVE-1", 4), ("PAIR-1", 2), ("SWAP-1", 2), ("JOIN-1", 3), ("MERGE-1", 2)):
        ctx.require(rr, k)
    ctx.assume("dict_match / dict_merge implement the natural join of nested assignments (msdm.core.utils.dictutils)")

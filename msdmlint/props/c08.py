"""C08 — PBVI and QMDP.  TEN-1/2/3 on the point-based backup, BEL-1/2, CFG-2 (data-dependent trip count),
wiring of the returned policy, look-ahead action value, QMDP action value."""
from __future__ import annotations

import ast
import copy
from fractions import Fraction
from typing import Dict, List, Optional, Set

from .. import alg
from ..bellman import (check_einsums_in_function, check_einsums, check_elementwise, check_mask_stores, check_discount_degree, calls_of, loc_of,
                       monomials, classify_monomial)
from ..callgraph import CallGraph, ext_name
from ..cfg import cfg_of
from ..dag import T, walk, show, deep_inline, simplify
from ..model import FunctionInfo, AnalysisError, dotted
from ..report import Ctx
from ..tensor import Typer, kwarg_t, const_int
from ..util import cmp_views, norm, fn_body_nodes, walk_local, kwarg
from ..pat import Snips
from .common import arg_permutation_rule, names_in, calls_named
from .c07 import items_loop_info, enclosing_loops

EXPLANATION = (
    "Tensor axis-role typing of the point-based backup (11 einsums), alignment of the non-absorbing mask with the source-state "
    "axis of the transition and reward tensors, single discounting of the future term, action selection over the action axis, "
    "the stop rule, a possibly-unbound analysis of names defined only inside the data-dependent backup loop (known finding), "
    "wiring of the returned alpha vectors into the policy, the one-step look-ahead action value of alpha-vector policies and "
    "the belief-weighted action value of QMDP. The lower/upper bound sandwich itself is a theorem plus numerics and is not decided.")
RULES = ("TEN-1 einsum kinds; TEN-3 non-absorbing mask aligned with the source axis; BEL-1 mask reaches both tensors; BEL-2 discount "
         "degree; SEL-1 argmax over the action axis; STOP-1 convergence test; CFG-2 names defined only in a loop whose trip count is "
         "computed from model data are used after it; WIRE-1 result wiring; LA-1 look-ahead action value; QMDP-1 belief-weighted MDP values")


def rule_backup(ctx: Ctx, typer: Typer):
    P, X = ctx.P, ctx.X
    f = P.fn("point_based_value_iteration")
    term = simplify(X.returns(f))
    seen: set = set()
    n = check_einsums_in_function(ctx, f, typer, seen=seen)
    check_mask_stores(ctx, term, typer, f, seen=seen)
    check_elementwise(ctx, term, typer, f, seen=seen)
    # masks reach both tensors
    for arr in ("transition_matrix", "state_action_reward_matrix"):
        hits = 0
        for x in walk(term):
            if x.op == "binop" and x.args[0] == "*":
                l, r = x.args[1], x.args[2]
                for a, b in ((l, r), (r, l)):
                    if typer.base_array(a) == arr or (a.op == "phi" and arr in typer.leaves(a)):
                        inner = b
                        while inner.op == "subscript":
                            inner = inner.args[0]
                        if inner.op == "unary" and typer.base_array(inner.args[1]) == "absorbing_state_vec":
                            hits += 1
        ctx.check(hits > 0, "BEL-1", f, f.node, f"backup: {arr} is multiplied by the non-absorbing mask", "",
                  f"`{arr}` reaches the backup without being masked by ~absorbing_state_vec: absorbing states would keep rewards / transitions")
    # ---- roles of the locals, bound by what they are (never by how they are spelled)
    S = Snips(f)
    pomdp = f.positional_params[0]
    bset = f.positional_params[1]
    eps = f.positional_params[2]
    cfg = cfg_of(f)
    loops = [n_ for n_ in fn_body_nodes(f) if isinstance(n_, ast.For)]
    if not loops:
        raise AnalysisError("point_based_value_iteration: backup loop vanished")
    lp = loops[0]
    ln = cfg.node_for(lp)
    R = backup_roles(f, S, cfg, lp)
    # every use of the transition / reward tensor in an einsum or sum is the masked one: the masked definition is the only one reaching the loop
    mask = R.get("mask")
    for role, what in (("tf", "transition tensor"), ("rf", "reward tensor")):
        var = R.get(role)
        ds = cfg.reaching(ln, var) if var else []
        ok = bool(ds) and mask is not None and all(d.value is not None and S.has("nt[ANY]", {"nt": mask}, within=d.value) for d in ds)
        ctx.check(ok if ds else None, "BEL-1", f, lp, f"backup loop sees only the masked {what}", "", f"an unmasked definition of the {what} reaches the backup loop")
    # discount degree on the combined alpha vectors (the array the new alpha vectors are selected from)
    bsa = _assigns_in(lp, R.get("bsa"))
    if bsa:
        t = X.expr(f, bsa[0].value)
        ms = monomials(t)
        rew = [m for m in ms if classify_monomial(typer, m)["R"] and not classify_monomial(typer, m)["T"]]
        fut = [m for m in ms if classify_monomial(typer, m)["T"]]
        for m in rew:
            ctx.check(classify_monomial(typer, m)["disc"] == 0, "BEL-2", f, bsa[0], "backup: reward term is not discounted", "", "the immediate reward is multiplied by the discount rate")
        for m in fut[:1]:
            d = classify_monomial(typer, m)["disc"]
            ctx.check(d == 1, "BEL-2", f, bsa[0], "backup: future term discounted exactly once", f"degree {d}", f"the future alpha-vector term carries the discount rate {d} time(s)")
        if not fut:
            # the future term is an einsum over previously computed arrays: count the discount syntactically
            src = ast.unparse(bsa[0].value)
            n_disc = sum(1 for x in ast.walk(bsa[0].value) if (isinstance(x, ast.Attribute) and x.attr == "discount_rate") or (isinstance(x, ast.Name) and x.id == "discount_rate"))
            ctx.check(n_disc == 1 and R.get("rf") is not None and R["rf"] in names_in(bsa[0].value), "BEL-2", f, bsa[0], "backup: alpha = reward + gamma * future", src, f"combined alpha vector is `{src}`")
    else:
        ctx.unknown("BEL-2", f, lp, "backup combination", "the array the new alpha vectors are selected from was not found")
    # action selection
    d = _assigns_in(lp, R.get("idx"))
    if d and isinstance(d[0].value, ast.Call) and isinstance(d[0].value.func, ast.Attribute) and d[0].value.func.attr == "argmax":
        recv = X.expr(f, d[0].value.func.value)
        r = typer.roles(recv)
        ax = kwarg(d[0].value, "axis") or (d[0].value.args[0] if d[0].value.args else None)
        k = ax.value if isinstance(ax, ast.Constant) else None
        ok = (r[k] == "A") if (r is not None and k is not None and -len(r) <= k < len(r)) else None
        ctx.check(ok, "SEL-1", f, d[0], f"best action alpha vector chosen by argmax over the action axis", f"roles {r}", f"argmax reduces axis {k} of {r}, not the action axis")
    sel = R.get("sel")
    if sel is not None:
        # new_bv = bsa_vf[count_b, :, ba_vf_max_idx]: row index = position of the belief, last index = that belief's best action
        ok = R.get("bsa") is not None and R.get("idx") is not None and R.get("cnt_ok", False) and R.get("idx_ok", False)
        ctx.check(ok if ok else None, "SEL-1", f, sel, "new alpha vector of belief b = its own best action's alpha vector", "", "idiom not recognised")
    # stop rule
    brk = [n_ for n_ in ast.walk(lp) if isinstance(n_, ast.If) and any(isinstance(b, ast.Break) for b in n_.body)]
    bv, new_bv, bb = R.get("bv"), R.get("new_bv"), R.get("bb")
    if brk:
        t = brk[0].test
        dv = [l for l, op, r in cmp_views(t) if op == "<" and r == eps and l.isidentifier()]
        ctx.check(bool(dv), "STOP-1", f, brk[0], f"backup stops when the value change is below {eps}", "", f"stop test is `{norm(t)}`")
        dl = _assigns_in(lp, dv[0]) if dv else []
        ok = False
        if dl and bv and new_bv and bb:
            # delta = np.abs(old_v - new_v).max(), old_v / new_v = values of the belief set under the current / the new alpha vectors
            env0 = {"delta": dv[0], "bv": bv, "new_bv": new_bv, "bb": bb}
            # (the two values may be named by temporaries or written in place: a name stands for its only definition)
            old_v, new_v = "np.einsum(E_s1, bv, bb)", "np.einsum(E_s2, new_bv, bb)"
            for diff in (f"{old_v} - {new_v}", f"{new_v} - {old_v}"):
                if S.has(f"delta = np.abs({diff}).max()", env0, within=lp):
                    ok = True
        ctx.check(ok if ok else None, "STOP-1", f, dl[0] if dl else brk[0], "change = max |V_old(b) - V_new(b)| over the belief set", "", "idiom not recognised")
        upd = [n_ for n_ in lp.body if bv and new_bv and S.m("bv = new_bv", n_, {"bv": bv, "new_bv": new_bv}) is not None]
        ctx.check(bool(upd) and lp.body.index(upd[0]) > lp.body.index(brk[0]), "STOP-1", f, upd[0] if upd else lp, "alpha vectors advance after the convergence test", "", "alpha vectors are not advanced to the new backup")
    else:
        ctx.violation("STOP-1", f, lp, "backup convergence test", "no convergence test breaks the backup loop")
    return f


def _assigns_in(root: ast.AST, name: Optional[str]) -> List[ast.Assign]:
    if not name:
        return []
    return [n_ for n_ in ast.walk(root) if isinstance(n_, ast.Assign) and isinstance(n_.targets[0], ast.Name) and n_.targets[0].id == name]


def carried_names(f: FunctionInfo, cfg, lp: ast.For) -> List[str]:
    """loop-carried variables of `lp`: names assigned by a plain statement of the loop body that also have a definition
    from before the loop reaching its head (the value of one pass is the input of the next)."""
    ln = cfg.node_for(lp)
    inside = {id(x) for x in ast.walk(lp)}
    out: List[str] = []
    for st in lp.body:
        if isinstance(st, ast.Assign) and len(st.targets) == 1 and isinstance(st.targets[0], ast.Name):
            v = st.targets[0].id
            if v not in out and any(d.stmt is not None and id(d.stmt) not in inside for d in cfg.reaching(ln, v)):
                out.append(v)
    return out


def backup_roles(f: FunctionInfo, S: Snips, cfg, lp: ast.For) -> Dict[str, object]:
    """role -> actual local name in point_based_value_iteration.
    tf / rf  : the names the POMDP's transition / state-action reward tensor are bound to
    mask     : the name bound to ~pomdp.absorbing_state_vec...
    bb       : the belief set as used in the loop (the parameter or its alias); cnt: arange over it
    bv       : the loop-carried alpha vectors; new_bv: what they advance to; bsa / cnt / idx: new_bv = bsa[cnt, :, idx]"""
    pomdp, bset = f.positional_params[0], f.positional_params[1]
    R: Dict[str, object] = {}
    for role, attr in (("tf", "transition_matrix"), ("rf", "state_action_reward_matrix")):
        _, e = S.first(f"arr = {pomdp}.{attr}")
        if e:
            R[role] = e["arr"]
    for n_, e in S.find("nt = E_v"):
        if S.has(f"{pomdp}.absorbing_state_vec", within=e["v"]):
            R["mask"] = e["nt"]
            break
    _, e = S.first(f"bb = {bset}")
    R["bb"] = e["bb"] if e else bset
    car = carried_names(f, cfg, lp)
    if len(car) == 1:
        R["bv"] = car[0]
        adv = [n_ for n_ in lp.body if S.m("bv = new_bv", n_, {"bv": car[0]}) is not None]
        if adv:
            R["new_bv"] = S.m("bv = new_bv", adv[-1], {"bv": car[0]})["new_bv"]
            sel, e = S.first("new_bv = bsa[cnt, :, idx]", {"new_bv": R["new_bv"]}, within=lp)
            if sel is not None:
                R["sel"] = sel
                R["bsa"], R["idx"] = e["bsa"], e["idx"]
                R["cnt_ok"] = S.has("cnt = np.arange(len(bb))", {"cnt": e["cnt"], "bb": R["bb"]}) and not _assigns_in(lp, e["cnt"])
                # the selecting index is the argmax of the values of those same per-action alpha vectors at the beliefs
                # (the value array may be a named temporary or written in place)
                R["idx_ok"] = S.has("idx = np.einsum(ANY, bsa, bb).argmax(axis=ANY)", {"idx": e["idx"], "bsa": e["bsa"], "bb": R["bb"]}, within=lp)
            else:
                cand = _assigns_in(lp, R["new_bv"])
                if cand:
                    R["sel"] = cand[0]
    return R


def rule_cfg2(ctx: Ctx, f: FunctionInfo):
    """names assigned only inside `for .. in range(n)` (n computed in the function from model data, no positive clamp)
    and read after the loop are possibly unbound."""
    cfg = cfg_of(f)
    for lp in [n for n in fn_body_nodes(f) if isinstance(n, ast.For)]:
        it = lp.iter
        if isinstance(it, ast.Call) and isinstance(it.func, ast.Name) and it.func.id == "range" and len(it.args) >= 2 and isinstance(it.args[1], ast.Name) \
                and it.args[1].id in f.param_names and isinstance(it.args[0], ast.Constant) and it.args[0].value != 0 and len(it.args) == 2:
            # (written after seed C08-c) a sweep loop bounded by a parameter runs that many sweeps: range(k, n) with k != 0 runs fewer
            ctx.violation("STOP-1", f, lp, f"the backup loop runs `{it.args[1].id}` sweeps",
                          f"`for … in {norm(it)}` runs {it.args[1].id} - {it.args[0].value} sweeps, not {it.args[1].id}: the value function after the configured horizon is one backup short")
            it = ast.Call(func=it.func, args=[it.args[1]], keywords=[])
        if not (isinstance(it, ast.Call) and isinstance(it.func, ast.Name) and it.func.id == "range" and len(it.args) == 1 and isinstance(it.args[0], ast.Name)):
            continue
        nvar = it.args[0].id
        ln = cfg.node_for(lp)
        ds = cfg.reaching(ln, nvar)
        computed = [d for d in ds if d.kind == "assign" and d.value is not None and not isinstance(d.value, ast.Constant)]
        if not computed:
            continue
        clamp = any(isinstance(d.value, ast.Call) and isinstance(d.value.func, ast.Name) and d.value.func.id == "max" for d in computed)
        inside: Set[str] = set()
        for st in ast.walk(lp):
            if isinstance(st, ast.Assign):
                for t in st.targets:
                    for nm in ast.walk(t):
                        if isinstance(nm, ast.Name) and isinstance(nm.ctx, ast.Store):
                            inside.add(nm.id)
        if isinstance(lp.target, ast.Name):
            inside.add(lp.target.id)
        before = {d.var for d in cfg.defs if d.node != ln and not any(d.stmt is x for x in ast.walk(lp)) and d.stmt is not None
                  and getattr(d.stmt, "lineno", 0) < lp.lineno} | set(f.param_names)
        only_inside = sorted(inside - before)
        after_uses: List[str] = []
        tail = False
        for st in f.node.body:
            if st is lp:
                tail = True
                continue
            if tail:
                for nm in ast.walk(st):
                    if isinstance(nm, ast.Name) and isinstance(nm.ctx, ast.Load) and nm.id in only_inside and nm.id not in after_uses:
                        after_uses.append(nm.id)
        # the instance names the loop by its trip count only when that is a parameter (part of the interface); locals are not spelled out
        trip = nvar if nvar in f.param_names else "<trip count computed in the function>"
        inst = f"names bound only in the `for _ in range({trip})` loop are read after the loop"
        if after_uses and not clamp:
            ctx.violation("CFG-2", f, lp, inst,
                          f"`{nvar}` is computed inside the function (`{norm(computed[0].value, 60)}`) without a positive lower clamp; when it is <= 0 the "
                          f"loop body never runs and {after_uses} are unbound at the return (UnboundLocalError); the same expression divides by "
                          f"(rmax - rmin), which is 0 for constant rewards")
        else:
            ctx.passed("CFG-2", f, lp, inst, "trip count clamped or nothing read after the loop")


def rule_wiring(ctx: Ctx):
    P = ctx.P
    C = P.cls("PointBasedValueIteration")
    po = C.methods["plan_on"]
    pomdp = po.positional_params[1]
    SP = Snips(po)
    sol = SP.solve([f"res = self._solve({pomdp})", f"pi = AlphaVectorPolicy({pomdp}, res['alpha_vectors'])", "return Result(policy=pi, REST=ANY)"])
    ctx.check(sol is not None, "WIRE-1", po, po.node, "returned policy is built from the solver's alpha vectors on the given POMDP", "", "policy is not built from the returned alpha vectors")
    r0 = SP.first(f"res = self._solve({pomdp})")[1]
    ok = r0 is not None and SP.has("return Result(alpha_vectors=res['alpha_vectors'], belief_set=res['belief_set'], REST=ANY)", r0)
    ctx.check(ok, "WIRE-1", po, po.node, "reported alpha_vectors / belief_set are the solver's", "", "reported arrays are not the solver's")
    sv = C.methods["_solve"]
    spomdp = sv.positional_params[1]
    SS = Snips(sv)
    calls = calls_named(sv, "point_based_value_iteration")
    # the belief set of _solve: the local that starts as an array and is grown by expand_beliefs; its start must be [initial belief]
    grown = SS.solve(["bs = np.array(ANY)", f"bs = expand_beliefs({spomdp}, bs)"])
    bs_env = SS.solve([f"s0 = {spomdp}.initial_state_vec", "bs = np.array([s0])"], {"bs": grown[0]["bs"]}) if grown else None
    call_stmt, ce = SS.first(f"res = point_based_value_iteration({spomdp}, bs, value_convergence_epsilon=self.value_convergence_epsilon, horizon=self.horizon)",
                             {"bs": grown[0]["bs"]} if grown else None)
    ok = bool(calls) and call_stmt is not None and grown is not None and call_stmt.value is calls[0]
    ctx.check(ok, "WIRE-1", sv, calls[0] if calls else sv.node, "configured threshold and horizon reach the backup; it runs on the current belief set", "", "configured threshold / horizon / belief set do not reach the backup")
    rets = [n for n in fn_body_nodes(sv) if isinstance(n, ast.Return)]
    res_n = None
    for n in fn_body_nodes(sv):
        if isinstance(n, ast.Assign) and calls and n.value is calls[0] and isinstance(n.targets[0], ast.Name):
            res_n = n.targets[0].id
    ok = bool(rets) and res_n is not None and isinstance(rets[0].value, ast.Name) and rets[0].value.id == res_n
    ctx.check(ok, "WIRE-1", sv, rets[0] if rets else sv.node, "the result of the last backup is returned", "", "a stale result is returned")
    ctx.check(bs_env is not None, "WIRE-1", sv, bs_env[1][1] if bs_env else sv.node, "belief set starts from the initial belief", "", "belief set does not start from the POMDP's initial state vector")
    f = P.fn("point_based_value_iteration")
    r = [n for n in fn_body_nodes(f) if isinstance(n, ast.Return)]
    loops = [n for n in fn_body_nodes(f) if isinstance(n, ast.For)]
    car = carried_names(f, cfg_of(f), loops[0]) if loops else []
    av = None
    if r and isinstance(r[0].value, ast.Dict):
        av = next((v for k, v in zip(r[0].value.keys, r[0].value.values) if isinstance(k, ast.Constant) and k.value == "alpha_vectors"), None)
    ok = isinstance(av, ast.Name) and len(car) == 1 and av.id == car[0]
    ctx.check(ok, "WIRE-1", f, r[0] if r else f.node, "alpha_vectors are the converged per-belief alpha vectors", "", "alpha_vectors key does not hold the backed-up alpha vectors")


class _Subst(ast.NodeTransformer):
    def __init__(self, defs: Dict[str, ast.AST], depth: int = 0):
        self.defs, self.depth = defs, depth

    def visit_Name(self, node):
        if isinstance(node.ctx, ast.Load) and node.id in self.defs and self.depth < 20:
            return _Subst(self.defs, self.depth + 1).visit(copy.deepcopy(self.defs[node.id]))
        return node


def written_out(node: ast.AST, defs: Dict[str, ast.AST]) -> ast.AST:
    """`node` with every temporary of `defs` replaced (recursively) by its defining expression: the expression the code
    computes, whether or not its sub-terms are named."""
    return _Subst(defs).visit(copy.deepcopy(node))


def block_defs(S: Snips, block: List[ast.stmt], upto: ast.stmt) -> Dict[str, ast.AST]:
    """temporaries available at `upto`: single-assignment locals of the function that are named by a plain statement of the
    same block before `upto` (so the definition is evaluated in the same pass, under the same loop variables)."""
    if not any(st is upto for st in block):
        return {}
    out: Dict[str, ast.AST] = {}
    for st in block:
        if st is upto:
            break
        if isinstance(st, ast.Assign) and len(st.targets) == 1 and isinstance(st.targets[0], ast.Name) and S.defs.get(st.targets[0].id) is st.value:
            out[st.targets[0].id] = st.value
    return out


def _def_stmt(block: List[ast.stmt], defs: Dict[str, ast.AST], word: str, default: ast.AST) -> ast.AST:
    for st in block:
        if isinstance(st, ast.Assign) and any(st.value is d for d in defs.values()) and word in ast.unparse(st.value):
            return st
    return default


def call_atoms(p, word: str):
    """(atom text, Call node) of the atoms of a normal form that are calls of something whose name contains `word`."""
    out = []
    for k in sorted(alg.atoms(p)):
        try:
            e = ast.parse(k, mode="eval").body
        except SyntaxError:
            continue
        if isinstance(e, ast.Call) and word in ast.unparse(e.func):
            out.append((k, e))
    return out


def single_monomial(p) -> Optional[Dict[str, int]]:
    """atom -> exponent when the normal form is one monomial with coefficient 1."""
    if len(p) != 1:
        return None
    (m, c), = p.items()
    return dict(m) if c == 1 else None


def rule_lookahead(ctx: Ctx, typer: Typer):
    P, X = ctx.P, ctx.X
    C = P.cls("AlphaVectorPolicy")
    v = C.methods["value"]
    t = X.returns(v)
    # np.max(X) is normalised to X.max() (canon.py)
    ok = t.op == "call" and (ext_name(t.args[0]) == "numpy.max" or (t.args[0].op == "attr" and t.args[0].args[1] == "max")) \
        and any(ext_name(x.args[0]) == "numpy.einsum" for x in walk(t) if x.op == "call")
    ctx.check(ok, "LA-1", v, v.node, "alpha-vector value = max over alpha vectors of <alpha, b>", "", "value is not the upper envelope of the alpha vectors")
    SV = Snips(v)
    es = [(n, e) for n, e in SV.find("np.einsum(E_spec, self.alpha_vectors, ANY)") if isinstance(n, ast.Call)]
    spec = es[0][1]["spec"] if es else None
    if isinstance(spec, ast.Name) and spec.id in SV.defs:
        spec = SV.defs[spec.id]
    ok = isinstance(spec, ast.Constant) and isinstance(spec.value, str) and spec.value.replace(" ", "") in ("ds,s->d",)
    ctx.check(ok, "LA-1", v, es[0][0] if es else v.node, "inner product contracts the state axis of alpha vectors and belief", "", "contraction is not over the state axis")
    av = C.methods["action_value"]
    b, a = av.positional_params[1:3]
    SA = Snips(av)
    accs = [n for n in fn_body_nodes(av) if isinstance(n, ast.AugAssign) and isinstance(n.op, ast.Add)]
    if len(accs) != 2:
        ctx.unknown("LA-1", av, av.node, "look-ahead accumulation", f"{len(accs)} accumulations")
        return
    rw, fu = accs
    lps = enclosing_loops(av, rw)
    i0, i1 = items_loop_info(lps[0]), items_loop_info(lps[1]) if len(lps) > 1 else None
    if i0 and i1:
        # the summand as the code computes it: temporaries named in the inner loop body before the accumulation are written out, so the
        # rule reads the same product whether the reward is named first or used in place
        tmp = block_defs(SA, lps[1].body, rw)
        p = alg.normalise(written_out(rw.value, tmp))
        rc = call_atoms(p, "reward")
        ok = len(rc) == 1 and not rc[0][1].keywords and [ast.unparse(x) for x in rc[0][1].args] == [i0[3], a, i1[3]] and i1[1] == "next_state_dist" and i1[2] == [i0[3], a]
        ctx.check(ok, "LA-1", av, _def_stmt(lps[1].body, tmp, "reward", rw), "one-step reward = reward(s, a, ns) over next_state_dist(s, a)", "", "one-step reward is not reward(s, a, ns) of the enumerated transition")
        rv = rc[0][0] if len(rc) == 1 else "?"
        want = {tuple(sorted(((rv, 1), (i0[4], 1), (i1[4], 1)))): Fraction(1)}
        ctx.check(p == want, "LA-1", av, rw, "expected reward summand = r * b(s) * T(ns|s,a)", alg.show(p), f"summand is `{alg.show(p)}`")
    lp2 = enclosing_loops(av, fu)
    j = items_loop_info(lp2[0]) if lp2 else None
    if j:
        ok = j[1] == "predictive_observation_dist" and j[2][1:] == [a]
        ctx.check(ok, "LA-1", av, lp2[0], f"future term sums over predictive_observation_dist(belief, {a})", "", f"future term enumerates {j[1]}({', '.join(j[2])})")
        tmp = block_defs(SA, lp2[-1].body, fu)
        full = written_out(fu.value, tmp)
        p = alg.normalise(full)
        ec = [c for c in ast.walk(full) if isinstance(c, ast.Call) and "state_estimator" in ast.unparse(c.func)]
        ok = bool(ec) and all(not c.keywords and [ast.unparse(x) for x in c.args] == [j[2][0], a, j[3]] for c in ec)
        ctx.check(ok, "LA-1", av, _def_stmt(lp2[-1].body, tmp, "state_estimator", fu), "successor belief = state_estimator(same belief, same action, enumerated observation)", "",
                  "the successor belief is not the posterior of the same belief and action under the enumerated observation")
        mono = single_monomial(p)
        vtext = f"self.value({alg.text(ec[0])})" if ec else "self.value(?)"
        rest = {k: e for k, e in mono.items() if k != j[4]} if mono is not None else None
        ctx.check(rest == {"self.pomdp.discount_rate": 1, vtext: 1}, "LA-1", av, _def_stmt(lp2[-1].body, tmp, "self.value(", fu), "future value = gamma * V(successor belief)", alg.show(p),
                  f"future summand is `{alg.show(p)}`: apart from the observation probability it must be discount_rate * {vtext}")
        ok = mono is not None and mono.get(j[4]) == 1 and len(mono) > 1
        ctx.check(ok, "LA-1", av, fu, "future summand = P(o) * discounted successor value", alg.show(p), f"summand is `{alg.show(p)}`")


def rule_qmdp(ctx: Ctx):
    P = ctx.P
    C = P.cls("QMDPPolicy")
    av = C.methods["action_value"]
    b, a = av.positional_params[1:3]
    accs = [n for n in fn_body_nodes(av) if isinstance(n, ast.AugAssign)]
    lps = [n for n in fn_body_nodes(av) if isinstance(n, ast.For)]
    unp = [n for n in fn_body_nodes(av) if isinstance(n, ast.Assign) and isinstance(n.targets[0], ast.Tuple) and ast.unparse(n.value) == b]
    if accs and lps and unp:
        names = [e.id for e in unp[0].targets[0].elts]
        ok = ast.unparse(lps[0].iter).replace(" ", "") == f"zip({names[0]},{names[1]})"
        ctx.check(ok, "QMDP-1", av, lps[0], "iterates the belief's own (state, probability) pairs", "", f"iterates `{ast.unparse(lps[0].iter)}`")
        sv, pv = [e.id for e in lps[0].target.elts]
        p = alg.normalise(written_out(accs[0].value, block_defs(Snips(av), lps[0].body, accs[0])))
        want = {tuple(sorted(((f"self.sa_values[{sv}][{a}]", 1), (pv, 1)))): Fraction(1)}
        ctx.check(p == want, "QMDP-1", av, accs[0], "QMDP action value = sum_s b(s) * Q_MDP[s][a]", alg.show(p), f"summand is `{alg.show(p)}`")
    else:
        ctx.unknown("QMDP-1", av, av.node, "QMDP action value", "idiom not recognised")
    v = C.methods["value"]
    vb = v.positional_params[1]
    ctx.check(Snips(v).has(f"max([self.action_value({vb}, a) for a in self.pomdp.action_list])"), "QMDP-1", v, v.node, "QMDP value = max over actions of its action value", "", "value is not the max of the action values")
    po = P.cls("qmdp.QMDP").methods["plan_on"]
    qp = po.positional_params[1]
    ok = Snips(po).solve([f"mdp_res = self.mdp_solver.plan_on({qp})", "sa_values = mdp_res.action_value", f"QMDPPolicy({qp}, sa_values)"]) is not None
    ctx.check(ok, "QMDP-1", po, po.node, "Q_MDP is the action_value of the MDP solver's result on the same problem", "", "Q_MDP wiring changed")
    init = C.methods["__init__"]
    ctx.check("self.sa_values = stateaction_values" in ast.unparse(init.node), "QMDP-1", init, init.node, "policy stores the given state-action values", "", "state-action values are not stored")


def run(ctx: Ctx):
    P = ctx.P
    G = CallGraph(P, ctx.X)
    typer = Typer(param_roles={"belief_set": ("B", "S"), "b": ("S",)}, ms_params=("belief_set", "b"))
    f = rule_backup(ctx, typer)
    rule_cfg2(ctx, f)
    rule_wiring(ctx)
    rule_lookahead(ctx, typer)
    rule_qmdp(ctx)
    # next_beliefs: push-forward of the belief
    nb = P.fn("pointbasedvalueiteration.next_beliefs")
    t = simplify(ctx.X.returns(nb))
    check_einsums(ctx, t, typer, nb)
    mods = ("msdm.algorithms.pointbasedvalueiteration", "msdm.algorithms.qmdp", "msdm.core.pomdp.alphavectorpolicy")
    arg_permutation_rule(ctx, G, [x for x in P.all_functions() if x.module.name in mods], "ARG")
    for r, k in (("TEN-1", 10), ("TEN-3", 2), ("BEL-1", 4), ("BEL-2", 2), ("SEL-1", 1), ("STOP-1", 2), ("CFG-2", 1), ("WIRE-1", 5),
                 ("LA-1", 8), ("QMDP-1", 5), ("ARG", 3)):
        ctx.require(r, k)
    ctx.assume("Pineau et al. 2003: point-based backups from alpha = 0 stay lower bounds; QMDP is an upper bound (Littman et al. 1995)")

"""RNG-6: no hash-order leak.  Find set-typed expressions and classify their consumers."""
from __future__ import annotations

import ast
from typing import Dict, List, Optional, Set

from ..callgraph import CallGraph, ext_name
from ..cfg import cfg_of
from ..dag import T
from ..model import FunctionInfo, ClassInfo, dotted
from ..report import Ctx, PASS, VIOLATION, UNKNOWN
from ..util import name_free, norm, parents, fn_body_nodes, walk_local, kwarg

SET_METHODS_RET_SET = {"union", "intersection", "difference", "symmetric_difference", "copy"}
ORDER_FREE_CALLS = {"len", "set", "frozenset", "any", "all", "bool", "isinstance", "max", "min", "id", "type", "repr", "str", "print"}
ORDER_CONSUMING_CALLS = {"list", "tuple", "domaintuple", "enumerate", "zip", "iter", "next", "array", "asarray",
                         "fromkeys", "uniform", "UniformDistribution", "choice", "choices", "sample", "shuffle",
                         "concatenate", "join", "sum", "reversed", "deque", "OrderedDict", "dict", "fromiter", "stack"}
SET_MUTATORS = {"add", "update", "discard", "remove", "clear", "difference_update", "intersection_update",
                "issubset", "issuperset", "isdisjoint", "symmetric_difference_update"}

# Sites the generic rule cannot decide, confirmed by reading; one line of reason each.  Keyed by
# (function, construct with locals replaced by their definitions, see util.name_free).  `recheck` names a condition that is re-verified on every run.
TRIAGE = {
    ("MarkovDecisionProcess.reachable_states", "set({_ for _, _ in self.initial_state_dist().items() if _ > 0}).pop()"): dict(
        verdict=PASS, recheck="no_max_states_callers",
        reason="pop() drives a closure worklist; the closure is order-free as long as no caller passes the max_states cut-off"),
    ("DoubleQLearning._training", "for _ in set(self._initial_q_table(mdp).keys()) | set(self._initial_q_table(mdp).keys())"): dict(
        verdict=PASS,
        reason="fills a result mapping that is looked up by key (policy) and compared with ==; every value is computed per key"),
}


class SetTyper:
    def __init__(self, G: CallGraph):
        self.G = G
        self.P = G.P
        self.X = G.X
        self._fn_ret: Dict[int, Optional[bool]] = {}

    def fn_returns_set(self, f: FunctionInfo) -> bool:
        k = id(f)
        if k in self._fn_ret:
            return bool(self._fn_ret[k])
        self._fn_ret[k] = False
        if f.is_abstract:
            return False
        try:
            r = self.X.returns(f)
        except RecursionError:
            return False
        ok = self._is(r, 1) is True
        self._fn_ret[k] = ok
        return ok

    def is_set(self, t: T, depth: int = 0) -> bool:
        return self._is(t, depth) is True

    def _is(self, t: T, depth: int = 0) -> Optional[bool]:
        """True: definitely a set; False: definitely something else / unknown origin; None: loop-carried
        placeholder (prev/undef) that takes the type of the other alternatives."""
        if depth > 40:
            return False
        op = t.op
        if op in ("prev", "undef"):
            return None
        if op == "set":
            return True
        if op == "comp":
            return t.args[0] == "set"
        if op == "call":
            f = t.args[0]
            if f.op == "builtin" and f.args[0] in ("set", "frozenset"):
                return True
            if f.op == "attr":
                base, name = f.args
                if base.op == "builtin" and base.args[0] in ("set", "frozenset") and name in SET_METHODS_RET_SET:
                    return True
                if name in SET_METHODS_RET_SET and self.is_set(base, depth + 1):
                    return True
                cl = self.G.classes_of(base)
                targets: List[FunctionInfo] = []
                if cl:
                    for c in cl:
                        _, m = c.lookup(name)
                        if isinstance(m, FunctionInfo):
                            targets.append(m)
                elif base.op not in ("modref", "builtin", "classref") and self.G.builtin_type_of(base) is None:
                    targets = [m for m in self.P.methods_named(name) if not m.is_abstract]
                if targets and all(self.fn_returns_set(m) for m in targets):
                    return True
                return False
            if f.op == "funcref" and isinstance(f.args[0], FunctionInfo):
                return self.fn_returns_set(f.args[0])
            return False
        if op == "binop":
            if t.args[0] in ("|", "&", "-", "^"):
                return self.is_set(t.args[1], depth + 1) or self.is_set(t.args[2], depth + 1)
            return False
        if op == "mut":
            return self._is(t.args[1], depth + 1)
        if op == "phi":
            vals = [self._is(a, depth + 1) for a in t.args[0]]
            if any(v is False for v in vals):
                return False
            if any(v is True for v in vals):
                return True
            return None
        if op == "ifexp":
            return self.is_set(t.args[1], depth + 1) and self.is_set(t.args[2], depth + 1)
        if op == "attr":
            base, name = t.args
            cl = self.G.classes_of(base)
            if cl:
                ok = []
                for c in cl:
                    _, m = c.lookup(name)
                    if isinstance(m, FunctionInfo) and m.is_property:
                        ok.append(self.fn_returns_set(m))
                    else:
                        ok.append(False)
                return bool(ok) and all(ok)
            return False
        return False


def _has_set_source(fi: FunctionInfo, set_fn_names: Set[str]) -> bool:
    for n in fn_body_nodes(fi):
        if isinstance(n, (ast.Set, ast.SetComp)):
            return True
        if isinstance(n, ast.Call):
            f = n.func
            nm = f.id if isinstance(f, ast.Name) else (f.attr if isinstance(f, ast.Attribute) else None)
            if nm in ("set", "frozenset") or nm in SET_METHODS_RET_SET or nm in set_fn_names:
                return True
        if isinstance(n, ast.Attribute) and n.attr in set_fn_names:
            return True
    return False


def _loop_body_verdict(body: List[ast.stmt]):
    """(verdict, reason) for `for x in <set>: body`."""
    reasons_bad = []
    unknown = []
    for st in body:
        for n in walk_local(st):
            if isinstance(n, ast.Call) and isinstance(n.func, ast.Attribute):
                a = n.func.attr
                if a in ("append", "extend", "insert", "appendleft"):
                    reasons_bad.append(f"appends to a sequence ({norm(n, 50)})")
                elif a in ("random", "choice", "choices", "shuffle", "sample", "randint", "uniform"):
                    reasons_bad.append(f"draws from a generator ({norm(n, 50)})")
                elif a in SET_MUTATORS or a in ("get", "items", "keys", "values"):
                    pass
                else:
                    unknown.append(norm(n, 50))
            elif isinstance(n, ast.Call):
                unknown.append(norm(n, 50))
            elif isinstance(n, (ast.Return, ast.Break, ast.Yield, ast.YieldFrom)):
                reasons_bad.append(f"{type(n).__name__.lower()} inside the loop: which element is reached first depends on set order")
            elif isinstance(n, ast.Assign):
                for t in n.targets:
                    if isinstance(t, ast.Subscript):
                        unknown.append(f"mapping/array store {norm(t, 40)} (insertion order follows set order)")
            elif isinstance(n, ast.AugAssign):
                unknown.append(f"accumulation {norm(n, 40)} (floating-point sums are order-sensitive)")
    if reasons_bad:
        return VIOLATION, "; ".join(reasons_bad[:3])
    if unknown:
        return UNKNOWN, "; ".join(unknown[:3])
    return PASS, "loop body only tests membership / updates sets"


def _key_draws(key_node: ast.AST) -> bool:
    for n in ast.walk(key_node):
        if isinstance(n, ast.Call) and isinstance(n.func, ast.Attribute) and n.func.attr in (
                "random", "choice", "uniform", "randint", "shuffle", "sample"):
            return True
    return False


def _recheck_no_max_states_callers(ctx: Ctx, G: CallGraph) -> Optional[str]:
    """None when no call site in the analysed package passes max_states to reachable_states."""
    for f in ctx.P.all_functions():
        for n in fn_body_nodes(f):
            if isinstance(n, ast.Call) and isinstance(n.func, ast.Attribute) and n.func.attr == "reachable_states":
                if n.args or n.keywords:
                    return f"{f.loc(n)} passes a cut-off to reachable_states"
    return None


def _self_tables(fi: FunctionInfo, depth: int = 2, seen=None):
    """(written, read): attribute chains `self.a.b` that the method stores into by subscript / reads by subscript, following
    `self.m(...)` calls of the same class (MRO) up to `depth`."""
    seen = seen if seen is not None else set()
    if id(fi) in seen or fi.cls is None:
        return set(), set()
    seen.add(id(fi))
    sn = fi.self_name
    w, r = set(), set()
    for n in ast.walk(fi.node):
        if isinstance(n, ast.Subscript) and isinstance(n.value, ast.Attribute):
            ch = dotted(n.value)
            if ch and ch.split(".")[0] == sn:
                (w if isinstance(n.ctx, ast.Store) else r).add(ch.split(".", 1)[1])
        if depth > 0 and isinstance(n, ast.Call) and isinstance(n.func, ast.Attribute) and isinstance(n.func.value, ast.Name) and n.func.value.id == sn:
            _, m = fi.cls.lookup(n.func.attr)
            if isinstance(m, FunctionInfo):
                w2, r2 = _self_tables(m, depth - 1, seen)
                w |= w2
                r |= r2
    return w, r


def _sweep_in_set_order(fi: FunctionInfo, loop: ast.AST, elem: str):
    """a call `self.m(.., elem, ..)` in the loop whose callee updates, in place, a table that the update itself reads
    (a Gauss-Seidel sweep): each update sees the entries written by the earlier ones, so the result depends on the order."""
    if fi.cls is None:
        return None
    for c in ast.walk(loop):
        if isinstance(c, ast.Call) and isinstance(c.func, ast.Attribute) and isinstance(c.func.value, ast.Name) and c.func.value.id == fi.self_name \
                and any(isinstance(a, ast.Name) and a.id == elem for a in c.args):
            _, m = fi.cls.lookup(c.func.attr)
            if isinstance(m, FunctionInfo):
                w, r = _self_tables(m)
                both = sorted(w & r)
                if both:
                    return f"self.{c.func.attr}({elem}) updates self.{both[0]}[...] in place from other entries of the same table: the sweep's result depends on the order of the elements"
    return None


def classify_use(ctx: Ctx, G: CallGraph, typer: SetTyper, fi: FunctionInfo, node: ast.AST, pm, depth: int = 0):
    """classify how the value of set-typed (or ordered-from-set) expression `node` is consumed.
    returns (verdict, reason) or None when the use is not a consumer (value simply passed on)."""
    par = pm.get(id(node))
    if par is None:
        return None
    if isinstance(par, ast.Call):
        if node is par.func:
            return None
        f = par.func
        nm = f.id if isinstance(f, ast.Name) else (f.attr if isinstance(f, ast.Attribute) else None)
        if nm == "sorted":
            k = kwarg(par, "key")
            if k is None:
                return PASS, "sorted() without key"
            if _key_draws(k):
                return VIOLATION, "sorted(<set>, key=<generator draw>): elements are paired with draws in set order"
            return UNKNOWN, "sorted(<set>, key=k): deterministic only if k is injective"
        if nm in ORDER_FREE_CALLS and not (nm in ("max", "min") and kwarg(par, "key") is not None):
            return PASS, f"{nm}() is order-insensitive"
        if nm in ("max", "min"):
            return UNKNOWN, f"{nm}(<set>, key=k): ties are broken in set order"
        if nm in ORDER_CONSUMING_CALLS:
            if nm == "sum":
                return UNKNOWN, "sum over a set (floating-point sums are order-sensitive)"
            # the ordered value created from the set: how is *it* used?
            if depth < 3:
                r = classify_use(ctx, G, typer, fi, par, pm, depth + 1)
                if r is not None and r[0] == PASS:
                    return PASS, f"{nm}(<set>) only feeds an order-insensitive consumer ({r[1]})"
                if r is not None and r[0] == VIOLATION:
                    return r
            return VIOLATION, f"{nm}(<set>) creates an ordered value whose order is the set's hash order"
        return None    # passed on as a set
    if isinstance(par, ast.Compare):
        return PASS, "comparison / membership test"
    if isinstance(par, ast.BinOp) and isinstance(par.op, (ast.BitOr, ast.BitAnd, ast.Sub, ast.BitXor)):
        return None    # result is a set, analysed itself
    if isinstance(par, (ast.BoolOp, ast.UnaryOp, ast.If, ast.While, ast.IfExp, ast.Assert)):
        return PASS, "truthiness"
    if isinstance(par, (ast.FormattedValue, ast.JoinedStr)):
        return PASS, "formatted into a message"
    if isinstance(par, ast.Attribute):
        gp = pm.get(id(par))
        if isinstance(gp, ast.Call) and gp.func is par:
            a = par.attr
            if a in SET_MUTATORS or a in SET_METHODS_RET_SET:
                return (PASS, f".{a}() is order-insensitive") if a in SET_MUTATORS else None
            if a == "pop":
                ggp = pm.get(id(gp))
                if isinstance(ggp, ast.Expr):
                    return PASS, "pop() result unused"
                # (written after seed C13-b) the popped element drives an in-place sweep
                if isinstance(ggp, ast.Assign) and len(ggp.targets) == 1 and isinstance(ggp.targets[0], ast.Name):
                    lp_ = ggp
                    while lp_ is not None and not isinstance(lp_, (ast.While, ast.For)):
                        lp_ = pm.get(id(lp_))
                    why = _sweep_in_set_order(fi, lp_, ggp.targets[0].id) if lp_ is not None else None
                    if why:
                        return VIOLATION, "pop() from a set: " + why
                return UNKNOWN, "pop() returns an arbitrary element (worklist idiom?)"
            return UNKNOWN, f"method .{a}() on a set"
        return None
    if isinstance(par, ast.comprehension) and par.iter is node:
        comp = pm.get(id(par))
        if isinstance(comp, ast.SetComp):
            return PASS, "set comprehension"
        if isinstance(comp, (ast.ListComp, ast.GeneratorExp)):
            if depth < 3:
                r = classify_use(ctx, G, typer, fi, comp, pm, depth + 1)
                if r is not None:
                    if r[0] == PASS:
                        return PASS, f"comprehension over a set feeding an order-insensitive consumer ({r[1]})"
                    return r
            return VIOLATION, "sequence comprehension over a set: element order is hash order"
        if isinstance(comp, ast.DictComp):
            return UNKNOWN, "dict comprehension over a set: insertion order is hash order"
        return None
    if isinstance(par, (ast.For, ast.AsyncFor)) and par.iter is node:
        v_, why_ = _loop_body_verdict(par.body)
        if v_ != VIOLATION and isinstance(par.target, ast.Name):
            sw = _sweep_in_set_order(fi, par, par.target.id)
            if sw:
                return VIOLATION, "iteration over a set: " + sw
        return v_, why_
    if isinstance(par, ast.Starred):
        return UNKNOWN, "*<set> unpacking"
    if isinstance(par, ast.Subscript) and par.value is node:
        return VIOLATION, "indexing an ordered value derived from a set"
    if isinstance(par, ast.Return) and depth > 0:
        return VIOLATION, "an ordered value derived from a set is returned"
    if isinstance(par, (ast.Assign, ast.AnnAssign)) and depth > 0:
        return VIOLATION, "an ordered value derived from a set is stored"
    if isinstance(par, ast.keyword) and depth > 0:
        return VIOLATION, "an ordered value derived from a set is passed on"
    return None


def rule_rng6(ctx: Ctx, G: CallGraph, fns: List[FunctionInfo], rule: str = "RNG-6"):
    typer = SetTyper(G)
    P = ctx.P
    set_fn_names = {f.name for f in P.all_functions() if not f.is_lambda and typer.fn_returns_set(f)}
    ctx.extra["set_returning_functions"] = sorted(set_fn_names)
    seen_sites = 0
    for fi in fns:
        if fi.is_lambda and fi.parent in fns:
            pass
        if not _has_set_source(fi, set_fn_names):
            continue
        pm = parents(fi)
        cfg = cfg_of(fi)
        for node in fn_body_nodes(fi):
            if not isinstance(node, (ast.Name, ast.Attribute, ast.Call, ast.Set, ast.SetComp, ast.BinOp)):
                continue
            if isinstance(node, (ast.Name, ast.Attribute)) and not isinstance(node.ctx, ast.Load):
                continue
            if cfg.node_for(node) is None:
                continue
            try:
                t = ctx.X.expr(fi, node)
            except RecursionError:
                continue
            if not typer.is_set(t):
                continue
            r = classify_use(ctx, G, typer, fi, node, pm)
            if r is None:
                continue
            seen_sites += 1
            verdict, reason = r
            par = pm.get(id(node))
            if isinstance(par, (ast.For, ast.AsyncFor)):
                construct = f"for _ in {name_free(fi, node)}"
            elif isinstance(par, ast.Attribute):
                construct = name_free(fi, pm.get(id(par)))
            elif isinstance(par, ast.comprehension):
                construct = f"comprehension over {name_free(fi, node)}"
            else:
                construct = name_free(fi, par)
            from ..report import short_fn
            tri = TRIAGE.get((short_fn(fi), construct))
            if tri is not None and verdict == UNKNOWN:
                problem = None
                if tri.get("recheck") == "no_max_states_callers":
                    problem = _recheck_no_max_states_callers(ctx, G)
                if problem is None:
                    verdict, reason = tri["verdict"], "triaged: " + tri["reason"]
                else:
                    reason = f"triage condition no longer holds: {problem}"
            ctx.ob(rule, fi, node, construct, verdict, reason)
    ctx.extra["set_sites_classified"] = seen_sites

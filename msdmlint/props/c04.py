"""C04 — LRTDP.  Bellman form of Q, guarded reads of the lazily defaulted value table (BEL-7), labelling, trial loop,
cache completeness of the per-state action order, result assembly."""
from __future__ import annotations

import ast
from fractions import Fraction
from typing import Dict, List, Optional

from .. import alg
from ..callgraph import CallGraph
from ..cfg import cfg_of
from ..model import FunctionInfo, AnalysisError
from ..report import Ctx
from ..util import norm, fn_body_nodes, walk_local, kwarg, is_none_test
from .common import arg_permutation_rule, names_in, calls_named
from .c07 import items_loop_info, enclosing_loops

EXPLANATION = (
    "Structural necessary conditions of C04 on LRTDP: Q is the one-step backup with zero future value at absorbing successors "
    "and 0 at absorbing states; the Bellman update is the max of that Q over mdp.actions(s); labelling compares |V - Q(greedy)| "
    "with the configured margin and marks states solved only on the flag-true path; a trial samples the successor of the greedy "
    "action of the current state and labels absorbing successors solved; the per-state (possibly shuffled) action order is cached "
    "on every path that computes it (fixed tie-breaking); every reported read of the lazily defaulted value table is "
    "absorbing-aware; converged is assigned on every exit of the trial loop; the result's Q, policy and initial value are "
    "assembled from that table. The epsilon bound and termination depend on sampled histories and are not decided.")
RULES = ("BEL-2 Q increment normal form; BEL-7 value-table reads are guarded by `not is_absorbing` or go through an absorbing-aware default; "
         "UPD-1 Bellman update; LAB-1..3 labelling; TRIAL-1..3 trial loop; CACHE-1 lookup-or-compute cache stores on every computing path; "
         "GRD-1 greedy action from the state's own action list; BEL-5 converged assigned on every exit; BEL-6 initial value; RES-1 result assembly")


def cache_completeness(ctx: Ctx, f: FunctionInfo, rule="CACHE-1") -> int:
    """lookup-or-compute idiom:  if k in M: x = M[k]  else: x = compute ; M[k] = x   -- the store must lie on every path from a
    computing definition of x to the function's exit."""
    cfg = cfg_of(f)
    n = 0
    for g in cfg.nodes:
        if g.kind != "if":
            continue
        t = g.ast.test
        if not (isinstance(t, ast.Compare) and len(t.ops) == 1 and isinstance(t.ops[0], ast.In)):
            continue
        key, cache = ast.unparse(t.left), ast.unparse(t.comparators[0])
        hit = [s for s in g.ast.body if isinstance(s, ast.Assign) and isinstance(s.value, ast.Subscript)
               and ast.unparse(s.value.value) == cache and ast.unparse(s.value.slice) == key and isinstance(s.targets[0], ast.Name)]
        if not hit or not g.ast.orelse:
            continue
        var = hit[0].targets[0].id
        stores = [s for s in ast.walk(f.node) if isinstance(s, ast.Assign) and isinstance(s.targets[0], ast.Subscript)
                  and ast.unparse(s.targets[0].value) == cache and ast.unparse(s.targets[0].slice) == key]
        computes = [s for st in g.ast.orelse for s in ast.walk(st) if isinstance(s, ast.Assign) and any(isinstance(x, ast.Name) and x.id == var for x in s.targets)]
        n += 1
        inst = f"cache {cache}[{key}] of `{var}`"
        if not stores:
            ctx.violation(rule, f, g.ast, inst, f"`{var}` is computed on a cache miss but never stored into {cache}[{key}]: repeated calls recompute it (differently when it is randomised)")
            continue
        snodes = {cfg.node_for(s) for s in stores}
        bad = [c for c in computes if not cfg.all_paths_pass(cfg.node_for(c), cfg.exit.id, snodes)]
        ok = not bad and all(ast.unparse(s.value) == var for s in stores)
        ctx.check(ok, rule, f, stores[0], inst, "every computing path stores into the cache",
                  f"after `{norm(bad[0], 50) if bad else ''}` some path reaches the return without `{cache}[{key}] = {var}`: the order computed there "
                  f"(a fresh shuffle) is not remembered, so ties are broken differently on each call")
    return n


def run(ctx: Ctx):
    P = ctx.P
    G = CallGraph(P, ctx.X)
    C = P.cls("lrtdp.LRTDP")
    # ---------------- Q
    q = C.methods["Q"]
    mdp, s, a = q.positional_params[1:4]
    first = q.node.body[0]
    ok = isinstance(first, ast.If) and ast.unparse(first.test) == f"{mdp}.is_absorbing({s})" and isinstance(first.body[0], ast.Return) \
        and isinstance(first.body[0].value, ast.Constant) and first.body[0].value.value == 0
    ctx.check(ok, "BEL-2", q, first, "Q(s, .) = 0 at absorbing states (tested first)", "", "absorbing states do not short-circuit to 0")
    accs = [n for n in fn_body_nodes(q) if isinstance(n, ast.AugAssign) and isinstance(n.op, ast.Add)]
    lps = [n for n in fn_body_nodes(q) if isinstance(n, ast.For)]
    info = items_loop_info(lps[0]) if lps else None
    if accs and info:
        ns, pr = info[3], info[4]
        ctx.check(info[1] == "next_state_dist" and info[2] == [s, a], "BEL-2", q, lps[0], f"Q sums over next_state_dist({s}, {a})", "", f"Q enumerates {info[1]}({', '.join(info[2])})")
        p = alg.normalise(accs[0].value)
        fut = [k for m in p for k, _ in m if k not in (pr, f"{mdp}.discount_rate") and not k.startswith(f"{mdp}.reward")]
        fvar = fut[0] if fut else "?"
        want = {tuple(sorted(((pr, 1), (f"{mdp}.reward({s}, {a}, {ns})", 1)))): Fraction(1),
                tuple(sorted(((pr, 1), (f"{mdp}.discount_rate", 1), (fvar, 1)))): Fraction(1)}
        ctx.check(p == want, "BEL-2", q, accs[0], "Q increment = p*reward(s,a,ns) + p*gamma*future", alg.show(p), f"increment normalises to `{alg.show(p)}`")
        # BEL-7: the future value is read only for non-absorbing successors
        cfg = cfg_of(q)
        reads = [n for n in ast.walk(lps[0]) if isinstance(n, ast.Subscript) and ast.unparse(n.value).endswith(".V") and isinstance(n.ctx, ast.Load)]
        for r in reads:
            node = cfg.node_for(r)
            gs = [(cfg.nodes[b].ast.test, lab) for b, lab in cfg.guards(node) if cfg.nodes[b].kind == "if"]
            ok = any(ast.unparse(t) == f"not {mdp}.is_absorbing({ast.unparse(r.slice)})" and lab.startswith("T") for t, lab in gs)
            ctx.check(ok, "BEL-7", q, r, f"read V[{ast.unparse(r.slice)}] is guarded by `not is_absorbing`", "", f"`{norm(r)}` is read for absorbing successors too: the heuristic's value of a terminal state leaks into Q")
            ctx.check(ast.unparse(r.slice) == ns, "BEL-7", q, r, "future value is read at the enumerated successor", "", f"future value read at `{ast.unparse(r.slice)}`")
        zero = [n for n in ast.walk(lps[0]) if isinstance(n, ast.Assign) and ast.unparse(n.targets[0]) == fvar and isinstance(n.value, ast.Constant) and n.value.value == 0]
        ctx.check(bool(zero), "BEL-7", q, lps[0], "future value defaults to 0 (absorbing successors)", "", "future value is not reset to 0 for each successor")
    else:
        ctx.violation("BEL-2", q, q.node, "Q accumulation", "Q does not accumulate over successors")
    # ---------------- Bellman update
    bu = C.methods["_bellman_update"]
    st = [n for n in fn_body_nodes(bu) if isinstance(n, ast.Assign)]
    bm, bs = bu.positional_params[1:3]
    ok = bool(st) and ast.unparse(st[0].targets[0]).endswith(f".V[{bs}]") and ast.unparse(st[0].value).replace(" ", "") == f"max((self.Q({bm},{bs},a)forain{bm}.actions({bs})))"
    ctx.check(ok, "UPD-1", bu, st[0] if st else bu.node, "V[s] = max over mdp.actions(s) of Q(s, a)", "", f"Bellman update is `{norm(st[0]) if st else None}`")
    # ---------------- labelling
    cs = C.methods["_check_solved"]
    cfg = cfg_of(cs)
    res = [n for n in fn_body_nodes(cs) if isinstance(n, ast.Assign) and ast.unparse(n.targets[0]) == "residual"]
    ok = bool(res) and ast.unparse(res[0].value).replace(" ", "") == "self.res.V[s]-self.Q(mdp,s,self.policy(mdp,s))"
    ctx.check(ok if ok else None, "LAB-1", cs, res[0] if res else cs.node, "residual = V[s] - Q(s, greedy(s))", "", "idiom not recognised")
    cmpn = [n for n in cfg.nodes if n.kind == "if" and "residual" in ast.unparse(n.ast.test)]
    if cmpn:
        t = cmpn[0].ast.test
        ok = isinstance(t, ast.Compare) and isinstance(t.ops[0], ast.Gt) and ast.unparse(t.left) == "abs(residual)" and ast.unparse(t.comparators[0]) == "self.bellman_error_margin"
        ctx.check(ok, "LAB-1", cs, cmpn[0].ast, "residual test: |residual| > configured bellman_error_margin", norm(t), f"residual test is `{norm(t)}`")
        falses = [s for s in cmpn[0].ast.body if isinstance(s, ast.Assign) and ast.unparse(s.targets[0]) == "flag" and ast.unparse(s.value) == "False"]
        ctx.check(bool(falses), "LAB-1", cs, cmpn[0].ast, "a residual above the margin clears the flag", "", "the flag is not cleared when the residual exceeds the margin")
    else:
        ctx.violation("LAB-1", cs, cs.node, "residual test", "no residual comparison")
    marks = [n for n in ast.walk(cs.node) if isinstance(n, ast.Assign) and ".solved[" in ast.unparse(n.targets[0]) and ast.unparse(n.value) == "True"]
    for mk in marks:
        node = cfg.node_for(mk)
        gs = [(ast.unparse(cfg.nodes[b].ast.test), lab) for b, lab in cfg.guards(node) if cfg.nodes[b].kind == "if"]
        ok = any(t == "flag" and lab.startswith("T") for t, lab in gs)
        ctx.check(ok, "LAB-2", cs, mk, "states are labelled solved only on the flag-true path", str(gs), "states can be labelled solved although a residual exceeded the margin")
    if not marks:
        ctx.violation("LAB-2", cs, cs.node, "solved labels", "no state is ever labelled solved")
    init = [n for n in fn_body_nodes(cs) if isinstance(n, ast.Assign) and ast.unparse(n.targets[0]) == "flag" and not any(n is x for l in [w for w in ast.walk(cs.node) if isinstance(w, (ast.While, ast.For))] for x in ast.walk(l))]
    ctx.check(bool(init) and ast.unparse(init[0].value) == "True", "LAB-2", cs, init[0] if init else cs.node, "flag starts True", "", "flag initialisation changed")
    rets = [n for n in fn_body_nodes(cs) if isinstance(n, ast.Return)]
    ctx.check(bool(rets) and ast.unparse(rets[0].value) == "flag", "LAB-2", cs, rets[0] if rets else cs.node, "returns the flag", "", "does not return the flag")
    succ = [n for n in ast.walk(cs.node) if isinstance(n, ast.For) and ".support" in ast.unparse(n.iter)]
    ok = bool(succ) and ast.unparse(succ[0].iter).replace(" ", "") == "mdp.next_state_dist(s,self.policy(mdp,s)).support"
    ctx.check(ok if ok else None, "LAB-3", cs, succ[0] if succ else cs.node, "expansion follows the greedy action's successors", "", "idiom not recognised")
    upd = [c for c in ast.walk(cs.node) if isinstance(c, ast.Call) and ast.unparse(c.func) == "self._bellman_update"]
    ctx.check(bool(upd), "LAB-3", cs, upd[0] if upd else cs.node, "unsolved closed states are backed up", "", "closed states are not updated when the check fails")
    # ---------------- trial loop
    tr = C.methods["lrtdp_trial"]
    tm, ts = tr.positional_params[1:3]
    wl = [n for n in fn_body_nodes(tr) if isinstance(n, ast.While)]
    if not wl:
        raise AnalysisError("LRTDP.lrtdp_trial: trial loop vanished")
    w = wl[0]
    ctx.check(ast.unparse(w.test).replace(" ", "") == f"notself.res.solved[{ts}]", "TRIAL-1", tr, w, "trial continues until a solved state is reached", "", f"trial guard is `{norm(w.test)}`")
    samp = [n for n in w.body if isinstance(n, ast.Assign) and ".sample(" in ast.unparse(n.value)]
    if samp:
        v = samp[0].value
        inner = v.func.value if isinstance(v.func, ast.Attribute) else None
        ok = isinstance(inner, ast.Call) and ast.unparse(inner.func) == f"{tm}.next_state_dist" and ast.unparse(inner.args[0]) == ts \
            and ast.unparse(inner.args[1]).replace(" ", "") == f"self.policy({tm},{ts})" and ast.unparse(samp[0].targets[0]) == ts
        ctx.check(ok, "TRIAL-2", tr, samp[0], "successor ~ next_state_dist(s, greedy(s)); the state variable advances to it", "", f"trial step is `{norm(samp[0])}`")
        ctx.check(kwarg(v, "rng") is not None and ast.unparse(kwarg(v, "rng")) == "self.rng", "TRIAL-2", tr, samp[0], "successor sampled with the planner's generator", "", "successor not sampled with self.rng")
        bu_i = [i for i, n in enumerate(w.body) if "self._bellman_update" in ast.unparse(n)]
        ctx.check(bool(bu_i) and bu_i[0] < w.body.index(samp[0]), "TRIAL-2", tr, w, "the current state is backed up before the greedy successor is sampled", "", "backup does not precede sampling")
        ab = [n for n in w.body if isinstance(n, ast.If) and ast.unparse(n.test) == f"{tm}.is_absorbing({ts})"]
        ok = bool(ab) and any(".solved[" in ast.unparse(x) and "True" in ast.unparse(x) for x in ab[0].body) and w.body.index(ab[0]) > w.body.index(samp[0])
        ctx.check(ok, "TRIAL-3", tr, ab[0] if ab else w, "an absorbing successor is labelled solved before the guard is re-evaluated", "", "absorbing successors are not labelled solved (the trial would not stop at them)")
    else:
        ctx.violation("TRIAL-2", tr, w, "trial step", "no successor is sampled in the trial loop")
    post = ast.unparse(tr.node)
    ok = "while self._check_solved(mdp, s) and visited:" in post.replace(tm, "mdp").replace(ts, "s") and "s = visited.pop()" in post
    ctx.check(ok if ok else None, "TRIAL-3", tr, tr.node, "visited states are checked in reverse order", "", "idiom not recognised")
    # ---------------- policy: cache completeness + greedy from own list
    pol = C.methods["policy"]
    n = cache_completeness(ctx, pol)
    rets = [r for r in fn_body_nodes(pol) if isinstance(r, ast.Return)]
    pm, ps = pol.positional_params[1:3]
    ok = bool(rets) and isinstance(rets[0].value, ast.Call) and ast.unparse(rets[0].value.func) == "max" and ast.unparse(rets[0].value.args[0]) == "action_list" \
        and ast.unparse(kwarg(rets[0].value, "key")).replace(" ", "") == f"lambdaa:self.Q({pm},{ps},a)"
    ctx.check(ok, "GRD-1", pol, rets[0] if rets else pol.node, "greedy action = argmax_a Q(s, a) over the state's action list", "", f"greedy action is `{norm(rets[0].value) if rets else None}`")
    srcs = [s for s in ast.walk(pol.node) if isinstance(s, ast.Assign) and ast.unparse(s.targets[0]) == "action_list" and "actions(" in ast.unparse(s.value)]
    ok = bool(srcs) and all(f"{pm}.actions({ps})" in ast.unparse(s.value) for s in srcs)
    ctx.check(ok, "GRD-1", pol, srcs[0] if srcs else pol.node, "the action list is mdp.actions(s) (or a shuffled copy)", "", "action list is not derived from mdp.actions(s)")
    sh = [c for c in ast.walk(pol.node) if isinstance(c, ast.Call) and isinstance(c.func, ast.Attribute) and c.func.attr == "shuffle"]
    if sh:
        ok = ast.unparse(sh[0].func.value) == "self.rng" and ast.unparse(sh[0].args[0]) == "action_list"
        ctx.check(ok, "GRD-1", pol, sh[0], "shuffle uses the planner's generator on a copy", "", "shuffle does not use self.rng")
        cp = [s for s in srcs if ast.unparse(s.value).startswith("list(")]
        ctx.check(bool(cp), "GRD-1", pol, sh[0], "the MDP's own action sequence is copied before shuffling", "", "the MDP's action sequence is shuffled in place")
    # ---------------- value-table default (BEL-7) and converged (BEL-5)
    lr = C.methods["lrtdp"]
    vd = [n for n in fn_body_nodes(lr) if isinstance(n, ast.Assign) and ast.unparse(n.targets[0]) == "self.res.V"]
    if vd and isinstance(vd[0].value, ast.Call) and vd[0].value.args:
        d = vd[0].value.args[0]
        aware = isinstance(d, ast.Lambda) and any(isinstance(x, ast.Call) and isinstance(x.func, ast.Attribute) and x.func.attr == "is_absorbing" for x in ast.walk(d))
        if aware:
            b = d.body
            ok = isinstance(b, ast.IfExp) and isinstance(b.body, ast.Constant) and b.body.value == 0 and "is_absorbing" in ast.unparse(b.test) \
                and ast.unparse(b.test.args[0]) == d.args.args[0].arg and "heuristic" in ast.unparse(b.orelse)
            ctx.check(ok, "BEL-7", lr, vd[0], "value-table default: 0 at absorbing states, the heuristic elsewhere", "", f"default is `{norm(d)}`")
        else:
            # raw default: every reported read must then be guarded
            td = C.methods["_tear_down_plan_on"]
            reads = [x for x in ast.walk(td.node) if isinstance(x, ast.Subscript) and ast.unparse(x.value).endswith(".V") and isinstance(x.ctx, ast.Load)]
            ctx.violation("BEL-7", lr, vd[0], "value-table default is absorbing-aware",
                          f"the lazily defaulted value table falls back to `{norm(d)}` for states never backed up; reported reads ({', '.join(norm(r, 30) for r in reads[:2])}) are not "
                          f"guarded by is_absorbing, so an absorbing state (e.g. an absorbing initial state) is reported with the heuristic's value instead of 0")
    else:
        ctx.unknown("BEL-7", lr, lr.node, "value-table default", "assignment to self.res.V not found")
    cfg = cfg_of(lr)
    cv = [n for n in ast.walk(lr.node) if isinstance(n, ast.Assign) and ast.unparse(n.targets[0]) == "self.res.converged"]
    exits = [n.id for n in cfg.nodes if n.kind == "stmt" and isinstance(n.ast, ast.Return)] + [cfg.exit.id]
    cnodes = {cfg.node_for(s) for s in cv}
    bad = []
    for r in [n for n in cfg.nodes if n.kind == "stmt" and isinstance(n.ast, ast.Return)]:
        if not cfg.all_paths_pass(cfg.entry.id, r.id, cnodes):
            bad.append(r)
    # implicit fall-through exit
    fall = [p for p, lab in cfg.exit.pred if lab != "return"]
    for pnode in fall:
        if pnode not in cnodes and not cfg.all_paths_pass(cfg.entry.id, pnode, cnodes):
            bad.append(cfg.nodes[pnode])
    ctx.check(not bad, "BEL-5", lr, bad[0].ast if bad else lr.node, "converged is assigned on every exit of the trial loop", "",
              f"the exit at line {bad[0].lineno if bad else '?'} leaves lrtdp() without assigning res.converged: a successful run yields a result with no `converged` attribute")
    tv = [n for n in cv if ast.unparse(n.value) == "True"]
    ctx.check(bool(tv), "BEL-5", lr, lr.node, "converged can be True", "", "converged is never set to True")
    early = [n for n in ast.walk(lr.node) if isinstance(n, ast.If) and any(isinstance(b, ast.Return) for b in n.body)]
    ok = bool(early) and ast.unparse(early[0].test).replace(" ", "") == "all((self.res.solved[s]forsinmdp.initial_state_dist().support))"
    ctx.check(ok if ok else None, "BEL-5", lr, early[0] if early else lr.node, "termination test: all initial states labelled solved", "", "idiom not recognised")
    # ---------------- result assembly
    td = C.methods["_tear_down_plan_on"]
    tsrc = ast.unparse(td.node)
    ok = "res.initial_value = sum([res.V[s0] * p for s0, p in mdp.initial_state_dist().items()])" in tsrc
    ctx.check(ok, "BEL-6", td, td.node, "initial_value = expectation of the reported V over initial_state_dist", "", "initial value is not the expectation of the reported V")
    ok = "for s in self.res.V.keys()" in tsrc and "policy_dict[s] = self.policy(mdp, s)" in tsrc and "q_values[s][a] = self.Q(mdp, s, a)" in tsrc and "for a in mdp.actions(s)" in tsrc
    ctx.check(ok, "RES-1", td, td.node, "reported Q and policy are computed from the final V for every touched state and available action", "", "result assembly changed")
    pf = [x for x in td.nested.values()]
    if pf:
        psrc = ast.unparse(pf[0].node)
        ok = "policy_dict[s]" in psrc and "for a in mdp.actions(s)" in psrc and "DictDistribution.uniform(max_actions)" in psrc and "mdp.discount_rate * heuristic(ns)" in psrc
        ctx.check(ok, "RES-1", pf[0], pf[0].node, "returned policy: planned action, else heuristic-greedy over mdp.actions(s)", "", "returned policy changed")
    po = C.methods["plan_on"]
    posrc = ast.unparse(po.node)
    ok = posrc.index("self._set_up_plan_on()") < posrc.index("self.lrtdp(") < posrc.index("self._tear_down_plan_on(")
    ctx.check(ok, "RES-1", po, po.node, "plan_on = set up, run trials, assemble", "", "plan_on order changed")
    arg_permutation_rule(ctx, G, [x for x in P.all_functions() if x.module.name == "msdm.algorithms.lrtdp"], "ARG")
    for rr, k in (("BEL-2", 3), ("BEL-7", 4), ("UPD-1", 1), ("LAB-1", 2), ("LAB-2", 3), ("LAB-3", 1), ("TRIAL-1", 1), ("TRIAL-2", 3), ("TRIAL-3", 1),
                  ("CACHE-1", 1), ("GRD-1", 3), ("BEL-5", 2), ("BEL-6", 1), ("RES-1", 3), ("ARG", 3)):
        ctx.require(rr, k)
    ctx.assume("Bonet & Geffner 2003: with an admissible heuristic labelled RTDP keeps V an upper bound and terminates with residuals below the margin")

"""C04 — LRTDP.  Bellman form of Q, guarded reads of the lazily defaulted value table (BEL-7), labelling, trial loop,
cache completeness of the per-state action order, result assembly."""
from __future__ import annotations

import ast
import re
from fractions import Fraction
from typing import Dict, List, Optional

from .. import alg
from ..pat import Snips
from ..callgraph import CallGraph
from ..cfg import cfg_of
from ..model import FunctionInfo, AnalysisError
from ..report import Ctx
from ..util import norm, fn_body_nodes, walk_local, kwarg, is_none_test, name_free
from .common import arg_permutation_rule, names_in, calls_named
from .c07 import items_loop_info, enclosing_loops

EXPLANATION = (
    "Structural necessary conditions of C04 on LRTDP: Q is the one-step backup with zero future value at absorbing successors "
    "and 0 at absorbing states; the Bellman update is the max of that Q over mdp.actions(s); labelling compares |V - Q(greedy)| "
    "with the configured margin and marks states solved only on the flag-true path; a trial samples the successor of the greedy "
    "action of the current state and labels absorbing successors solved; the per-state (possibly shuffled) action order is cached "
    "on every path that computes it (fixed tie-breaking); every reported read of the lazily defaulted value table is "
    "absorbing-aware; converged is assigned on every exit of the trial loop; the result's Q, policy and initial value are "
    "assembled from that table. The epsilon bound and termination depend on sampled histories and are not decided.")
RULES = ("BEL-2 Q increment normal form; BEL-7 value-table reads are guarded by `not is_absorbing` or go through an absorbing-aware default; "
         "UPD-1 Bellman update; LAB-1..3 labelling; TRIAL-1..3 trial loop; CACHE-1 lookup-or-compute cache stores on every computing path; "
         "GRD-1 greedy action from the state's own action list; BEL-5 converged assigned on every exit; BEL-6 initial value; RES-1 result assembly")


def role_text(text: str, roles: Dict[Optional[str], str]) -> str:
    """`text` with every local whose role is known replaced by <role> (messages must not depend on the spelling of locals)."""
    for nm, role in roles.items():
        if nm:
            text = re.sub(rf"(?<![\w.]){re.escape(nm)}\b", f"<{role}>", text)
    return text


def cache_completeness(ctx: Ctx, f: FunctionInfo, rule="CACHE-1") -> List[str]:
    """lookup-or-compute idiom:  if k in M: x = M[k]  else: x = compute ; M[k] = x   -- the store must lie on every path from a
    computing definition of x to the function's exit.  Returns the names bound to the looked-up value (one per idiom found)."""
    cfg = cfg_of(f)
    n: List[str] = []
    for g in cfg.nodes:
        if g.kind != "if":
            continue
        t = g.ast.test
        if not (isinstance(t, ast.Compare) and len(t.ops) == 1 and isinstance(t.ops[0], ast.In)):
            continue
        key, cache = ast.unparse(t.left), ast.unparse(t.comparators[0])
        hit = [s for s in g.ast.body if isinstance(s, ast.Assign) and isinstance(s.value, ast.Subscript)
               and ast.unparse(s.value.value) == cache and ast.unparse(s.value.slice) == key and isinstance(s.targets[0], ast.Name)]
        if not hit or not g.ast.orelse:
            continue
        var = hit[0].targets[0].id
        stores = [s for s in ast.walk(f.node) if isinstance(s, ast.Assign) and isinstance(s.targets[0], ast.Subscript)
                  and ast.unparse(s.targets[0].value) == cache and ast.unparse(s.targets[0].slice) == key]
        computes = [s for st in g.ast.orelse for s in ast.walk(st) if isinstance(s, ast.Assign) and any(isinstance(x, ast.Name) and x.id == var for x in s.targets)]
        n.append(var)
        shown = f"{name_free(f, t.comparators[0])}[{name_free(f, t.left)}]"
        inst = f"cache {shown} of the looked-up value"
        if not stores:
            ctx.violation(rule, f, g.ast, inst, f"the looked-up value is computed on a cache miss but never stored into {shown}: repeated calls recompute it (differently when it is randomised)")
            continue
        snodes = {cfg.node_for(s) for s in stores}
        bad = [c for c in computes if not cfg.all_paths_pass(cfg.node_for(c), cfg.exit.id, snodes)]
        ok = not bad and all(ast.unparse(s.value) == var for s in stores)
        ctx.check(ok, rule, f, stores[0], inst, "every computing path stores into the cache",
                  f"after `{role_text(norm(bad[0], 50), {var: 'looked-up value'}) if bad else ''}` some path reaches the return without storing the looked-up value into {shown}: the order computed there "
                  f"(a fresh shuffle) is not remembered, so ties are broken differently on each call")
    return n


def calls_named_in(node: ast.AST, name: str) -> bool:
    return any(isinstance(c, ast.Call) and isinstance(c.func, ast.Attribute) and c.func.attr == name for c in ast.walk(node))


def _in_loop(fi: FunctionInfo, node: ast.AST) -> bool:
    return any(node is x for l in ast.walk(fi.node) if isinstance(l, (ast.While, ast.For)) for x in ast.walk(l) if x is not l)


def run(ctx: Ctx):
    P = ctx.P
    G = CallGraph(P, ctx.X)
    C = P.cls("lrtdp.LRTDP")
    # ---------------- Q
    q = C.methods["Q"]
    mdp, s, a = q.positional_params[1:4]
    first = q.node.body[0]
    ok = isinstance(first, ast.If) and ast.unparse(first.test) == f"{mdp}.is_absorbing({s})" and isinstance(first.body[0], ast.Return) \
        and isinstance(first.body[0].value, ast.Constant) and first.body[0].value.value == 0
    ctx.check(ok, "BEL-2", q, first, "Q(s, .) = 0 at absorbing states (tested first)", "", "absorbing states do not short-circuit to 0")
    accs = [n for n in fn_body_nodes(q) if isinstance(n, ast.AugAssign) and isinstance(n.op, ast.Add)]
    lps = [n for n in fn_body_nodes(q) if isinstance(n, ast.For)]
    info = items_loop_info(lps[0]) if lps else None
    if accs and info:
        # roles: ns / pr are the key / value unpacked from next_state_dist(s, a).items(); the future value is the remaining factor
        ns, pr = info[3], info[4]
        ctx.check(info[1] == "next_state_dist" and info[2] == [s, a], "BEL-2", q, lps[0], f"Q sums over next_state_dist({s}, {a})", "",
                  f"Q enumerates {info[1]}({', '.join(role_text(x, {ns: 'successor', pr: 'probability'}) for x in info[2])})")
        p = alg.normalise(accs[0].value)
        fut = [k for m in p for k, _ in m if k not in (pr, f"{mdp}.discount_rate") and not k.startswith(f"{mdp}.reward")]
        fvar = fut[0] if fut else "?"
        qroles = {ns: "successor", pr: "probability", fvar: "future value"}
        want = {tuple(sorted(((pr, 1), (f"{mdp}.reward({s}, {a}, {ns})", 1)))): Fraction(1),
                tuple(sorted(((pr, 1), (f"{mdp}.discount_rate", 1), (fvar, 1)))): Fraction(1)}
        shown = role_text(alg.show(p), qroles)
        ctx.check(p == want, "BEL-2", q, accs[0], "Q increment = p*reward(s,a,ns) + p*gamma*future", shown, f"increment normalises to `{shown}`")
        # BEL-7: the future value is read only for non-absorbing successors
        cfg = cfg_of(q)
        reads = [n for n in ast.walk(lps[0]) if isinstance(n, ast.Subscript) and ast.unparse(n.value).endswith(".V") and isinstance(n.ctx, ast.Load)]
        for r in reads:
            node = cfg.node_for(r)
            at = ast.unparse(r.slice)
            where = "the enumerated successor" if at == ns else f"`{name_free(q, r.slice)}`"
            gs = [(cfg.nodes[b].ast.test, lab) for b, lab in cfg.guards(node) if cfg.nodes[b].kind == "if"]
            ok = any(ast.unparse(t) == f"not {mdp}.is_absorbing({at})" and lab.startswith("T") for t, lab in gs)
            ctx.check(ok, "BEL-7", q, r, f"read of the value table at {where} is guarded by `not is_absorbing`", "",
                      f"the value table is read at {where} for absorbing successors too: the heuristic's value of a terminal state leaks into Q")
            ctx.check(at == ns, "BEL-7", q, r, "future value is read at the enumerated successor", "", f"future value read at {where}")
        zero = [n for n in ast.walk(lps[0]) if isinstance(n, ast.Assign) and ast.unparse(n.targets[0]) == fvar and isinstance(n.value, ast.Constant) and n.value.value == 0]
        ctx.check(bool(zero), "BEL-7", q, lps[0], "future value defaults to 0 (absorbing successors)", "", "future value is not reset to 0 for each successor")
    else:
        ctx.violation("BEL-2", q, q.node, "Q accumulation", "Q does not accumulate over successors")
    # ---------------- Bellman update
    bu = C.methods["_bellman_update"]
    SB = Snips(bu)
    st = [n for n in fn_body_nodes(bu) if isinstance(n, ast.Assign)]
    bm, bs = bu.positional_params[1:3]
    # the comprehension variable is a role (bound consistently in element and generator); everything else is pinned
    ok = bool(st) and SB.m(f"E_res.V[{bs}] = max(self.Q({bm}, {bs}, act) for act in {bm}.actions({bs}))", st[0]) is not None
    ctx.check(ok, "UPD-1", bu, st[0] if st else bu.node, "V[s] = max over mdp.actions(s) of Q(s, a)", "", f"Bellman update is `{name_free(bu, st[0]) if st else None}`")
    # ---------------- labelling
    cs = C.methods["_check_solved"]
    cm, cst = cs.positional_params[1:3]
    SC = Snips(cs)
    cfg = cfg_of(cs)
    own = list(fn_body_nodes(cs))
    # role `residual`: the target of  V[s] - Q(s, greedy(s));  when that shape changed, the target of a difference involving self.Q
    resn, renv = SC.first(f"residual = self.res.V[{cst}] - self.Q({cm}, {cst}, self.policy({cm}, {cst}))")
    ok = resn is not None and any(resn is n for n in own)
    if not ok:
        cand = [(n, e) for n, e in SC.find("residual = E_minuend - E_subtrahend") if any(n is x for x in own) and calls_named_in(n.value, "Q")]
        resn, renv = cand[0] if cand else (None, None)
    residual = renv["residual"] if renv else None
    ctx.check(ok if ok else None, "LAB-1", cs, resn if resn is not None else cs.node, "residual = V[s] - Q(s, greedy(s))", "", "idiom not recognised")
    cmpn = [n for n in cfg.nodes if n.kind == "if" and residual is not None and residual in names_in(n.ast.test)]
    rets = [n for n in own if isinstance(n, ast.Return)]
    marks = [n for n in ast.walk(cs.node) if isinstance(n, ast.Assign) and ".solved[" in ast.unparse(n.targets[0]) and ast.unparse(n.value) == "True"]
    # role `flag`: four structural positions name it -- cleared when the residual exceeds the margin, returned, initialised to True
    # before the loops, tested on the path that labels states.  The name that fills most of them (ties: in that order) is the flag;
    # every rule below is then stated on that one name, so a position filled by something else is reported under its own rule.
    votes: List[str] = []
    if cmpn:
        votes += [e_["flag"] for e_ in (SC.m("flag = False", s_) for s_ in cmpn[0].ast.body) if e_ is not None][:1]
    if rets and isinstance(rets[0].value, ast.Name):
        votes.append(rets[0].value.id)
    votes += [e_["flag"] for e_ in (SC.m("flag = True", n) for n in cs.node.body) if e_ is not None][:1]
    for mk in marks:
        votes += [cfg.nodes[b].ast.test.id for b, lab in cfg.guards(cfg.node_for(mk)) if cfg.nodes[b].kind == "if" and lab.startswith("T")
                  and isinstance(cfg.nodes[b].ast.test, ast.Name)][:1]
    flag = max(votes, key=lambda v: (votes.count(v), -votes.index(v))) if votes else None
    lroles = {residual: "residual", flag: "flag"}
    if cmpn:
        t = cmpn[0].ast.test
        ok = SC.m("abs(residual) > self.bellman_error_margin", t, {"residual": residual}) is not None and isinstance(t.ops[0], ast.Gt)
        ctx.check(ok, "LAB-1", cs, cmpn[0].ast, "residual test: |residual| > configured bellman_error_margin", role_text(norm(t), lroles), f"residual test is `{role_text(norm(t), lroles)}`")
        falses = [s_ for s_ in cmpn[0].ast.body if flag is not None and SC.m("flag = False", s_, {"flag": flag}) is not None]
        ctx.check(bool(falses), "LAB-1", cs, cmpn[0].ast, "a residual above the margin clears the flag", "", "the flag is not cleared when the residual exceeds the margin")
    else:
        ctx.violation("LAB-1", cs, cs.node, "residual test", "no residual comparison")
    for mk in marks:
        node = cfg.node_for(mk)
        gs = [(ast.unparse(cfg.nodes[b].ast.test), lab) for b, lab in cfg.guards(node) if cfg.nodes[b].kind == "if"]
        ok = flag is not None and any(t == flag and lab.startswith("T") for t, lab in gs)
        ctx.check(ok, "LAB-2", cs, mk, "states are labelled solved only on the flag-true path", str([(role_text(t, lroles), lab) for t, lab in gs]),
                  "states can be labelled solved although a residual exceeded the margin")
    if not marks:
        ctx.violation("LAB-2", cs, cs.node, "solved labels", "no state is ever labelled solved")
    init = [n for n in own if isinstance(n, ast.Assign) and flag is not None and ast.unparse(n.targets[0]) == flag and not _in_loop(cs, n)]
    ctx.check(bool(init) and SC.m("flag = True", init[0], {"flag": flag}) is not None, "LAB-2", cs, init[0] if init else cs.node, "flag starts True", "", "flag initialisation changed")
    ctx.check(bool(rets) and flag is not None and SC.m("return flag", rets[0], {"flag": flag}) is not None, "LAB-2", cs, rets[0] if rets else cs.node, "returns the flag", "", "does not return the flag")
    succ = [n for n in ast.walk(cs.node) if isinstance(n, ast.For) and ".support" in ast.unparse(n.iter)]
    ok = bool(succ) and SC.m(f"{cm}.next_state_dist({cst}, self.policy({cm}, {cst})).support", succ[0].iter) is not None
    ctx.check(ok if ok else None, "LAB-3", cs, succ[0] if succ else cs.node, "expansion follows the greedy action's successors", "", "idiom not recognised")
    upd = [c for c in ast.walk(cs.node) if isinstance(c, ast.Call) and ast.unparse(c.func) == "self._bellman_update"]
    ctx.check(bool(upd), "LAB-3", cs, upd[0] if upd else cs.node, "unsolved closed states are backed up", "", "closed states are not updated when the check fails")
    # ---------------- trial loop
    tr = C.methods["lrtdp_trial"]
    tm, ts = tr.positional_params[1:3]
    ST = Snips(tr)
    wl = [n for n in fn_body_nodes(tr) if isinstance(n, ast.While)]
    if not wl:
        raise AnalysisError("LRTDP.lrtdp_trial: trial loop vanished")
    w = wl[0]
    ctx.check(ast.unparse(w.test).replace(" ", "") == f"notself.res.solved[{ts}]", "TRIAL-1", tr, w, "trial continues until a solved state is reached", "", f"trial guard is `{name_free(tr, w.test)}`")
    samp = [n for n in w.body if isinstance(n, ast.Assign) and ".sample(" in ast.unparse(n.value)]
    if samp:
        v = samp[0].value
        inner = v.func.value if isinstance(v.func, ast.Attribute) else None
        ok = ST.m(f"{ts} = {tm}.next_state_dist({ts}, self.policy({tm}, {ts})).sample(REST=ANY)", samp[0]) is not None
        ctx.check(ok, "TRIAL-2", tr, samp[0], "successor ~ next_state_dist(s, greedy(s)); the state variable advances to it", "", f"trial step is `{name_free(tr, samp[0])}`")
        ctx.check(kwarg(v, "rng") is not None and ast.unparse(kwarg(v, "rng")) == "self.rng", "TRIAL-2", tr, samp[0], "successor sampled with the planner's generator", "", "successor not sampled with self.rng")
        bu_i = [i for i, n in enumerate(w.body) if "self._bellman_update" in ast.unparse(n)]
        ctx.check(bool(bu_i) and bu_i[0] < w.body.index(samp[0]), "TRIAL-2", tr, w, "the current state is backed up before the greedy successor is sampled", "", "backup does not precede sampling")
        ab = [n for n in w.body if isinstance(n, ast.If) and ast.unparse(n.test) == f"{tm}.is_absorbing({ts})"]
        ok = bool(ab) and any(".solved[" in ast.unparse(x) and "True" in ast.unparse(x) for x in ab[0].body) and w.body.index(ab[0]) > w.body.index(samp[0])
        ctx.check(ok, "TRIAL-3", tr, ab[0] if ab else w, "an absorbing successor is labelled solved before the guard is re-evaluated", "", "absorbing successors are not labelled solved (the trial would not stop at them)")
    else:
        ctx.violation("TRIAL-2", tr, w, "trial step", "no successor is sampled in the trial loop")
    # role `visited`: the stack tested in the second conjunct of the checking loop; the same stack is popped into the state variable
    ok = False
    for wn, e_ in ST.find(f"while self._check_solved({tm}, {ts}) and visited:\n    REST"):
        if isinstance(wn.test.values[0], ast.Call) and any(wn is x for x in fn_body_nodes(tr)) and ST.has(f"{ts} = visited.pop()", {"visited": e_["visited"]}):
            ok = True
    ctx.check(ok if ok else None, "TRIAL-3", tr, tr.node, "visited states are checked in reverse order", "", "idiom not recognised")
    # ---------------- policy: cache completeness + greedy from own list
    pol = C.methods["policy"]
    SP = Snips(pol)
    looked_up = cache_completeness(ctx, pol)
    rets = [r for r in fn_body_nodes(pol) if isinstance(r, ast.Return)]
    pm, ps = pol.positional_params[1:3]
    # role `action_list`: what the greedy arg-max ranges over; when the return changed shape, the value looked up in the order cache
    e_ = SP.m(f"return max(action_list, key=lambda act: self.Q({pm}, {ps}, act))", rets[0]) if rets else None
    alist = e_["action_list"] if e_ else (looked_up[0] if looked_up else None)
    ctx.check(e_ is not None, "GRD-1", pol, rets[0] if rets else pol.node, "greedy action = argmax_a Q(s, a) over the state's action list", "",
              f"greedy action is `{role_text(name_free(pol, rets[0].value), {alist: 'action list'}) if rets else None}`")
    allsrc = [n for n, _ in SP.find("action_list = E_source", {"action_list": alist})] if alist else []
    env_a = {"action_list": alist}
    direct = [n for n in allsrc if SP.m(f"action_list = {pm}.actions({ps})", n, env_a) is not None]
    copied = [n for n in allsrc if SP.m(f"action_list = list({pm}.actions({ps}))", n, env_a) is not None]      # temporaries are transparent
    cached = [n for n in allsrc if isinstance(n.value, ast.Subscript)]
    srcs = direct + copied
    ok = bool(srcs) and len(direct) + len(copied) + len(cached) == len(allsrc)
    ctx.check(ok, "GRD-1", pol, srcs[0] if srcs else pol.node, "the action list is mdp.actions(s) (or a shuffled copy)", "", "action list is not derived from mdp.actions(s)")
    sh = [c for c in ast.walk(pol.node) if isinstance(c, ast.Call) and isinstance(c.func, ast.Attribute) and c.func.attr == "shuffle"]
    if sh:
        ok = alist is not None and SP.m("self.rng.shuffle(action_list)", sh[0], {"action_list": alist}) is not None
        ctx.check(ok, "GRD-1", pol, sh[0], "shuffle uses the planner's generator on a copy", "", "shuffle does not use self.rng")
        cp = [s_ for s_ in copied if any(s_ is x or sh[0] is x for x in ast.walk(pol.node))]
        shuffled_block = [b for b in ast.walk(pol.node) if isinstance(b, (ast.If, ast.For, ast.While, ast.FunctionDef)) and any(sh[0] is getattr(y, "value", None) for f_ in ("body", "orelse") for y in getattr(b, f_, []) if isinstance(y, ast.Expr))]
        # the definition that reaches the shuffle (same block, before it) must be the copy
        reach = [s_ for s_ in allsrc if s_.lineno < sh[0].lineno and any(s_ in getattr(b, f_, []) and any(isinstance(y, ast.Expr) and y.value is sh[0] for y in getattr(b, f_, [])) for b in shuffled_block for f_ in ("body", "orelse"))]
        cp = [s_ for s_ in (reach[-1:] if reach else []) if s_ in copied]
        ctx.check(bool(cp), "GRD-1", pol, sh[0], "the MDP's own action sequence is copied before shuffling", "", "the MDP's action sequence is shuffled in place")
    # ---------------- value-table default (BEL-7) and converged (BEL-5)
    lr = C.methods["lrtdp"]
    SL = Snips(lr)
    lm = lr.positional_params[1]
    vd = [n for n in fn_body_nodes(lr) if isinstance(n, ast.Assign) and ast.unparse(n.targets[0]) == "self.res.V"]
    if vd and isinstance(vd[0].value, ast.Call) and vd[0].value.args:
        d = vd[0].value.args[0]
        aware = isinstance(d, ast.Lambda) and any(isinstance(x, ast.Call) and isinstance(x.func, ast.Attribute) and x.func.attr == "is_absorbing" for x in ast.walk(d))
        if aware:
            b = d.body
            ok = isinstance(b, ast.IfExp) and isinstance(b.body, ast.Constant) and b.body.value == 0 and "is_absorbing" in ast.unparse(b.test) \
                and ast.unparse(b.test.args[0]) == d.args.args[0].arg and "heuristic" in ast.unparse(b.orelse)
            ctx.check(ok, "BEL-7", lr, vd[0], "value-table default: 0 at absorbing states, the heuristic elsewhere", "", f"default is `{name_free(lr, d)}`")
        else:
            # raw default: every reported read must then be guarded
            td = C.methods["_tear_down_plan_on"]
            reads = [x for x in ast.walk(td.node) if isinstance(x, ast.Subscript) and ast.unparse(x.value).endswith(".V") and isinstance(x.ctx, ast.Load)]
            ctx.violation("BEL-7", lr, vd[0], "value-table default is absorbing-aware",
                          f"the lazily defaulted value table falls back to `{name_free(lr, d)}` for states never backed up; reported reads ({', '.join(name_free(td, r, width=30) for r in reads[:2])}) are not "
                          f"guarded by is_absorbing, so an absorbing state (e.g. an absorbing initial state) is reported with the heuristic's value instead of 0")
    else:
        ctx.unknown("BEL-7", lr, lr.node, "value-table default", "assignment to self.res.V not found")
    cfg = cfg_of(lr)
    cv = [n for n in ast.walk(lr.node) if isinstance(n, ast.Assign) and ast.unparse(n.targets[0]) == "self.res.converged"]
    exits = [n.id for n in cfg.nodes if n.kind == "stmt" and isinstance(n.ast, ast.Return)] + [cfg.exit.id]
    cnodes = {cfg.node_for(s_) for s_ in cv}
    bad = []
    for r in [n for n in cfg.nodes if n.kind == "stmt" and isinstance(n.ast, ast.Return)]:
        if not cfg.all_paths_pass(cfg.entry.id, r.id, cnodes):
            bad.append(r)
    # implicit fall-through exit
    fall = [p for p, lab in cfg.exit.pred if lab != "return"]
    for pnode in fall:
        if pnode not in cnodes and not cfg.all_paths_pass(cfg.entry.id, pnode, cnodes):
            bad.append(cfg.nodes[pnode])
    ctx.check(not bad, "BEL-5", lr, bad[0].ast if bad else lr.node, "converged is assigned on every exit of the trial loop", "",
              f"the exit at line {bad[0].lineno if bad else '?'} leaves lrtdp() without assigning res.converged: a successful run yields a result with no `converged` attribute")
    tv = [n for n in cv if ast.unparse(n.value) == "True"]
    ctx.check(bool(tv), "BEL-5", lr, lr.node, "converged can be True", "", "converged is never set to True")
    early = [n for n in ast.walk(lr.node) if isinstance(n, ast.If) and any(isinstance(b, ast.Return) for b in n.body)]
    # the generator's variable is a role bound consistently in element and iteration clause
    ok = bool(early) and SL.m(f"all(self.res.solved[state] for state in {lm}.initial_state_dist().support)", early[0].test) is not None
    # (tightened after seed C04-c) a termination test that looks at ONE state drawn from the initial distribution is definitely too weak
    sampled = []
    if early and not ok:
        for sub in ast.walk(early[0].test):
            if isinstance(sub, ast.Subscript) and isinstance(sub.slice, ast.Name) and SL.m("self.res.solved[x]", sub) is not None:
                dv = SL.defs.get(sub.slice.id)
                if dv is not None and isinstance(dv, ast.Call) and isinstance(dv.func, ast.Attribute) and dv.func.attr == "sample":
                    sampled.append(sub.slice.id)
    if sampled:
        ctx.violation("BEL-5", lr, early[0], "termination test: all initial states labelled solved",
                      "planning stops as soon as ONE sampled initial state is labelled solved: with several initial states the others may be unsolved and `converged` is reported True")
    else:
        ctx.check(ok if ok else None, "BEL-5", lr, early[0] if early else lr.node, "termination test: all initial states labelled solved", "", "idiom not recognised")
    # ---------------- result assembly
    td = C.methods["_tear_down_plan_on"]
    SD = Snips(td)
    dm = td.positional_params[1]
    dh = td.positional_params[2]
    own = list(fn_body_nodes(td))
    # roles: `res` the object that receives initial_value and whose V is averaged; `s0`, `p` the unpacked state / probability
    iv = [n for n, _ in SD.find(f"res.initial_value = sum([res.V[s0] * p for s0, p in {dm}.initial_state_dist().items()])") if any(n is x for x in own)]
    ctx.check(bool(iv), "BEL-6", td, td.node, "initial_value = expectation of the reported V over initial_state_dist", "", "initial value is not the expectation of the reported V")
    # roles: `s` / `a` the loop variables over the touched states / the available actions, `policy_dict` / `q_values` the tables filled
    ok = False
    tables: Dict[str, object] = {}
    for ol, e1 in SD.find("for s in self.res.V.keys():\n    REST"):
        if not any(ol is x for x in own):
            continue
        for pn_, e2 in SD.find(f"policy_dict[s] = self.policy({dm}, s)", e1, within=ol):
            for il, e3 in SD.find(f"for a in {dm}.actions(s):\n    REST", e2, within=ol):
                for qn_, e4 in SD.find(f"q_values[s][a] = self.Q({dm}, s, a)", e3, within=il):
                    ok, tables = True, e4
    ctx.check(ok, "RES-1", td, td.node, "reported Q and policy are computed from the final V for every touched state and available action", "", "result assembly changed")
    pf = [x for x in td.nested.values()]
    if pf:
        # roles inside the returned policy: its parameter is the state; `a` ranges over mdp.actions(state); `max_actions` collects the
        # maximisers and is what the uniform distribution is built from; the expectation's lambda parameter is the successor
        SN = Snips(pf[0])
        pa = pf[0].node.args.args
        sp = pa[0].arg if pa else None
        ok = False
        pd = tables.get("policy_dict")
        if pd is None:      # the assembly loop changed shape (reported above): the table is still the one filled from self.policy
            pd = next((e_["policy_dict"] for _, e_ in SD.find(f"policy_dict[E_state] = self.policy({dm}, E_state)")), None)
        if sp is not None:
            e0 = {"s": sp, **({"policy_dict": pd} if pd is not None else {})}
            if SN.has("policy_dict[s]", e0):
                for il, e1 in SN.find(f"for a in {dm}.actions(s):\n    REST", e0):
                    for _, e2 in SN.find("max_actions = [a]", e1, within=il):
                        if SN.has("DictDistribution.uniform(max_actions)", e2) and \
                                SN.has(f"lambda ns: {dm}.reward(s, a, ns) + {dm}.discount_rate * {dh}(ns)", e2, within=il):
                            ok = True
        ctx.check(ok, "RES-1", pf[0], pf[0].node, "returned policy: planned action, else heuristic-greedy over mdp.actions(s)", "", "returned policy changed")
    po = C.methods["plan_on"]
    posrc = ast.unparse(po.node)
    ok = posrc.index("self._set_up_plan_on()") < posrc.index("self.lrtdp(") < posrc.index("self._tear_down_plan_on(")
    ctx.check(ok, "RES-1", po, po.node, "plan_on = set up, run trials, assemble", "", "plan_on order changed")
    arg_permutation_rule(ctx, G, [x for x in P.all_functions() if x.module.name == "msdm.algorithms.lrtdp"], "ARG")
    for rr, k in (("BEL-2", 3), ("BEL-7", 4), ("UPD-1", 1), ("LAB-1", 2), ("LAB-2", 3), ("LAB-3", 1), ("TRIAL-1", 1), ("TRIAL-2", 3), ("TRIAL-3", 1),
                  ("CACHE-1", 1), ("GRD-1", 3), ("BEL-5", 2), ("BEL-6", 1), ("RES-1", 3), ("ARG", 3)):
        ctx.require(rr, k)
    ctx.assume("Bonet & Geffner 2003: with an admissible heuristic labelled RTDP keeps V an upper bound and terminates with residuals below the margin")

"""C11 — finite distributions.  IFC-5 MRO shadowing per kind, IFC-3 totality of prob, ALG-2 accumulation forms,
GEN-1 one-shot iterators, sampling discipline."""
from __future__ import annotations

import ast
from fractions import Fraction
from typing import Dict, List, Optional, Set, Tuple

from .. import alg
from ..callgraph import CallGraph
from ..cfg import cfg_of
from ..model import FunctionInfo, ClassInfo, AnalysisError, BUILTIN_EXC_PARENTS
from ..report import Ctx
from ..util import norm, fn_body_nodes, walk_local, kwarg, parents
from ..pat import Snips
from .common import names_in
from .c07 import items_loop_info, enclosing_loops

EXPLANATION = (
    "For each of the five provided kinds the listed operations are resolved through the C3 linearisation computed from the class "
    "statements: none may resolve to the builtin dict method of the same name (dictionary union instead of mixture, etc.); prob is "
    "total for every kind (the handler of Table.get covers every key-not-in-domain raiser reachable from Table.__getitem__); each "
    "generic operation's accumulation matches the probability calculus (sum-of-products normal forms); one-shot iterators (items() "
    "of the generator-based kinds) are not re-iterated; sampling uses the supplied generator and derives population and weights "
    "from one iteration order of the support. Floating-point mass preservation and zero-total conditioning are not decided.")
RULES = ("IFC-5 resolution table kind x operation; IFC-3 raise-set vs handler types for prob/get; ALG-2 accumulation forms of marginalize, "
         "chain, condition, joint, |, *, &, expectation, normalize, softmax, from_pairs; GEN-1 a generator-valued iterable is not bound once "
         "and re-iterated inside another iteration; SMP-1 sampling discipline")

KINDS = ("DictDistribution", "UniformDistribution", "DeterministicDistribution", "SoftmaxDistribution", "TableDistribution")
OPS = ("prob", "items", "marginalize", "chain", "condition", "joint", "__or__", "__mul__", "__and__", "expectation", "normalize", "sample", "support")
# aliases that the class bodies declare on purpose: for a dict-backed distribution the mapping's items/values ARE (event, probability)
ALLOWED_BUILTIN_ALIAS = {("DictDistribution", "items"), ("SoftmaxDistribution", "items")}


def exc_ancestors(P, name: str) -> List[str]:
    out = [name]
    seen = set()
    cur = name
    while cur and cur not in seen:
        seen.add(cur)
        ci = P.find_cls(cur)
        if ci is not None:
            bases = [b.name if isinstance(b, ClassInfo) else b for b in ci.bases]
            cur = bases[0] if bases else None
        else:
            cur = BUILTIN_EXC_PARENTS.get(cur)
        if cur:
            out.append(cur)
    return out


def raise_set(ctx: Ctx, G: CallGraph, root: FunctionInfo, depth: int = 4) -> Dict[str, Tuple[FunctionInfo, ast.AST]]:
    """exception class names raised (explicitly) in root and the self-methods it calls, minus what inner handlers catch."""
    out: Dict[str, Tuple[FunctionInfo, ast.AST]] = {}
    seen: Set[int] = set()

    def visit(f: FunctionInfo, d: int):
        if id(f) in seen or d > depth:
            return
        seen.add(id(f))
        for n in ast.walk(f.node):
            if isinstance(n, ast.Raise) and n.exc is not None:
                e = n.exc.func if isinstance(n.exc, ast.Call) else n.exc
                nm = e.id if isinstance(e, ast.Name) else (e.attr if isinstance(e, ast.Attribute) else None)
                if nm:
                    # caught locally?
                    caught = False
                    for t in ast.walk(f.node):
                        if isinstance(t, ast.Try) and any(n is x for b in t.body for x in ast.walk(b)):
                            for h in t.handlers:
                                hs = [h.type] if not isinstance(h.type, ast.Tuple) else h.type.elts
                                if any(getattr(x, "id", None) in exc_ancestors(ctx.P, nm) for x in hs if x is not None):
                                    caught = True
                    if not caught:
                        out.setdefault(nm, (f, n))
        for cs in G.sites(f):
            if cs.kind in ("self", "direct") and cs.method and cs.receiver is not None:
                for t in cs.targets:
                    if t.cls is not None and "table" in t.module.name:
                        visit(t, d + 1)
    visit(root, 0)
    return out


def rule_mro(ctx: Ctx):
    P = ctx.P
    table: Dict[str, Dict[str, str]] = {}
    for k in KINDS:
        ci = P.cls(k)
        row = {}
        for op in OPS:
            owner, thing = ci.lookup(op)
            oname = owner.name if isinstance(owner, ClassInfo) else owner
            if isinstance(thing, FunctionInfo):
                res = f"{oname}.{op}"
                ok = True
            elif thing == "builtin":
                res = f"builtin {oname}.{op}"
                ok = False
            elif isinstance(thing, ast.AST):
                txt = ast.unparse(thing)
                res = f"{oname}.{op} = {txt}"
                ok = not txt.startswith("dict.") or (k, op) in ALLOWED_BUILTIN_ALIAS or (oname, op) in ALLOWED_BUILTIN_ALIAS
                if txt.startswith("dict.") and txt != f"dict.{op}":
                    ok = False
            else:
                res = "unresolved"
                ok = None
            row[op] = res
            inst = f"{k}.{op} -> {res}"
            if ok is None:
                ctx.unknown("IFC-5", None, None, inst, "operation not found in the MRO") if False else ctx.ob("IFC-5", ci.methods.get(op) or next(iter(P.functions.values())), ci.node, inst, "UNKNOWN", "operation not found in the MRO")
            else:
                f0 = next(iter(ci.methods.values()), None) or next(iter(P.functions.values()))
                ctx.check(ok, "IFC-5", f0, ci.node, f"{k}.{op} resolves to a probability-semantics implementation", res,
                          f"`{k}.{op}` resolves to {res}: the builtin mapping method (e.g. dictionary union for `|`) shadows the distribution operation")
        table[k] = row
    ctx.extra["resolution_table"] = table


def rule_totality(ctx: Ctx, G: CallGraph):
    P = ctx.P
    get = P.method("AbstractTable", "get")
    hs = [h for n in ast.walk(get.node) if isinstance(n, ast.Try) for h in n.handlers]
    handled: List[str] = []
    for h in hs:
        ts = [h.type] if not isinstance(h.type, ast.Tuple) else list(h.type.elts)
        handled += [getattr(t, "id", getattr(t, "attr", "?")) for t in ts if t is not None]
    root = P.method("table.table.Table", "__getitem__")
    rs = raise_set(ctx, G, root)
    ti = P.cls("TableIndex")
    for m in ("_array_index", "_updated_index", "_index_into_fields", "_index_into_domain", "_pad_out_ellipses"):
        if m in ti.methods:
            for k, v in raise_set(ctx, G, ti.methods[m]).items():
                rs.setdefault(k, v)
    ctx.extra["raise_set_of_Table.__getitem__"] = sorted(rs)
    ctx.extra["handled_by_get"] = handled
    key_errors = [e for e in rs if e != "SliceError"]      # slices are not keys
    for e in sorted(key_errors):
        f, node = rs[e]
        covered = any(a in handled for a in exc_ancestors(P, e))
        ctx.check(covered, "IFC-3", get, node, f"get() covers {e} (raised in {f.name})", f"handlers {handled}",
                  f"`{e}` can be raised by Table.__getitem__ for a key outside the domain (in {f.name}) but AbstractTable.get only catches {handled}: "
                  f"prob() of a foreign key on a table-backed distribution raises instead of returning 0")
    dp = P.method("DictDistribution", "prob")
    ok = ast.unparse(dp.node.body[-1]).replace(" ", "") == f"returnself.get({dp.positional_params[1]},0.0)"
    ctx.check(ok, "IFC-3", dp, dp.node, "dict-backed prob = get(e, 0.0)", "", "prob is not get(e, 0.0)")
    for k in ("UniformDistribution", "DeterministicDistribution"):
        f = P.method(k, "prob")
        last = f.node.body[-1]
        ok = isinstance(last, ast.Return) and ast.unparse(last.value) == "0" and not any(isinstance(n, ast.Raise) for n in ast.walk(f.node))
        ctx.check(ok, "IFC-3", f, f.node, f"{k}.prob returns 0 for foreign events", "", f"{k}.prob is not total")


def _prod(*atoms: str):
    """normal form of the product of the given atoms (each to the first power)."""
    return {tuple(sorted((a, 1) for a in atoms)): Fraction(1)}


def _inside(node: ast.AST, container: Optional[ast.AST]) -> bool:
    return container is not None and any(node is x for x in ast.walk(container))


def role_text(S: Snips, node: ast.AST, n: int = 40) -> str:
    """source text of `node` in which every local / comprehension variable is written `_` (parameters, module-level names, builtins
    and attribute names stay): obligation keys and messages describe the structure and not the spelling of locals."""
    class _Anon(ast.NodeTransformer):
        def visit_Name(self, x):
            return x if x.id in S.literals else ast.copy_location(ast.Name(id="_", ctx=x.ctx), x)
    import copy
    return norm(_Anon().visit(copy.deepcopy(node)), n)


def rule_forms(ctx: Ctx):
    """every form is stated over ROLES bound structurally: the (event, mass) pair is whatever the items()-loop unpacks, the
    accumulator is whatever the accumulation statement subscripts, etc.; parameters (self, other, num, projection, function,
    predicate, real_function, element_probs) are part of the interface and are literal."""
    P = ctx.P
    FD = P.cls("distributions.distributions.FiniteDistribution")
    ITEMS_LOOP = "for e, p in self.items():\n    REST"

    def acc_of(f: FunctionInfo):
        return [n for n in ast.walk(f.node) if isinstance(n, ast.AugAssign) and isinstance(n.op, ast.Add) and isinstance(n.target, ast.Subscript)]

    def loops_of_(f: FunctionInfo):
        return [n for n in ast.walk(f.node) if isinstance(n, ast.For)]

    # marginalize: the first loop enumerates (e, p) of self; the first accumulation is acc[projection(e)] += p
    f = FD.methods["marginalize"]
    S = Snips(f)
    proj = f.positional_params[1]
    a = acc_of(f)
    lp = loops_of_(f)
    env = S.m(ITEMS_LOOP, lp[0]) if lp else None
    ok = bool(a) and env is not None and _inside(a[0], lp[0]) and S.m(f"acc[{proj}(e)] += p", a[0], env) is not None
    ctx.check(ok, "ALG-2", f, a[0] if a else f.node, "marginalize: mass of projection(e) accumulates p(e)", "", "marginalize does not sum the probabilities of merged events")
    # chain
    f = FD.methods["chain"]
    S = Snips(f)
    fun = f.positional_params[1]
    a = acc_of(f)
    lps = enclosing_loops(f, a[0]) if a else []
    ok = False
    if a and len(lps) == 2:
        env = S.m(ITEMS_LOOP, lps[0])
        nd, env = S.first(f"inner = {fun}(e)", env, within=lps[0]) if env is not None else (None, None)
        env = S.m("for ne, np_ in inner.items():\n    REST", lps[1], env) if env is not None else None
        ok = env is not None and S.m("acc[ne]", a[0].target, env) is not None and alg.normalise(a[0].value) == _prod(env["p"], env["np_"])
    ctx.check(ok, "ALG-2", f, a[0] if a else f.node, "chain: p(y) += p(x) * p_f(y | x)", "", "chain is not the law of total probability")
    # condition
    f = FD.methods["condition"]
    S = Snips(f)
    pred = f.positional_params[1]
    lp = loops_of_(f)
    env = S.m(ITEMS_LOOP, lp[0]) if lp else None
    _, env = S.first(f"weight = {pred}(e)", env, within=lp[0]) if env is not None else (None, None)
    # the unnormalised posterior: the first store `post[e] = ...` (post a plain name)
    st = [n for n in ast.walk(f.node) if isinstance(n, ast.Assign) and isinstance(n.targets[0], ast.Subscript) and isinstance(n.targets[0].value, ast.Name)]
    st = [n for n in st if n.targets[0].value.id == st[0].targets[0].value.id]
    env2 = S.m("post[e] = E_mass", st[0], env) if st and env is not None else None
    ok = env2 is not None and _inside(st[0], lp[0]) and alg.normalise(env2["mass"]) == _prod(env2["p"], env2["weight"])
    ctx.check(ok, "ALG-2", f, st[0] if st else f.node, "condition: unnormalised mass = p(e) * likelihood(e)", "", "conditioning does not multiply prior by likelihood")
    # the normaliser: the name that accumulates post[e]; every accumulation into it is of that form, and the result is post / normaliser
    tot, env3 = S.first("total += post[e]", env2, within=lp[0]) if env2 is not None else (None, None)
    nm = [n for n in ast.walk(f.node) if isinstance(n, ast.AugAssign) and isinstance(n.target, ast.Name) and env3 is not None and n.target.id == env3["total"]]
    ok = tot is not None and bool(nm) and nm[0] is tot and S.has("{ce: cp / total for ce, cp in post.items()}", {k: env3[k] for k in ("total", "post")})
    ctx.check(ok, "ALG-2", f, nm[0] if nm else f.node, "condition: normalised by the sum of the retained masses", "", "conditioning is not normalised by its own total")
    # on the path to the store the weight is known to be positive — `if weight > 0: store` and `if not weight > 0: continue; store` alike
    from ..util import lexical_guards, atomic_facts, cmp_views
    wn = env.get("weight") if env is not None else None
    ok = False
    if st and wn:
        for t_, lab in lexical_guards(f, st[0]):
            tru = lab.startswith("T")
            for l_, op, r_ in cmp_views(t_):
                if l_ == wn and r_ in ("0", "0.0") and ((op == ">" and tru) or (op == "<=" and not tru)):
                    ok = True
    ctx.check(ok, "ALG-2", f, f.node, "condition: zero-likelihood events are dropped", "", "zero-likelihood events are kept")
    # joint
    f = FD.methods["joint"]
    S = Snips(f)
    oth = f.positional_params[1]
    dc = [n for n in ast.walk(f.node) if isinstance(n, ast.DictComp)]
    env = S.m(f"{{(a, b): E_mass for a, pa in self.items() for b, pb in {oth}.items()}}", dc[0]) if dc else None
    ok = env is not None and alg.normalise(env["mass"]) == _prod(env["pa"], env["pb"])
    ctx.check(ok, "ALG-2", f, dc[0] if dc else f.node, "joint: p(a, b) = p(a) * q(b) over all pairs (inner iterable re-evaluated per outer event)", "",
              "joint is not the product measure over all pairs (or the inner items() is not re-evaluated for each outer event)")
    # or / mul / and / expectation / normalize
    f = FD.methods["__or__"]
    S = Snips(f)
    oth = f.positional_params[1]
    a = acc_of(f)
    lps = loops_of_(f)
    its = [l for l in lps if items_loop_info(l)]
    ok = len(a) == 2 and len(its) == 2
    if ok:
        env = {}
        for recv in ("self", oth):
            hit = [(l, e) for l in its for e in [S.m(f"for e, p in {recv}.items():\n    REST", l)] if e is not None]
            mine = [x for x in a if hit and _inside(x, hit[0][0])]
            # the pair (e, p) is local to each loop; the accumulator is the same object in both
            e2 = S.m("acc[e] += p", mine[0], {**hit[0][1], **env}) if len(hit) == 1 and len(mine) == 1 else None
            if e2 is None:
                ok = False
                break
            env = {"acc": e2["acc"]}
    ctx.check(ok, "ALG-2", f, a[0] if a else f.node, "|: masses of both operands are added pointwise", "", "mixture does not add both operands' masses pointwise")
    f = FD.methods["__mul__"]
    S = Snips(f)
    num = f.positional_params[1]
    dc = [n for n in ast.walk(f.node) if isinstance(n, ast.DictComp)]
    env = S.m("{e: E_mass for e, p in self.items()}", dc[0]) if dc else None
    ok = env is not None and alg.normalise(env["mass"]) == _prod(num, env["p"])
    ctx.check(ok, "ALG-2", f, dc[0] if dc else f.node, "*: every mass is scaled by num", "", "scaling changed")
    f = FD.methods["__and__"]
    S = Snips(f)
    oth = f.positional_params[1]
    lp, env = S.first(f"for e in set(self.support) & set({oth}.support):\n    REST")
    sol = S.solve(["logmass[e] += self.score(e)", f"logmass[e] += {oth}.score(e)", "total += math.exp(logmass[e])"], env, within=lp) if lp is not None else None
    sol = S.solve(["logtotal = math.log(total)", "{ce: math.exp(cl - logtotal) for ce, cl in logmass.items()}"], sol[0]) if sol is not None else None
    ctx.check(sol is not None, "ALG-2", f, f.node, "&: renormalised pointwise product (sum of log-scores) on the common support", "", "conjunction changed")
    f = FD.methods["expectation"]
    S = Snips(f)
    rf = f.positional_params[1]
    a = [n for n in ast.walk(f.node) if isinstance(n, ast.AugAssign)]
    lp = loops_of_(f)
    env = S.m(ITEMS_LOOP, lp[0]) if lp else None
    env = S.m("acc += E_term", a[0], env) if a and env is not None else None
    ok = env is not None and _inside(a[0], lp[0]) and alg.normalise(env["term"]) == _prod(env["p"], f"{rf}({env['e']})") and S.has("return acc", {"acc": env["acc"]})
    ctx.check(ok, "ALG-2", f, a[0] if a else f.node, "expectation: sum of f(e) * p(e)", "", "expectation is not the probability-weighted sum")
    f = FD.methods["normalize"]
    ok = Snips(f).solve(["total = sum(self.values())", "{e: p / total for e, p in self.items()}"]) is not None \
        or Snips(f).solve(["total = sum(self.values())", "for e, p in self.items():\n    d[e] = p / total", "return DictDistribution(d)"]) is not None
    ctx.check(ok, "ALG-2", f, f.node, "normalize: every mass divided by the total", "", "normalize changed")
    # (written after seed C11-c) the operations that compute a new distribution have no short-cut that hands back `self`: a distribution that is
    # only approximately in the target form (a tolerance test such as is_normalized()) would be returned unchanged
    for nm in ("normalize", "condition", "marginalize", "joint", "__and__", "__or__", "__mul__"):
        m_ = FD.methods.get(nm)
        if m_ is None:
            continue
        bad = [r_ for r_ in ast.walk(m_.node) if isinstance(r_, ast.Return) and isinstance(r_.value, ast.Name) and r_.value.id == m_.self_name]
        ctx.check(not bad, "ALG-2", m_, bad[0] if bad else m_.node, f"{nm}: no path returns the receiver unchanged", "",
                  f"a path of `{nm}` returns `self` without computing the result: inputs that pass the short-cut's test only approximately are not transformed")
    sm = P.method("SoftmaxDistribution", "__init__")
    ok = Snips(sm).solve(["top = max(scores.values())", "Z = sum([math.exp(s - top) for s in scores.values()])",
                          "{ce: math.exp(cs - top) / Z for ce, cs in scores.items()}"]) is not None
    ctx.check(ok, "ALG-2", sm, sm.node, "softmax: exp(s - max) / sum exp(s - max) (shift-invariant, normalised)", "", "softmax changed")
    fp = P.method("DictDistribution", "from_pairs")
    S = Snips(fp)
    pairs = fp.positional_params[1]
    a = acc_of(fp)
    lp = enclosing_loops(fp, a[0]) if a else []
    env = S.m(f"for e, p in {pairs}:\n    REST", lp[0]) if len(lp) == 1 else None
    ok = env is not None and S.m("acc[e] += p", a[0], env) is not None
    ctx.check(ok, "ALG-2", fp, a[0] if a else fp.node, "from_pairs: repeated events accumulate their masses", "", "from_pairs overwrites repeated events")


def rule_one_shot(ctx: Ctx):
    """GEN-1: items()/values()/probs of the generic kinds are generators: a variable bound to such a call once may not be the
    iterable of a loop/comprehension that is nested inside another iteration (it would be exhausted after the first pass)."""
    P = ctx.P
    gens = {m.name for m in P.all_functions() if m.cls is not None and "distributions" in m.module.name
            and any(isinstance(n, (ast.Yield, ast.YieldFrom)) for n in ast.walk(m.node))}
    ctx.extra["generator_methods"] = sorted(gens)
    n = 0
    for f in P.all_functions():
        if "distributions" not in f.module.name or f.is_lambda:
            continue
        binds: Dict[str, ast.AST] = {}
        for st in fn_body_nodes(f):
            if isinstance(st, ast.Assign) and isinstance(st.targets[0], ast.Name) and isinstance(st.value, ast.Call) \
                    and isinstance(st.value.func, ast.Attribute) and st.value.func.attr in gens:
                binds[st.targets[0].id] = st
        for node in fn_body_nodes(f):
            inner_iters: List[Tuple[ast.AST, ast.AST]] = []
            if isinstance(node, (ast.ListComp, ast.SetComp, ast.DictComp, ast.GeneratorExp)) and len(node.generators) > 1:
                inner_iters += [(g.iter, node) for g in node.generators[1:]]
            if isinstance(node, ast.For):
                for sub in ast.walk(node):
                    if sub is not node and isinstance(sub, ast.For):
                        inner_iters.append((sub.iter, sub))
                    if isinstance(sub, (ast.ListComp, ast.SetComp, ast.DictComp, ast.GeneratorExp)):
                        inner_iters += [(g.iter, sub) for g in sub.generators]
            S = Snips(f) if inner_iters else None
            for it, where in inner_iters:
                n += 1
                if isinstance(it, ast.Name) and it.id in binds:
                    bound = role_text(S, binds[it.id].value)
                    ctx.violation("GEN-1", f, where, f"inner iteration over a name bound once to `{bound}`",
                                  f"the inner iterable is a local bound once to `{bound}`, which is a generator for some kinds (uniform, deterministic, generic "
                                  f"finite distributions); re-iterating it inside another iteration yields nothing after the first pass")
                else:
                    ctx.passed("GEN-1", f, where, f"inner iterable `{role_text(S, it)}`", "re-evaluated per outer pass")
    return n


def rule_sampling(ctx: Ctx):
    P = ctx.P
    f = P.method("distributions.distributions.FiniteDistribution", "sample")
    S = Snips(f)
    rng = "rng"
    ch = [c for c in ast.walk(f.node) if isinstance(c, ast.Call) and isinstance(c.func, ast.Attribute) and c.func.attr == "choices"]
    # the population: the local handed to choices(population=...); it is the role every other obligation speaks about
    popn = kwarg(ch[0], "population") if ch else None
    env = {"pop": popn.id} if isinstance(popn, ast.Name) else None
    if env is None:
        sol = S.solve(["pop = self.support", "if len(pop) == 1:\n    return pop[0]"])
        env = {"pop": sol[0]["pop"]} if sol is not None else None
    ok = env is not None and S.has("if len(pop) == 1:\n    return pop[0]", env)
    ctx.check(ok, "SMP-1", f, f.node, "one-point distributions return their sole event", "", "one-point shortcut changed")
    ok = bool(ch) and env is not None and rng in S.literals and S.m(f"{rng}.choices(population=pop, weights=tuple(self.probs), REST=ANY)", ch[0], env) is not None
    ctx.check(ok, "SMP-1", f, ch[0] if ch else f.node, "draw = rng.choices(population=support, weights=probs)", "", "sampling does not draw from the supplied generator with the support and its probabilities")
    pr = P.method("distributions.distributions.FiniteDistribution", "probs")
    ok = Snips(pr).has("(self.prob(e) for e in self.support)")
    ctx.check(ok, "SMP-1", pr, pr.node, "weights are prob(e) in the iteration order of the support", "", "weights are not aligned with the support's order")
    sup0 = [n for n in ast.walk(f.node) if isinstance(n, ast.Assign) and isinstance(n.targets[0], ast.Name) and env is not None and n.targets[0].id == env["pop"]]
    ok = bool(sup0) and S.m("pop = self.support", sup0[0], env) is not None
    ctx.check(ok, "SMP-1", f, sup0[0] if sup0 else f.node, "population is the distribution's own support", "", "population is not self.support")
    for k, want in (("UniformDistribution", "rng.choice(self._support)"), ("DeterministicDistribution", "self.value")):
        m = P.method(k, "sample")
        rets = [r for r in ast.walk(m.node) if isinstance(r, ast.Return)]
        ctx.check(bool(rets) and ast.unparse(rets[0].value) == want, "SMP-1", m, m.node, f"{k}.sample = {want}", "", f"{k}.sample changed")
    for m in (f, P.method("UniformDistribution", "sample")):
        bad = [c for c in ast.walk(m.node) if isinstance(c, ast.Call) and isinstance(c.func, ast.Attribute) and isinstance(c.func.value, ast.Name)
               and c.func.value.id == "random"]
        ctx.check(not bad, "SMP-1", m, bad[0] if bad else m.node, f"{m.cls.name}.sample draws only from its rng parameter", "", "a draw bypasses the rng parameter and uses the module-level generator")


def run(ctx: Ctx):
    G = CallGraph(ctx.P, ctx.X)
    rule_mro(ctx)
    rule_totality(ctx, G)
    rule_forms(ctx)
    rule_one_shot(ctx)
    rule_sampling(ctx)
    for rr, k in (("IFC-5", 60), ("IFC-3", 6), ("ALG-2", 12), ("GEN-1", 3), ("SMP-1", 8)):
        ctx.require(rr, k)
    ctx.assume("floating-point mass preservation; conditioning on a zero-mass event is outside the property")

"""C05 — A* and breadth-first search.  IFC-2 (.support capability), guarded returns, predecessor-map
provenance, cost accounting, heap-tuple field order, first-discovery / revision guards."""
from __future__ import annotations

import ast
from typing import Dict, List, Optional, Set, Tuple

from ..callgraph import CallGraph
from ..cfg import cfg_of
from ..dag import T, walk
from ..model import FunctionInfo, ClassInfo, AnalysisError, dotted
from ..report import Ctx
from ..util import posarg, norm, fn_body_nodes, walk_local, kwarg, parents
from .common import calls_named, arg_permutation_rule, names_in

EXPLANATION = (
    "Structural necessary conditions of C05 decided on the AST/CFG of the two search planners and the "
    "MDP-to-shortest-path conversion: protocol capability of .support, results returned only at absorbing popped "
    "states, predecessor map written once per discovery with the (state, action) that produced the successor and read "
    "back in the same order, cost accounting g' = g - reward, f = g' - h, heap tuple ordered by (f, tie_break, ...), "
    "re-push only for a cheaper path. Minimality of cost/steps itself (A*/BFS theorems) is not decided.")
RULES = ("IFC-2 operations applied to .support on a receiver of non-unique class must be supported by every "
         "implementation (keys view: iter/len/in; generator: iter; tuple: all); RET-1 every Result is control-dependent on "
         "is_absorbing(popped state) and the loop has no other exit; PRED-1..3 predecessor map provenance and first-"
         "discovery guard; COST-1..4 cost normal forms; HEAP-1 field order; REV-1 revision guard direction; ARG argument order")

CAP_ALL = {"iter", "len", "in", "subscript"}


def support_capabilities(ctx: Ctx) -> Dict[str, Set[str]]:
    """capability of `support` for each concrete FiniteDistribution kind, from its return expression under that
    class's own MRO."""
    P = ctx.P
    fd = P.cls("distributions.distributions.FiniteDistribution")
    out: Dict[str, Set[str]] = {}
    for ci in P.classes.values():
        if fd not in ci.mro or ci is fd:
            continue
        owner, m = ci.lookup("support")
        if not isinstance(m, FunctionInfo) or m.is_abstract:
            continue
        caps: Optional[Set[str]] = None
        for n in ast.walk(m.node):
            if isinstance(n, ast.Return) and n.value is not None:
                v = n.value
                if isinstance(v, (ast.Tuple, ast.List)):
                    caps = set(CAP_ALL)
                elif isinstance(v, ast.Call) and isinstance(v.func, ast.Attribute) and v.func.attr == "keys":
                    o2, k = ci.lookup("keys")
                    if k == "builtin":
                        caps = {"iter", "len", "in"}
                    elif isinstance(k, FunctionInfo):
                        is_gen = any(isinstance(x, (ast.Yield, ast.YieldFrom)) for x in ast.walk(k.node))
                        caps = {"iter"} if is_gen else None
                elif isinstance(v, ast.Call) and isinstance(v.func, ast.Name) and v.func.id in ("tuple", "list"):
                    caps = set(CAP_ALL)
                else:
                    caps = None    # constructor-argument passthrough etc.: no claim
        out[ci.name] = caps if caps is not None else {"?"}
    return out


def rule_ifc2(ctx: Ctx, fns: List[FunctionInfo]):
    caps = support_capabilities(ctx)
    ctx.extra["support_capabilities"] = {k: sorted(v) for k, v in caps.items()}
    known = [v for v in caps.values() if "?" not in v]
    common = set(CAP_ALL)
    for v in known:
        common &= v
    ctx.extra["support_common_capability"] = sorted(common)
    n = 0
    for fi in fns:
        pm = parents(fi)
        for node in fn_body_nodes(fi):
            if not (isinstance(node, ast.Attribute) and node.attr == "support" and isinstance(node.ctx, ast.Load)):
                continue
            # follow one assignment: x = <...>.support ; uses of x
            uses: List[Tuple[ast.AST, ast.AST]] = []
            par = pm.get(id(node))
            if isinstance(par, ast.Assign) and len(par.targets) == 1 and isinstance(par.targets[0], ast.Name):
                var = par.targets[0].id
                for u in fn_body_nodes(fi):
                    if isinstance(u, ast.Name) and u.id == var and isinstance(u.ctx, ast.Load):
                        uses.append((u, pm.get(id(u))))
            else:
                uses.append((node, par))
            for u, up in uses:
                need = None
                if isinstance(up, ast.Subscript) and up.value is u:
                    need = "subscript"
                elif isinstance(up, ast.Call) and u in up.args and isinstance(up.func, ast.Name):
                    need = {"len": "len", "tuple": "iter", "list": "iter", "set": "iter", "sorted": "iter", "iter": "iter",
                            "frozenset": "iter", "enumerate": "iter", "zip": "iter"}.get(up.func.id)
                elif isinstance(up, (ast.For, ast.comprehension)) and getattr(up, "iter", None) is u:
                    need = "iter"
                elif isinstance(up, ast.Compare) and u in up.comparators:
                    need = "in"
                elif isinstance(up, ast.Starred):
                    need = "iter"
                if need is None:
                    continue
                n += 1
                inst = f"{need}({norm(node, 50)})"
                ctx.check(need in common, "IFC-2", fi, u, inst,
                          f"every implementation of support offers '{need}'",
                          f"operation '{need}' is applied to .support of a distribution of unknown kind, but "
                          f"{[k for k, v in caps.items() if '?' not in v and need not in v]} do not support it "
                          f"(e.g. DictDistribution.support is a dict_keys view)")
    return n


class Search:
    """facts about one search loop."""

    def __init__(self, ctx: Ctx, fi: FunctionInfo, kind: str):
        self.ctx, self.fi, self.kind = ctx, fi, kind
        self.cfg = cfg_of(fi)
        self.loop = None
        for n in self.cfg.nodes:
            if n.kind == "while" and isinstance(n.ast.test, ast.Name):
                self.loop = n
        if self.loop is None:
            raise AnalysisError(f"{fi.qualname}: main `while <queue>` loop not found")
        self.queue = self.loop.ast.test.id
        self.popped_state = None      # variable holding the popped state
        self.popped_node = None       # variable holding the popped heap node (A*)
        for st in self.loop.ast.body:
            if isinstance(st, ast.Assign) and isinstance(st.targets[0], ast.Name) and isinstance(st.value, ast.Call):
                c = st.value
                f = c.func
                if isinstance(f, ast.Attribute) and f.attr in ("popleft", "pop") and dotted(f.value) == self.queue:
                    self.popped_state = st.targets[0].id
                elif isinstance(f, ast.Attribute) and f.attr == "heappop" and c.args and dotted(c.args[0]) == self.queue:
                    self.popped_node = st.targets[0].id
            if isinstance(st, ast.Assign) and isinstance(st.targets[0], ast.Name) and isinstance(st.value, ast.Attribute) \
                    and isinstance(st.value.value, ast.Name) and st.value.value.id == self.popped_node and st.value.attr == "state":
                self.popped_state = st.targets[0].id
        if self.popped_state is None:
            raise AnalysisError(f"{fi.qualname}: popped-state variable not found")

    def in_loop(self, node) -> bool:
        return any(node is x for x in ast.walk(self.loop.ast))


def rule_returns(ctx: Ctx, S: Search):
    fi, cfg = S.fi, S.cfg
    rets = [n for n in cfg.nodes if n.kind == "stmt" and isinstance(n.ast, ast.Return)]
    for r in rets:
        if r.ast.value is None or (isinstance(r.ast.value, ast.Constant) and r.ast.value.value is None):
            continue
        ok = False
        for b, lab in cfg.guards(r.id):
            bn = cfg.nodes[b]
            if bn.kind == "if" and lab.startswith("T"):
                t = bn.ast.test
                if isinstance(t, ast.Call) and isinstance(t.func, ast.Attribute) and t.func.attr == "is_absorbing" \
                        and len(t.args) == 1 and isinstance(t.args[0], ast.Name) and t.args[0].id == S.popped_state:
                    ok = True
        ctx.check(ok, "RET-1", fi, r.ast, "Result returned only under is_absorbing(<popped state>)",
                  "guarded by the absorbing test of the state just popped",
                  "a plan is returned on a path that does not test is_absorbing() of the popped state")
    breaks = [n for n in cfg.nodes if n.kind == "stmt" and isinstance(n.ast, ast.Break) and S.in_loop(n.ast)]
    ctx.check(not breaks, "RET-1", fi, breaks[0].ast if breaks else S.loop.ast, "loop exits only by exhaustion or a returned plan",
              "", "the search loop can be left by `break` without a plan although states remain queued")
    # after the loop nothing but an implicit/explicit None is returned
    tail = [r for r in rets if not S.in_loop(r.ast) and r.ast.value is not None
            and not (isinstance(r.ast.value, ast.Constant) and r.ast.value.value is None)]
    ctx.check(not tail, "RET-1", fi, tail[0].ast if tail else S.loop.ast, "queue exhaustion returns no plan", "",
              "a plan is returned after the queue is exhausted")
    # path is reconstructed from the start state to the popped state
    rp = calls_named(fi, "reconstruct_path")
    if rp:
        a = [posarg(rp[0], i) for i in range(3)]        # by parameter, positional or keyword
        ok = all(x is not None for x in a) and isinstance(a[2], ast.Name) and a[2].id == S.popped_state and isinstance(a[1], ast.Name)
        start_ok = None
        if ok:
            t = ctx.X.expr(fi, a[1])
            start_ok = t.op == "call" and t.args[0].op == "attr" and t.args[0].args[1] == "initial_state"
        ctx.check(ok and start_ok, "RET-1", fi, rp[0], "path = reconstruct_path(camefrom, <initial state>, <popped state>)", "",
                  "the path is not reconstructed from the problem's initial state to the absorbing state just popped")


def rule_pred(ctx: Ctx, S: Search):
    fi, cfg = S.fi, S.cfg
    stores = [st for st in fn_body_nodes(fi) if isinstance(st, ast.Assign) and isinstance(st.targets[0], ast.Subscript)
              and isinstance(st.targets[0].value, ast.Name) and isinstance(st.value, ast.Tuple) and len(st.value.elts) == 2
              and S.in_loop(st)]
    if len(stores) != 1:
        ctx.unknown("PRED-1", fi, S.loop.ast, "predecessor store", f"{len(stores)} candidate stores")
        return
    st = stores[0]
    came = st.targets[0].value.id
    key = st.targets[0].slice
    e0, e1 = st.value.elts
    # ns = next_state(s, a) with the same s, a; s is the popped state; a iterates actions(s)
    t = ctx.X.expr(fi, key)
    ok_ns = t.op == "call" and t.args[0].op == "attr" and t.args[0].args[1] == "next_state"
    args_ok = None
    if ok_ns:
        call_ast = t.src[1] if t.src else None
        if isinstance(call_ast, ast.Call):
            an = [a.id if isinstance(a, ast.Name) else None for a in call_ast.args]
            args_ok = an == [getattr(e0, "id", "?0"), getattr(e1, "id", "?1")]
    ctx.check(ok_ns and args_ok, "PRED-1", fi, st, f"{came}[ns] = (s, a) with ns = next_state(s, a)",
              "the stored pair is the one that produced the successor",
              f"the predecessor stored for `{norm(key)}` is `{norm(st.value)}`, which is not the (state, action) pair whose "
              f"next_state() produced it")
    ctx.check(isinstance(e0, ast.Name) and e0.id == S.popped_state, "PRED-1", fi, st, "predecessor state is the popped state", "",
              f"predecessor state `{norm(e0)}` is not the state being expanded `{S.popped_state}`")
    # action variable iterates the expanded state's own actions
    for_a = None
    for n in ast.walk(S.loop.ast):
        if isinstance(n, ast.For) and isinstance(n.target, ast.Name) and isinstance(e1, ast.Name) and n.target.id == e1.id:
            for_a = n
    if for_a is not None:
        acts = [c for c in ast.walk(for_a.iter) if isinstance(c, ast.Call) and isinstance(c.func, ast.Attribute) and c.func.attr == "actions"]
        ok = bool(acts) and len(acts[0].args) == 1 and isinstance(acts[0].args[0], ast.Name) and acts[0].args[0].id == S.popped_state
        ctx.check(ok, "PRED-1", fi, for_a, "actions enumerated are actions(<popped state>)", "", "expands actions of a different state")
    # readers: reconstruct_path takes element 0 as the predecessor state; camefrom_to_policy unpacks (s, a)
    P = ctx.P
    rp = P.fn("search.reconstruct_path")
    sub = [n for n in ast.walk(rp.node) if isinstance(n, ast.Subscript) and isinstance(n.value, ast.Subscript)
           and isinstance(n.slice, ast.Constant)]
    ctx.check(bool(sub) and sub[0].slice.value == 0, "PRED-2", rp, sub[0] if sub else rp.node,
              "reconstruct_path follows element 0 (the predecessor state)", "",
              f"path reconstruction follows element {sub[0].slice.value if sub else '?'} of the stored (state, action) pair")
    rev = [n for n in ast.walk(rp.node) if isinstance(n, ast.Return)]
    ok = bool(rev) and isinstance(rev[0].value, ast.Subscript) and isinstance(rev[0].value.slice, ast.Slice) \
        and isinstance(rev[0].value.slice.step, ast.UnaryOp)
    ctx.check(ok, "PRED-2", rp, rev[0] if rev else rp.node, "path is reversed to run from start to goal", "", "reconstructed path is not reversed")
    wl = [n for n in ast.walk(rp.node) if isinstance(n, ast.While)]
    ok = bool(wl) and isinstance(wl[0].test, ast.Compare) and isinstance(wl[0].test.ops[0], ast.NotEq) \
        and "start" in names_in(wl[0].test)
    ctx.check(ok if wl else None, "PRED-2", rp, wl[0] if wl else rp.node, "reconstruction stops at the start state", "", "reconstruction does not stop at the start state")
    cp = P.fn("search.camefrom_to_policy")
    unp = [n for n in ast.walk(cp.node) if isinstance(n, ast.Assign) and isinstance(n.targets[0], ast.Tuple)
           and isinstance(n.value, ast.Subscript)]
    sto = [n for n in ast.walk(cp.node) if isinstance(n, ast.Assign) and isinstance(n.targets[0], ast.Subscript)
           and isinstance(n.value, ast.Name)]
    if unp and sto:
        names = [e.id for e in unp[0].targets[0].elts]
        ok = len(names) == 2 and isinstance(sto[0].targets[0].slice, ast.Name) and sto[0].targets[0].slice.id == names[0] \
            and sto[0].value.id == names[1]
        ctx.check(ok, "PRED-2", cp, sto[0], "policy[s] = a for (s, a) = camefrom[ns]", "", "policy maps the wrong component of the predecessor pair")
    else:
        # (tightened after seed C05-b) a policy entry whose action is not read from the predecessor map at all is definitely not the recorded action
        cf = cp.positional_params[1] if len(cp.positional_params) > 1 else "camefrom"
        anysto = [n for n in ast.walk(cp.node) if isinstance(n, ast.Assign) and isinstance(n.targets[0], ast.Subscript)]
        # names that carry something read from the predecessor map
        from_map = {cf}
        for n_ in ast.walk(cp.node):
            if isinstance(n_, ast.Assign) and any(isinstance(x, ast.Name) and x.id == cf for x in ast.walk(n_.value)):
                for t_ in n_.targets:
                    from_map |= {x.id for x in ast.walk(t_) if isinstance(x, ast.Name)}
        uses_map = bool(anysto) and any(isinstance(x, ast.Name) and x.id in from_map for x in ast.walk(anysto[0].value))
        if anysto and not uses_map:
            ctx.violation("PRED-2", cp, anysto[0], "policy[s] = a for (s, a) = camefrom[ns]",
                          f"the plan's action for a state is recomputed (`{norm(anysto[0].value, 70)}`) instead of being the action recorded in the predecessor map `{cf}`: "
                          "with several actions leading to the same successor the executed plan differs from the one whose cost was searched")
        else:
            ctx.unknown("PRED-2", cp, cp.node, "policy from predecessor map", "idiom not recognised")
    # first-discovery guard (BFS) — every container that already holds discovered states is tested
    if S.kind == "bfs":
        node = cfg.node_for(st)
        tested: Set[str] = set()
        for b, lab in cfg.guards(node):
            bn = cfg.nodes[b]
            if bn.kind != "if" or not lab.startswith("T"):
                continue
            for cmp_ in ast.walk(bn.ast.test):
                if isinstance(cmp_, ast.Compare) and len(cmp_.ops) == 1 and isinstance(cmp_.ops[0], ast.NotIn) \
                        and ast.unparse(cmp_.left) == ast.unparse(key) and isinstance(cmp_.comparators[0], ast.Name):
                    tested.add(cmp_.comparators[0].id)
        holders = {S.queue}
        for n in ast.walk(S.loop.ast):
            if isinstance(n, ast.Call) and isinstance(n.func, ast.Attribute) and n.func.attr == "add" \
                    and isinstance(n.func.value, ast.Name) and n.args and isinstance(n.args[0], ast.Name) and n.args[0].id == S.popped_state:
                holders.add(n.func.value.id)
        ok = came in tested or holders <= tested
        ctx.check(ok, "PRED-3", fi, st, "predecessor stored only on first discovery",
                  f"guarded by non-membership in {sorted(tested)}",
                  f"the predecessor of `{norm(key)}` is (re)written although it may already be discovered: the guard tests "
                  f"{sorted(tested)} but discovered states live in {sorted(holders)}; a later, longer route can overwrite the first one")
        # the same guard governs the enqueue
        enq = [n for n in ast.walk(S.loop.ast) if isinstance(n, ast.Call) and isinstance(n.func, ast.Attribute)
               and n.func.attr == "append" and dotted(n.func.value) == S.queue]
        if enq:
            ok = cfg.control_deps(cfg.node_for(enq[0])) == cfg.control_deps(node)
            ctx.check(ok, "PRED-3", fi, enq[0], "enqueue and predecessor store share one guard", "", "a state can be queued without a predecessor or vice versa")
        # FIFO discipline
        pops = [n for n in ast.walk(S.loop.ast) if isinstance(n, ast.Call) and isinstance(n.func, ast.Attribute) and n.func.attr in ("popleft", "pop")
                and dotted(n.func.value) == S.queue]
        ok = bool(pops) and bool(enq) and ((pops[0].func.attr == "popleft" and enq[0].func.attr == "append"))
        ctx.check(ok, "PRED-3", fi, pops[0] if pops else S.loop.ast, "frontier is first-in first-out (popleft/append)", "",
                  "the frontier is not consumed in first-in first-out order, so states are not expanded in order of depth")


def rule_cost(ctx: Ctx, S: Search):
    fi, cfg = S.fi, S.cfg
    node_cls = ctx.P.cls("AStarSearchNode")
    fields = [n for n in node_cls.annotations]
    ctx.extra["heap_node_fields"] = fields
    ok = len(fields) >= 3 and fields[0] == "heuristic_cost" and fields[1] == "tie_break" and \
        "state" in fields and fields.index("state") > 1
    ctx.check(ok, "HEAP-1", fi, node_cls.node, "heap tuple orders by (heuristic_cost, tie_break) before any user state",
              str(fields), f"field order {fields}: the heap would compare {fields[0]!r} first / may compare user states")
    pushes = calls_named(fi, "push")
    loop_push = [p for p in pushes if S.in_loop(p)]
    init_push = [p for p in pushes if not S.in_loop(p)]
    # g' = g(popped node) - reward(s, a, ns)
    gdef = None
    for st in ast.walk(S.loop.ast):
        if isinstance(st, ast.Assign) and isinstance(st.value, ast.BinOp) and isinstance(st.value.op, ast.Sub) \
                and isinstance(st.value.right, ast.Call) and isinstance(st.value.right.func, ast.Attribute) and st.value.right.func.attr == "reward":
            gdef = st
    if gdef is None:
        signs = [st for st in ast.walk(S.loop.ast) if isinstance(st, ast.Assign) and any(
            isinstance(c, ast.Call) and isinstance(c.func, ast.Attribute) and c.func.attr == "reward" for c in ast.walk(st.value))]
        if signs:
            ctx.violation("COST-1", fi, signs[0], "g(ns) = g(s) - reward(s, a, ns)",
                          f"cost of the successor is computed as `{norm(signs[0].value)}`: costs are negated rewards and must be subtracted from the cost so far")
        else:
            ctx.unknown("COST-1", fi, S.loop.ast, "g(ns) = g(s) - reward(s, a, ns)", "idiom not recognised")
        return
    gvar = gdef.targets[0].id
    left = gdef.value.left
    ok = isinstance(left, ast.Attribute) and left.attr == "cost_from_start" and isinstance(left.value, ast.Name) and left.value.id == S.popped_node
    ctx.check(ok, "COST-1", fi, gdef, "g(ns) = g(popped node) - reward(s, a, ns)", "", f"the cost so far is taken from `{norm(left)}`, not from the node just popped")
    rc = gdef.value.right
    an = [a.id if isinstance(a, ast.Name) else None for a in rc.args]
    ns_var = None
    for st in ast.walk(S.loop.ast):
        if isinstance(st, ast.Assign) and isinstance(st.value, ast.Call) and isinstance(st.value.func, ast.Attribute) \
                and st.value.func.attr == "next_state" and isinstance(st.targets[0], ast.Name):
            ns_var = st.targets[0].id
            nsa = [a.id if isinstance(a, ast.Name) else None for a in st.value.args]
            ctx.check(an == nsa + [ns_var], "COST-1", fi, rc, "reward(s, a, ns) of the transition just generated", "",
                      f"edge cost uses reward({', '.join(map(str, an))}) but the transition is next_state({', '.join(map(str, nsa))}) -> {ns_var}")
    if loop_push:
        p = loop_push[0]
        hc, cs, stt = kwarg(p, "heuristic_cost"), kwarg(p, "cost_from_start"), kwarg(p, "state")
        ok = isinstance(hc, ast.BinOp) and isinstance(hc.op, ast.Sub) and isinstance(hc.left, ast.Name) and hc.left.id == gvar \
            and isinstance(hc.right, ast.Call) and "heuristic_value" in ast.unparse(hc.right.func) \
            and len(hc.right.args) == 1 and isinstance(hc.right.args[0], ast.Name) and hc.right.args[0].id == ns_var
        ctx.check(ok, "COST-2", fi, p, "priority f(ns) = g(ns) - heuristic_value(ns)", "", f"priority is `{norm(hc) if hc is not None else None}`")
        ctx.check(isinstance(cs, ast.Name) and cs.id == gvar and isinstance(stt, ast.Name) and stt.id == ns_var, "COST-2", fi, p,
                  "pushed node carries g(ns) and ns", "", "pushed node does not carry the successor and its cost")
    if init_push:
        p = init_push[0]
        hc, cs, stt = kwarg(p, "heuristic_cost"), kwarg(p, "cost_from_start"), kwarg(p, "state")
        ok = isinstance(hc, ast.UnaryOp) and isinstance(hc.op, ast.USub) and isinstance(hc.operand, ast.Call) \
            and "heuristic_value" in ast.unparse(hc.operand.func) and ast.unparse(hc.operand.args[0]) == ast.unparse(stt)
        ctx.check(ok, "COST-3", fi, p, "start priority = -heuristic_value(start)", "", f"start priority is `{norm(hc) if hc is not None else None}`")
        ctx.check(isinstance(cs, ast.Constant) and cs.value == 0, "COST-3", fi, p, "start cost is 0", "", "start cost is not 0")
    # reported path value is the popped node's g
    for r in [n for n in ast.walk(S.loop.ast) if isinstance(n, ast.Return) and isinstance(n.value, ast.Call)]:
        pv = kwarg(r.value, "path_value")
        if pv is not None:
            ok = isinstance(pv, ast.Attribute) and pv.attr == "cost_from_start" and isinstance(pv.value, ast.Name) and pv.value.id == S.popped_node
            ctx.check(ok, "COST-4", fi, r, "path_value = cost_from_start of the popped goal node", "", f"path_value is `{norm(pv)}`")
    # revision guard: skip when the queued node is at least as cheap
    for n in ast.walk(S.loop.ast):
        if isinstance(n, ast.If) and any(isinstance(x, ast.Continue) for x in n.body):
            for c in ast.walk(n.test):
                if not (isinstance(c, ast.Compare) and len(c.ops) == 1):
                    continue
                l, r, op = c.left, c.comparators[0], type(c.ops[0])
                if isinstance(r, ast.Attribute) and r.attr == "cost_from_start" and isinstance(l, ast.Name):       # mirrored spelling
                    l, r, op = r, l, {ast.Lt: ast.Gt, ast.Gt: ast.Lt, ast.LtE: ast.GtE, ast.GtE: ast.LtE}.get(op, op)
                if isinstance(l, ast.Attribute) and l.attr == "cost_from_start" and isinstance(r, ast.Name) and r.id == gvar:
                    ok = op in (ast.LtE, ast.Lt)
                    ctx.check(ok, "REV-1", fi, c, "skip successor when the queued node is cheaper or equal", "",
                              f"revision guard `{norm(c)}` skips cheaper routes and keeps more expensive ones")
    # stale-node skip: popped state already visited -> continue
    first_if = [st for st in S.loop.ast.body if isinstance(st, ast.If)]
    ok = bool(first_if) and isinstance(first_if[0].test, ast.Compare) and isinstance(first_if[0].test.ops[0], ast.In) \
        and isinstance(first_if[0].test.left, ast.Name) and first_if[0].test.left.id == S.popped_state \
        and any(isinstance(x, ast.Continue) for x in first_if[0].body)
    ctx.check(ok if first_if else None, "REV-1", fi, first_if[0] if first_if else S.loop.ast, "stale heap entries of visited states are skipped", "",
              "a popped state that was already expanded is expanded again")
    # visited successors are skipped, visited is marked at expansion
    adds = [n for n in ast.walk(S.loop.ast) if isinstance(n, ast.Call) and isinstance(n.func, ast.Attribute) and n.func.attr == "add"
            and n.args and isinstance(n.args[0], ast.Name) and n.args[0].id == S.popped_state]
    ctx.check(bool(adds), "REV-1", fi, adds[0] if adds else S.loop.ast, "expanded state is marked visited", "", "expanded states are never marked visited")


def run(ctx: Ctx):
    P = ctx.P
    G = CallGraph(P, ctx.X)
    bfs = P.method("BreadthFirstSearch", "plan_on")
    ast_ = P.method("AStarSearch", "plan_on")
    conv = P.method("DeterministicShortestPathProblem", "from_mdp")
    fns = [f for f in P.all_functions() if f.module.name in ("msdm.algorithms.search", "msdm.core.mdp.deterministic_shortest_path")]
    n = rule_ifc2(ctx, fns)
    for fi, kind in ((bfs, "bfs"), (ast_, "astar")):
        S = Search(ctx, fi, kind)
        rule_returns(ctx, S)
        rule_pred(ctx, S)
        if kind == "astar":
            rule_cost(ctx, S)
    arg_permutation_rule(ctx, G, fns, "ARG")
    # the conversion forwards actions / reward / is_absorbing of the wrapped MDP under the same names
    from .common import stmts_assigning_attr
    local = list(conv.local_classes.values())
    if local:
        asg = stmts_assigning_attr(conv, local[0].name)
        for member in ("actions", "reward", "is_absorbing"):
            sts = asg.get(member, [])
            ok = None
            if sts:
                v = sts[0].value
                if isinstance(v, ast.Call) and v.args:
                    v = v.args[0]
                ok = isinstance(v, ast.Attribute) and v.attr == member and isinstance(v.value, ast.Name) and v.value.id == "mdp"
            ctx.check(ok if sts else False, "WIRE-1", conv, sts[0] if sts else conv.node, f"converted problem's {member} is the MDP's {member}", "",
                      f"the converted problem's `{member}` is not the wrapped MDP's `{member}`")
        for mname, src in (("initial_state", "initial_state_dist"), ("next_state", "next_state_dist")):
            m = local[0].methods.get(mname)
            if m is None:
                raise AnalysisError(f"from_mdp: method {mname} vanished")
            calls = calls_named(m, src)
            ok = bool(calls) and isinstance(calls[0].func, ast.Attribute) and dotted(calls[0].func.value) == "mdp" and \
                [a.id if isinstance(a, ast.Name) else None for a in calls[0].args] == m.positional_params[1:]
            ctx.check(ok, "WIRE-1", m, m.node, f"{mname}(...) is the single outcome of mdp.{src}(same arguments)", "",
                      f"{mname} does not read mdp.{src} with its own arguments")
            asserts = [n for n in ast.walk(m.node) if isinstance(n, ast.Assert)]
            ok = any("len" in names_in(a.test) and isinstance(a.test, ast.Compare) and isinstance(a.test.comparators[0], ast.Constant)
                     and a.test.comparators[0].value == 1 for a in asserts)
            ctx.check(ok, "WIRE-1", m, asserts[0] if asserts else m.node, f"{mname}: single-outcome assertion", "", "non-deterministic distributions are not rejected")
    ctx.require("IFC-2", 2)
    ctx.require("RET-1", 6)
    ctx.require("PRED-1", 5)
    ctx.require("PRED-2", 4)
    ctx.require("PRED-3", 3)
    ctx.require("COST-1", 2); ctx.require("COST-2", 2); ctx.require("COST-3", 2); ctx.require("COST-4", 1)
    ctx.require("HEAP-1", 1); ctx.require("REV-1", 3); ctx.require("WIRE-1", 7); ctx.require("ARG", 4)
    ctx.assume("A*/BFS optimality theorems (consistent heuristic, non-negative costs) hold for the algorithm whose structure is checked")

"""C13 — seeds and isolation.  Rules RNG-1..6 (DESIGN.md §2.2)."""
from __future__ import annotations

import ast
from typing import Dict, List, Optional, Set, Tuple

from ..callgraph import CallGraph, CallSite, ext_name
from ..cfg import cfg_of
from ..dag import T, walk, contains, deep_inline, show
from ..model import FunctionInfo, ClassInfo, AnalysisError
from ..report import Ctx
from ..util import name_free, norm, ancestors, fn_body_nodes, is_none_test, parents, walk_local, kwarg
from . import setorder

EXPLANATION = (
    "Randomness / hash-order effect analysis over the resolved call graph reachable from the frozen list of "
    "seeded entry points. Decides: no ambient draw once a seed is given (RNG-1), the generator in scope is "
    "threaded into every generator-accepting call (RNG-2), seeds are tested by identity (RNG-3), ambient "
    "reseeding is scoped (RNG-4), seeds are not derived from hash()/id() (RNG-5), no set iteration order "
    "reaches ordered results / array layouts / generator draws (RNG-6). Does not decide nondeterminism inside "
    "numpy/torch/scipy kernels or user callables.")
RULES = ("RNG-1 ambient draw must be control-dependent on '<seed> is None' or inside fork_rng+manual_seed(seed); "
         "RNG-2 every call whose in-scope callees all accept rng/rnd/generator passes a generator in scope, and "
         "seed-accepting constructors get the seed; RNG-3 no seed in boolean context; RNG-4 reseed only inside "
         "fork_rng; RNG-5 no hash()/id() in the DAG of a generator seed; RNG-6 set-typed values only flow to "
         "order-insensitive consumers")

OUT_OF_SCOPE_PREFIXES = (
    "msdm.core.stochasticgame", "msdm.core.posg", "msdm.algorithms.multiagentqlearning", "msdm.algorithms.nashq",
    "msdm.algorithms.correlatedq", "msdm.algorithms.friendfoeq", "msdm.core.distributions.discretefactortable",
    "msdm.domains.gridgame", "msdm.algorithms.juliapomdps", "msdm.tools", "msdm.core.assignment",
)

# frozen list of seeded entry points (class, method); a vanished one is an analysis error
ENTRIES = [
    ("LAOStar", "__init__"), ("LAOStar", "plan_on"),
    ("LRTDP", "__init__"), ("LRTDP", "plan_on"),
    ("AStarSearch", "__init__"), ("AStarSearch", "plan_on"),
    ("BreadthFirstSearch", "__init__"), ("BreadthFirstSearch", "plan_on"),
    ("TemporalDifferenceLearning", "__init__"), ("QLearning", "train_on"), ("SARSA", "train_on"),
    ("ExpectedSARSA", "train_on"), ("DoubleQLearning", "train_on"),
    ("QLearning", "_training"), ("SARSA", "_training"), ("ExpectedSARSA", "_training"), ("DoubleQLearning", "_training"),
    ("RMAX", "__init__"), ("RMAX", "train_on"),
    ("FSCBoundedPolicyIteration", "__init__"), ("FSCBoundedPolicyIteration", "train_on"),
    ("FSCGradientAscent", "__init__"), ("FSCGradientAscent", "train_on"),
    ("SemiMarkovDecisionProcess", "next_state_transit_time_reward_dist"),
    ("SemiMarkovDecisionProcess", "run_simulations"),
    ("Option", "run_on"),
    ("ImplicitDistribution", "__init__"), ("ImplicitDistribution", "sample"), ("ImplicitDistribution", "items"),
    ("ImplicitDistribution", "expectation"), ("ImplicitDistribution", "marginalize"), ("ImplicitDistribution", "condition"),
    ("ImplicitDistribution", "_monte_carlo_simulation"),
    ("mdp.policy.Policy", "run_on"), ("mdp.policy.Policy", "evaluate_on"), ("POMDPPolicy", "run_on"),
]

GEN_PARAM_NAMES = {"rng", "rnd", "generator"}
GEN_ATTRS = {"rng", "_rng", "rnd"}
SEED_NAMES = {"seed", "_seed"}

AMBIENT_RANDOM = {"random", "randint", "choice", "choices", "shuffle", "sample", "uniform", "gauss", "randrange",
                  "getrandbits", "normalvariate", "betavariate", "expovariate", "triangular", "randbytes",
                  "lognormvariate", "vonmisesvariate", "gammavariate", "paretovariate", "weibullvariate"}
NP_NOT_DRAW = {"default_rng", "Generator", "RandomState", "SeedSequence", "seed", "get_state", "set_state",
               "BitGenerator", "PCG64", "MT19937", "Philox", "SFC64"}
TORCH_DRAWS = {"rand", "randn", "randint", "randperm", "rand_like", "randn_like", "randint_like", "multinomial",
               "normal", "bernoulli", "poisson"}
PRIVATE_CTORS = {"random.Random", "numpy.random.default_rng", "numpy.random.RandomState", "numpy.random.Generator",
                 "torch.Generator", "random.SystemRandom"}
RESEEDS = {"random.seed", "numpy.random.seed", "torch.manual_seed", "torch.random.manual_seed", "torch.seed",
           "torch.cuda.manual_seed", "torch.cuda.manual_seed_all"}


def in_scope(fi: FunctionInfo) -> bool:
    return not any(fi.module.name == p or fi.module.name.startswith(p + ".") for p in OUT_OF_SCOPE_PREFIXES)


def is_seed_expr(node: ast.AST) -> bool:
    if isinstance(node, ast.Name):
        return node.id in SEED_NAMES
    if isinstance(node, ast.Attribute):
        return node.attr in SEED_NAMES
    return False


def ambient_draw(ext: Optional[str], call: ast.Call) -> Optional[str]:
    """name of the ambient generator drawn from, or None."""
    if not ext:
        return None
    parts = ext.split(".")
    if parts[0] == "random" and len(parts) == 2 and parts[1] in AMBIENT_RANDOM:
        return "random"
    if ext.startswith("numpy.random.") and len(parts) == 3 and parts[2] not in NP_NOT_DRAW:
        return "numpy.random"
    if parts[0] == "torch" and parts[-1] in TORCH_DRAWS and len(parts) <= 3:
        if kwarg(call, "generator") is None:
            return "torch"
    return None


def ambient_module_term(t: T) -> Optional[str]:
    if t.op == "modref" and t.args[0] in ("random", "numpy.random"):
        return t.args[0]
    e = ext_name(t)
    if e in ("random", "numpy.random"):
        return e
    return None


class RNG:
    def __init__(self, ctx: Ctx, fns: Optional[List[FunctionInfo]] = None):
        self.ctx = ctx
        self.P = ctx.P
        self.X = ctx.X
        self.G = CallGraph(ctx.P, ctx.X)
        self.entries: List[FunctionInfo] = []
        if fns is not None:          # restricted use by other properties (e.g. C14): only these functions
            self.fns, self.out_scope, self.reach = list(fns), [], list(fns)
            return
        for c, m in ENTRIES:
            self.entries.append(self.P.method(c, m))
        self.reach = self.G.reachable(self.entries)
        self.fns = [f for f in self.reach if in_scope(f)]
        self.out_scope = [f for f in self.reach if not in_scope(f)]

    # ------------------------------------------------------------------ generator kinds
    def gen_kind(self, t: T, depth: int = 0) -> Optional[str]:
        """'param' | 'private' | 'ambient' | 'attr' | 'maybe-ambient' | None"""
        if depth > 5:
            return None
        if t.op == "param" and t.args[1] in GEN_PARAM_NAMES:
            return "param"
        if t.op == "attr" and t.args[1] in GEN_ATTRS:
            return "attr"
        a = ambient_module_term(t)
        if a:
            return "ambient"
        if t.op == "call":
            e = ext_name(t.args[0])
            if e in PRIVATE_CTORS:
                return "private"
            f = t.args[0]
            target = None
            if f.op == "funcref" and isinstance(f.args[0], FunctionInfo):
                target = f.args[0]
            elif f.op == "attr":
                cl = self.G.classes_of(f.args[0])
                if cl:
                    _, m = cl[0].lookup(f.args[1])
                    if isinstance(m, FunctionInfo):
                        target = m
            if target is not None:
                return self.gen_kind(self.X.returns(target), depth + 1)
            return None
        if t.op == "phi":
            ks = {self.gen_kind(a, depth + 1) for a in t.args[0]}
            ks.discard(None) if len(ks) > 1 and None in ks and False else None
            if None in ks:
                return None
            if ks == {"ambient"}:
                return "ambient"
            if "ambient" in ks:
                return "maybe-ambient"      # e.g. `rng = Random(seed)` / `rng = random` under `seed is None`
            return sorted(ks)[0] if ks else None
        return None

    def class_has_gen_attr(self, ci: Optional[ClassInfo]) -> Optional[str]:
        if ci is None:
            return None
        for c in ci.mro:
            if not isinstance(c, ClassInfo):
                continue
            for m in c.methods.values():
                if m.name in GEN_ATTRS and m.is_property:
                    return m.name
                for sub in ast.walk(m.node):
                    if isinstance(sub, (ast.Assign, ast.AnnAssign)):
                        tg = sub.targets if isinstance(sub, ast.Assign) else [sub.target]
                        for t in tg:
                            if isinstance(t, ast.Attribute) and t.attr in GEN_ATTRS and isinstance(t.value, ast.Name) \
                                    and t.value.id == (m.self_name or "self"):
                                return t.attr
        return None

    def gens_in_scope(self, fi: FunctionInfo) -> List[str]:
        """textual names of generator-valued variables visible in fi."""
        out: List[str] = []
        f = fi
        while f is not None:
            for p in f.param_names:
                if p in GEN_PARAM_NAMES and p not in out:
                    out.append(p)
            cfg = cfg_of(f)
            for d in cfg.defs:
                if d.kind == "assign" and "." not in d.var and d.var not in out:
                    try:
                        k = self.gen_kind(self.X.def_term(f, d))
                    except RecursionError:
                        k = None
                    if k in ("private", "param", "attr", "maybe-ambient"):
                        out.append(d.var)
            cls = f.cls
            if cls is not None and f.self_name:
                a = self.class_has_gen_attr(cls)
                if a and f"{f.self_name}.{a}" not in out:
                    out.append(f"{f.self_name}.{a}")
            f = f.parent
        return out

    def is_gen_arg(self, fi: FunctionInfo, node: ast.AST, gens: List[str]) -> Optional[bool]:
        """True: a generator in scope; False: definitely the ambient module; None: something else."""
        from ..model import dotted
        d = dotted(node)
        if d is not None and d in gens:
            return True
        try:
            t = self.X.expr(fi, node)
        except RecursionError:
            return None
        k = self.gen_kind(t)
        if k == "ambient":
            return False
        if k in ("private", "param", "attr", "maybe-ambient"):
            return True
        return None

    # ------------------------------------------------------------------ RNG-1 / RNG-4
    def seed_guarded(self, fi: FunctionInfo, node: ast.AST) -> Optional[str]:
        """reason string when `node` only executes if the configured seed is None."""
        # expression-level guards
        prev = node
        for anc in ancestors(fi, node):
            if isinstance(anc, ast.IfExp):
                r = is_none_test(anc.test)
                if r and is_seed_expr(r[0]):
                    x, isnone = r
                    if (prev is anc.body and isnone) or (prev is anc.orelse and not isnone):
                        return f"in the '{norm(anc.test)}'-guarded arm of a conditional expression"
            if isinstance(anc, (ast.FunctionDef, ast.AsyncFunctionDef, ast.Lambda)):
                break
            prev = anc
        cfg = cfg_of(fi)
        n = cfg.node_for(node)
        if n is None:
            return None
        for b, lab in cfg.guards(n):
            bn = cfg.nodes[b]
            if bn.kind != "if":
                continue
            r = is_none_test(bn.ast.test)
            if r and is_seed_expr(r[0]):
                x, isnone = r
                lab0 = lab.split("|")[0]
                if (isnone and lab0 == "T") or (not isnone and lab0 == "F"):
                    return f"control-dependent on '{norm(bn.ast.test)}' ({lab0} edge)"
        return None

    def fork_scoped(self, fi: FunctionInfo, node: ast.AST) -> Optional[str]:
        for anc in ancestors(fi, node):
            if isinstance(anc, (ast.With, ast.AsyncWith)):
                for it in anc.items:
                    e = self.P.external_name(fi, it.context_expr.func) if isinstance(it.context_expr, ast.Call) else None
                    if e and e.endswith("fork_rng"):
                        # a reseed from the configured seed must precede the draw inside the block
                        for st in anc.body:
                            for sub in walk_local(st):
                                if sub is node:
                                    return None
                                if isinstance(sub, ast.Call):
                                    e2 = self.P.external_name(fi, sub.func)
                                    if e2 in RESEEDS and sub.args and is_seed_expr(sub.args[0]):
                                        return f"inside {e}() after {e2}({norm(sub.args[0])})"
                        return None
            if isinstance(anc, (ast.FunctionDef, ast.AsyncFunctionDef, ast.Lambda)):
                break
        return None

    def in_fork(self, fi: FunctionInfo, node: ast.AST) -> bool:
        for anc in ancestors(fi, node):
            if isinstance(anc, (ast.With, ast.AsyncWith)):
                for it in anc.items:
                    e = self.P.external_name(fi, it.context_expr.func) if isinstance(it.context_expr, ast.Call) else None
                    if e and e.endswith("fork_rng"):
                        return True
        return False

    def rule_rng1_rng4(self):
        ctx = self.ctx
        for fi in self.fns:
            for cs in self.G.sites(fi):
                amb = ambient_draw(cs.external, cs.node)
                if amb:
                    inst = f"{cs.external}(...)"
                    why = self.seed_guarded(fi, cs.node) or self.fork_scoped(fi, cs.node)
                    ctx.check(bool(why), "RNG-1", fi, cs.node, inst, why or "",
                              f"ambient draw from the process-global {amb} generator is reachable from a seeded entry "
                              f"point and is neither guarded by '<seed> is None' nor inside fork_rng()+manual_seed(seed)")
                if cs.external in RESEEDS:
                    ok = self.in_fork(fi, cs.node)
                    ctx.check(ok, "RNG-4", fi, cs.node, f"{cs.external}(...)",
                              "reseed is lexically inside fork_rng()",
                              "ambient reseed outside a fork_rng() region disturbs the process-global generator")
            # ambient module bound as the working generator
            cfg = cfg_of(fi)
            for d in cfg.defs:
                if d.kind == "assign" and isinstance(d.value, (ast.Name, ast.Attribute)):
                    e = self.P.external_name(fi, d.value)
                    if e in ("random", "numpy.random"):
                        why = self.seed_guarded(fi, d.stmt)
                        ctx.check(bool(why), "RNG-1", fi, d.stmt, f"a local generator variable = <module {e}>", why or "",
                                  f"the process-global {e} module is bound as the working generator without a "
                                  f"'<seed> is None' guard")
            # default-ambient calls: callee draws from its `rng=random` default
            gens = self.gens_in_scope(fi)
            if not gens:
                for cs in self.G.sites(fi):
                    self._default_ambient_call(fi, cs)
        # out-of-scope information
        for fi in self.out_scope:
            for cs in self.G.sites(fi):
                amb = ambient_draw(cs.external, cs.node)
                if amb:
                    ctx.info("RNG-1", fi, cs.node, f"{cs.external}(...)",
                             "ambient draw in a multi-agent module outside the property's list (information only)")

    def _gen_param_of(self, callee: FunctionInfo) -> Optional[str]:
        for p in callee.param_names:
            if p in GEN_PARAM_NAMES:
                return p
        return None

    def _callees_in_scope(self, cs: CallSite) -> List[FunctionInfo]:
        ts = [t for t in cs.targets if in_scope(t)]
        # abstract declarations do not execute
        conc = [t for t in ts if not t.is_abstract]
        return conc or ts

    def _passed(self, cs: CallSite, callee: FunctionInfo, pname: str) -> Optional[ast.AST]:
        v = kwarg(cs.node, pname)
        if v is not None:
            return v
        if any(kw.arg is None for kw in cs.node.keywords):
            return ast.Name(id="**kwargs", ctx=ast.Load())
        if pname in callee.kwonly_params:
            return None
        pos = callee.positional_params
        if callee.is_method and not callee.is_static and cs.kind != "constructor" and cs.method is not None:
            pos = pos[1:]
        elif cs.kind == "constructor":
            pos = pos[1:]
        if pname in pos:
            i = pos.index(pname)
            if i < len(cs.node.args) and not any(isinstance(a, ast.Starred) for a in cs.node.args[: i + 1]):
                return cs.node.args[i]
            if any(isinstance(a, ast.Starred) for a in cs.node.args):
                return ast.Name(id="*args", ctx=ast.Load())
        return None

    def _default_ambient_call(self, fi: FunctionInfo, cs: CallSite):
        callees = self._callees_in_scope(cs)
        if not callees or cs.kind in ("external", "unresolved"):
            return
        ps = [self._gen_param_of(c) for c in callees]
        if not all(ps):
            return
        if any(self._passed(cs, c, p) is not None for c, p in zip(callees, ps)):
            return
        # does every concrete callee fall back to the ambient module?
        amb = []
        for c, p in zip(callees, ps):
            d = c.param_default(p)
            e = self.P.external_name(c, d) if d is not None else None
            amb.append(e in ("random", "numpy.random"))
        inst = f"{name_free(fi, cs.node.func)}(...) without a generator"
        if all(amb):
            why = self.seed_guarded(fi, cs.node)
            self.ctx.check(bool(why), "RNG-1", fi, cs.node, inst, why or "",
                           "call falls back to the callee's `rng=random` default (ambient draw) and is reachable from a "
                           "seeded entry point")
        else:
            self.ctx.unknown("RNG-1", fi, cs.node, inst,
                             "no generator passed; some implementations default to the ambient module, some to a private one")

    # ------------------------------------------------------------------ RNG-2
    def rule_rng2(self):
        ctx = self.ctx
        for fi in self.fns:
            gens = self.gens_in_scope(fi)
            seed_here = self._seed_in_scope(fi)
            for cs in self.G.sites(fi):
                if cs.kind in ("external", "unresolved"):
                    continue
                callees = self._callees_in_scope(cs)
                if not callees:
                    continue
                if gens:
                    ps = [self._gen_param_of(c) for c in callees]
                    n_acc = sum(1 for p in ps if p)
                    if n_acc:
                        passed = [self._passed(cs, c, p) for c, p in zip(callees, ps) if p]
                        inst = f"{name_free(fi, cs.node.func)}(...)"
                        if n_acc == len(callees):
                            if all(v is None for v in passed):
                                ctx.violation("RNG-2", fi, cs.node, inst + " generator not forwarded",
                                              f"generator {gens} is in scope but is not passed to a call all of whose "
                                              f"{len(callees)} implementation(s) accept one; the draw falls back to the "
                                              f"callee's default")
                            else:
                                v = next(x for x in passed if x is not None)
                                g = self.is_gen_arg(fi, v, gens)
                                if g is False:
                                    ctx.violation("RNG-2", fi, cs.node, inst + " passes the ambient module",
                                                  f"`{norm(v)}` is the process-global module although {gens} is in scope")
                                elif g is True:
                                    ctx.passed("RNG-2", fi, cs.node, inst, f"passes `{norm(v)}`")
                                else:
                                    ctx.unknown("RNG-2", fi, cs.node, inst, f"passes `{norm(v)}` (not recognised as a generator)")
                        else:
                            if any(v is not None for v in passed):
                                ctx.passed("RNG-2", fi, cs.node, inst, "passes a generator (mixed implementations)")
                            else:
                                ctx.unknown("RNG-2", fi, cs.node, inst,
                                            f"only {n_acc} of {len(callees)} implementations accept a generator")
                # seed-accepting constructors called where a seed is in scope
                if seed_here and cs.kind == "constructor":
                    for c in callees:
                        sp = next((p for p in c.param_names if p in SEED_NAMES), None)
                        if sp is None:
                            continue
                        v = self._passed(cs, c, sp)
                        inst = f"{name_free(fi, cs.node.func)}(...) seed"
                        if v is None:
                            ctx.violation("RNG-2", fi, cs.node, inst + " not forwarded",
                                          f"`{seed_here}` is in scope but the derived object is built without it")
                        elif is_seed_expr(v):
                            ctx.passed("RNG-2", fi, cs.node, inst, f"passes `{norm(v)}`")
                        else:
                            ctx.unknown("RNG-2", fi, cs.node, inst, f"passes `{norm(v)}`")

    def _seed_in_scope(self, fi: FunctionInfo) -> Optional[str]:
        for p in fi.param_names:
            if p in SEED_NAMES:
                return p
        cls = fi.cls or (fi.parent.cls if fi.parent is not None else None)
        if cls is not None:
            init_owner, init = cls.lookup("__init__")
            if isinstance(init, FunctionInfo):
                for sub in ast.walk(init.node):
                    if isinstance(sub, ast.Attribute) and sub.attr in SEED_NAMES and isinstance(sub.ctx, ast.Store):
                        return f"self.{sub.attr}"
            if any(a in SEED_NAMES for a in cls.annotations):
                return "self." + next(a for a in cls.annotations if a in SEED_NAMES)
        return None

    # ------------------------------------------------------------------ RNG-3
    def rule_rng3(self):
        ctx = self.ctx
        for fi in self.fns:
            pm = parents(fi)
            for node in fn_body_nodes(fi):
                if not (isinstance(node, (ast.Name, ast.Attribute)) and isinstance(getattr(node, "ctx", None), ast.Load)):
                    continue
                if not is_seed_expr(node):
                    continue
                par = pm.get(id(node))
                boolctx = False
                if isinstance(par, ast.BoolOp):
                    boolctx = True
                elif isinstance(par, ast.UnaryOp) and isinstance(par.op, ast.Not):
                    boolctx = True
                elif isinstance(par, (ast.If, ast.While, ast.IfExp)) and par.test is node:
                    boolctx = True
                elif isinstance(par, ast.Call) and isinstance(par.func, ast.Name) and par.func.id == "bool":
                    boolctx = True
                inst = f"use of seed `{name_free(fi, node)}` in `{name_free(fi, par) if par is not None else chr(63)}`"
                ctx.check(not boolctx, "RNG-3", fi, node, inst, "not a truthiness test",
                          "a seed is tested by truthiness: seed=0 is treated as 'no seed'")

    # ------------------------------------------------------------------ RNG-5
    def rule_rng5(self):
        ctx = self.ctx
        for fi in self.fns:
            for cs in self.G.sites(fi):
                if cs.external in PRIVATE_CTORS or cs.external in RESEEDS:
                    if not cs.node.args and not cs.node.keywords:
                        ctx.unknown("RNG-5", fi, cs.node, f"{cs.external}()", "generator created without a seed argument")
                        continue
                    arg = cs.node.args[0] if cs.node.args else cs.node.keywords[0].value
                    try:
                        t = deep_inline(self.X, self.X.expr(fi, arg), 3)
                    except RecursionError:
                        ctx.unknown("RNG-5", fi, cs.node, f"{cs.external}({name_free(fi, arg)})", "expression too deep")
                        continue
                    bad = [x for x in walk(t) if x.op == "call" and x.args[0].op == "builtin" and x.args[0].args[0] in ("hash", "id")]
                    bad += [x for x in walk(t) if x.op == "attr" and x.args[1] == "__hash__"]
                    inst = f"{cs.external}({name_free(fi, arg)})"
                    if bad:
                        where = bad[0].loc()
                        ctx.violation("RNG-5", fi, cs.node, inst,
                                      f"the seed's definition contains {show(bad[0], 60)} at {where}: builtin hash()/id() of "
                                      f"str-bearing objects differs between processes (PYTHONHASHSEED)")
                    else:
                        ctx.passed("RNG-5", fi, cs.node, inst, "seed expression is free of hash()/id()")


def rule_rng7(r: "RNG"):
    """RNG-7: the private generator of a planner/learner is created per run (reachable from plan_on / train_on),
    not once per object: otherwise a second run on the same object continues the stream and differs from a fresh one."""
    ctx, P, G = r.ctx, r.P, r.G
    done = set()
    for cname, m in ENTRIES:
        if m not in ("plan_on", "train_on"):
            continue
        ci = P.cls(cname)
        if ci in done:
            continue
        done.add(ci)
        entry = P.method(cname, m)
        reach = G.reachable([entry])
        ctor_sites = []
        for c in ci.mro:
            if not isinstance(c, ClassInfo):
                continue
            for f in c.methods.values():
                for cs in G.sites(f):
                    if cs.external in PRIVATE_CTORS or cs.external in RESEEDS:
                        ctor_sites.append((f, cs))
        if not ctor_sites:
            ctx.unknown("RNG-7", entry, entry.node, f"{cname}: generator created per run", "no private generator construction found in the class")
            continue
        for f, cs in ctor_sites:
            inst = f"{cname}: {cs.external}(...) created per {m} run"
            ctx.check(f in reach, "RNG-7", f, cs.node, inst, f"constructed in {f.name}, reachable from {m}",
                      f"the generator is constructed in {f.name}, which {m} does not reach: it is created once per object, so a second "
                      f"{m} on the same object continues the random stream and differs from a fresh, equally seeded run")


def rule_rng8(r):
    """RNG-8 (written after seed C13-e): an in-place shuffle is applied to an object this function created (a fresh list / copy), never to an object
    that may belong to the caller (a parameter, or a conditional alias of one): shuffling the caller's list changes the order the next run starts from."""
    ctx = r.ctx
    n = 0
    for fi in r.fns:
        if fi.is_lambda:
            continue
        params = set(fi.param_names)
        for c in fn_body_nodes(fi):
            if not (isinstance(c, ast.Call) and isinstance(c.func, ast.Attribute) and c.func.attr == "shuffle" and c.args and isinstance(c.args[0], ast.Name)):
                continue
            arg = c.args[0].id
            cfg = cfg_of(fi)
            try:
                ds = cfg.reaching(cfg.node_for(c), arg)
            except Exception:
                ds = []
            n += 1

            def may_be_param(v):
                if isinstance(v, ast.Name):
                    return v.id in params
                if isinstance(v, ast.IfExp):
                    return may_be_param(v.body) or may_be_param(v.orelse)
                if isinstance(v, ast.BoolOp):
                    return any(may_be_param(x) for x in v.values)
                return False
            alias = [d for d in ds if d.kind == "param" or (d.kind == "assign" and d.value is not None and may_be_param(d.value))]
            ctx.check(not alias if ds else None, "RNG-8", fi, c, "in-place shuffle is applied to an object created in this function", "",
                      f"`{norm(c, 50)}` can shuffle the caller's own object (the shuffled name may be a parameter): the caller's sequence — e.g. the action list an MDP "
                      "returns — is permuted for every later run")
    return n


def run(ctx: Ctx):
    r = RNG(ctx)
    ctx.extra["entry_points"] = [f.qualname for f in r.entries]
    ctx.extra["functions_analysed"] = len(r.fns)
    ctx.extra["functions_reachable_out_of_scope"] = len(r.out_scope)
    ctx.extra["call_resolution"] = r.G.stats(r.fns)
    r.rule_rng1_rng4()
    r.rule_rng2()
    r.rule_rng3()
    r.rule_rng5()
    rule_rng7(r)
    ctx.require("RNG-7", 8)
    rule_rng8(r)
    ctx.require("RNG-8", 2)
    setorder.rule_rng6(ctx, r.G, r.fns, "RNG-6")
    ctx.require("RNG-1", 7)
    ctx.require("RNG-2", 25)
    ctx.require("RNG-3", 10)
    ctx.require("RNG-4", 1)
    ctx.require("RNG-5", 6)
    ctx.require("RNG-6", 8)
    ctx.assume("numpy / torch / scipy kernels and user-supplied callables are deterministic given their inputs")
    ctx.assume("random.Random(x), numpy.random.default_rng(x) are private generators fully determined by x")

"""C19 — entropy-regularised policy iteration.  BEL-2 (evaluation system, look-ahead), ALG normal form of the softmax
improvement, convergence / result wiring, wrapper layout."""
from __future__ import annotations

import ast
from fractions import Fraction
from typing import Dict, List, Optional

from .. import alg
from ..bellman import check_einsums_in_function, monomials, classify_monomial, is_discount
from ..callgraph import CallGraph
from ..cfg import cfg_of
from ..dag import T, walk, show
from ..model import FunctionInfo, AnalysisError
from ..report import Ctx
from ..tensor import Typer
from ..util import norm, fn_body_nodes, kwarg
from .common import names_in, calls_named

EXPLANATION = (
    "Structural necessary conditions of C19 on entropy_regularized_policy_iteration and its planner wrapper: evaluation solves "
    "(I - gamma*P_pi) v = r_pi - w*KL(pi||pi0) with P_pi = sum_a pi*T; the look-ahead is q = sum_s' T*(R + gamma*v); the "
    "improvement is softmax over actions of q/w + log pi0 (sum-of-products normal form: the log-prior is NOT divided by the "
    "entropy weight); `converged` is set only on the isclose(pi, new_pi).all() path and the returned policy / action values / "
    "state values are those of that iteration; the wrapper feeds the MDP's matrices and lays the outputs over state_list x "
    "action_list. The log-sum-exp identity at the fixed point and the w -> 0 limit are mathematical consequences, recorded as "
    "assumptions.")
RULES = ("EVAL-1 system matrix eye - gamma*P_pi, right-hand side r_pi - w*KL; LOOK-1 q = sum T*(R + gamma v); IMP-1 softmax_A(q/w + log pi0); "
         "CONV-1 convergence flag and returned iterate; WRAP-1 wrapper inputs and output layout; TEN-1 einsum kinds")


def run(ctx: Ctx):
    P, X = ctx.P, ctx.X
    f = P.fn("entropy_regularized_policy_iteration")
    typer = Typer(param_arrays={"transition_matrix": "transition_matrix", "reward_matrix": "reward_matrix"},
                  param_roles={"policy_prior": ("S", "A"), "initial_policy": ("S", "A")})
    loops = [n for n in fn_body_nodes(f) if isinstance(n, ast.For)]
    if not loops:
        raise AnalysisError("entropy_regularized_policy_iteration: main loop vanished")
    lp = loops[0]
    defs: Dict[str, ast.Assign] = {}
    for n in ast.walk(lp):
        if isinstance(n, ast.Assign):
            for t in n.targets:
                if isinstance(t, ast.Name):
                    defs.setdefault(t.id, n)
    aliases = {"tf": "transition_matrix", "rf": "reward_matrix"}
    for n in fn_body_nodes(f):
        if isinstance(n, ast.Assign) and isinstance(n.targets[0], ast.Name) and isinstance(n.value, ast.Name) and n.value.id in ("transition_matrix", "reward_matrix"):
            aliases[n.targets[0].id] = n.value.id
    tf = next((k for k, v in aliases.items() if v == "transition_matrix"), "tf")
    rf = next((k for k, v in aliases.items() if v == "reward_matrix"), "rf")
    check_einsums_in_function(ctx, f, typer)
    # ---- evaluation
    v = defs.get("v")
    if v is None or not (isinstance(v.value, ast.Call) and ast.unparse(v.value.func).endswith("linalg.solve")):
        ctx.violation("EVAL-1", f, lp, "policy evaluation by a linear solve", "state values are not obtained from a linear solve")
    else:
        A, b = v.value.args
        pA = alg.normalise(A)
        mpn = None
        ok = False
        for m, c in pA.items():
            atoms = dict(m)
            if "discount_rate" in atoms and c == -1 and len(atoms) == 2:
                mpn = next(k for k in atoms if k != "discount_rate")
                ok = True
        has_eye = any(len(m) == 1 and m[0][0] == "eye" and c == 1 for m, c in pA.items())
        ctx.check(ok and has_eye and len(pA) == 2, "EVAL-1", f, v, "system matrix = eye - gamma * P_pi", alg.show(pA), f"system matrix normalises to `{alg.show(pA)}`")
        if mpn and mpn in defs:
            src = ast.unparse(defs[mpn].value).replace(" ", "")
            ok = src in (f"(pi[:,:,None]*{tf}[:,:,:]).sum(dim=1)", f"(pi[:,:,None]*{tf}).sum(dim=1)", f"torch.einsum('sa,san->sn',pi,{tf})")
            ctx.check(ok, "EVAL-1", f, defs[mpn], "P_pi = sum over actions of pi(a|s) T(s'|s,a)", src, f"policy chain is `{src}`: it must weight T by the current policy and sum the *action* axis")
        pb = alg.normalise(b, resolve=lambda nme: defs[nme].value if nme in ("s_rf_ent",) and nme in defs else None)
        want = {(("s_rf", 1),): Fraction(1), tuple(sorted((("entropy_weight", 1), ("s_ent", 1)))): Fraction(-1)}
        ctx.check(pb == want, "EVAL-1", f, v, "right-hand side = r_pi - w * KL(pi||pi0)", alg.show(pb), f"right-hand side normalises to `{alg.show(pb)}`")
        se = defs.get("s_ent")
        ok = se is not None and ast.unparse(se.value).replace(" ", "") == "torch.nansum(torch.log(pi/pi0)*pi,dim=1)"
        ctx.check(ok, "EVAL-1", f, se if se is not None else lp, "KL term = sum_a pi log(pi/pi0)", "", f"entropy term is `{ast.unparse(se.value) if se is not None else None}`")
        sr = defs.get("s_rf")
        ok = sr is not None and isinstance(sr.value, ast.Call) and sr.value.args and getattr(sr.value.args[0], "value", "").replace(" ", "") == "san,san,sa->s" \
            and sorted(ast.unparse(a) for a in sr.value.args[1:3]) == sorted([rf, tf]) and ast.unparse(sr.value.args[3]) == "pi"
        ctx.check(ok, "EVAL-1", f, sr if sr is not None else lp, "r_pi = sum_{a,s'} pi T R", "", "policy reward is not the expectation of R under T and the current policy")
    # ---- look-ahead
    q = defs.get("q")
    if q is not None:
        t = X.expr(f, q.value)
        ms = monomials(t)
        cl = [classify_monomial(typer, m) for m in ms]
        rew = [c for c in cl if c["R"] and c["T"]]
        fut = [c for c in cl if c["T"] and not c["R"]]
        ctx.check(len(rew) == 1 and rew[0]["disc"] == 0, "LOOK-1", f, q, "look-ahead reward term T*R undiscounted", str(rew), "reward term of the look-ahead is missing or discounted")
        ctx.check(len(fut) == 1 and fut[0]["disc"] == 1 and fut[0]["other"] >= 1, "LOOK-1", f, q, "look-ahead future term T*gamma*v discounted once", str(fut), "future term of the look-ahead is missing or not discounted exactly once")
        ok = ast.unparse(q.value).replace(" ", "").endswith(".sum(dim=-1)")
        ctx.check(ok, "LOOK-1", f, q, "look-ahead sums the successor axis", "", "look-ahead does not sum over the successor axis")
        ctx.check("v[None,None,:]" in ast.unparse(q.value).replace(" ", ""), "LOOK-1", f, q, "state values are aligned with the successor axis", "", "state values are broadcast along the wrong axis")
    else:
        ctx.violation("LOOK-1", f, lp, "action values computed", "q is not computed")
    # ---- improvement
    npi = defs.get("new_pi")
    if npi is not None and isinstance(npi.value, ast.Call) and ast.unparse(npi.value.func).endswith("softmax"):
        arg = npi.value.args[0]
        ax = npi.value.args[1] if len(npi.value.args) > 1 else kwarg(npi.value, "dim")
        ctx.check(ax is not None and ast.unparse(ax) == "-1", "IMP-1", f, npi, "softmax over the action axis", "", "softmax is not over the last (action) axis")

        def resolve(nme):
            if nme in ("q_action", "q_scale") and nme in defs:
                return defs[nme].value
            return None
        p = alg.normalise(arg, resolve)
        # expected:  (1/w)*q + log(pi0)
        logp = [m for m in p if any(k.startswith("torch.log(") for k, _ in m)]
        qterm = [m for m in p if any(k == "q" for k, _ in m)]
        ok = len(p) == 2 and len(logp) == 1 and len(qterm) == 1
        if ok:
            lm = dict(logp[0])
            ok_log = len(lm) == 1 and p[logp[0]] == 1 and list(lm)[0].replace(" ", "") == "torch.log(pi0)"
            qm = dict(qterm[0])
            ok_q = p[qterm[0]] == 1 and qm.get("q") == 1 and len(qm) == 2 and any("entropy_weight" in k for k in qm)
            wpow = [e for k, e in qm.items() if "entropy_weight" in k]
            ok_q = ok_q and (wpow == [-1] or any(k.startswith("1/") or "1 / entropy_weight" in k for k in qm))
            ctx.check(ok_log, "IMP-1", f, npi, "log-prior enters the softmax with coefficient 1", alg.show(p),
                      f"softmax argument normalises to `{alg.show(p)}`: the log-prior must not be scaled by the entropy weight")
            ctx.check(ok_q, "IMP-1", f, npi, "action values enter the softmax divided by the entropy weight", alg.show(p),
                      f"softmax argument normalises to `{alg.show(p)}`: q must be divided by the entropy weight exactly once")
        else:
            known_atoms = all(any(s_ in k for s_ in ("q", "entropy_weight", "pi0")) for m in p for k, _ in m)
            if known_atoms:
                ctx.violation("IMP-1", f, npi, "improvement = softmax_A(q/w + log pi0)", f"softmax argument normalises to `{alg.show(p)}`")
            else:
                ctx.unknown("IMP-1", f, npi, "improvement = softmax_A(q/w + log pi0)", f"normal form {alg.show(p)}")
    else:
        ctx.violation("IMP-1", f, lp, "softmax improvement", "new policy is not a softmax")
    # ---- convergence flag and returned iterate
    cfg = cfg_of(f)
    conv = [n for n in ast.walk(lp) if isinstance(n, ast.Assign) and ast.unparse(n.targets[0]) == "converged"]
    if conv:
        node = cfg.node_for(conv[0])
        gs = [cfg.nodes[b].ast.test for b, lab in cfg.guards(node) if cfg.nodes[b].kind == "if" and lab.startswith("T")]
        src = " ".join(ast.unparse(g) for g in gs).replace(" ", "")
        ok = "torch.all(torch.isclose(pi,new_pi))" in src or "torch.isclose(pi,new_pi).all()" in src
        ctx.check(ok, "CONV-1", f, conv[0], "converged = True only under isclose(pi, new_pi).all()", src, f"converged is set under `{src}`")
        ctx.check(ast.unparse(conv[0].value) == "True", "CONV-1", f, conv[0], "flag value is True", "", "flag value is not True")
        pre = [n for n in fn_body_nodes(f) if isinstance(n, ast.Assign) and ast.unparse(n.targets[0]) == "converged" and not any(n is x for x in ast.walk(lp))]
        ctx.check(bool(pre) and ast.unparse(pre[0].value) == "False", "CONV-1", f, pre[0] if pre else f.node, "converged starts as False", "", "converged is not initialised to False")
        brk = [b for b in ast.walk(lp) if isinstance(b, ast.Break)]
        ctx.check(bool(brk), "CONV-1", f, lp, "iteration stops at convergence", "", "the loop does not stop when the policy is stable")
    else:
        ctx.violation("CONV-1", f, lp, "converged flag", "converged is never set inside the loop")
    rets = [n for n in fn_body_nodes(f) if isinstance(n, ast.Return) and isinstance(n.value, ast.Call)]
    if rets:
        kw = {k.arg: ast.unparse(k.value) for k in rets[0].value.keywords}
        for fld, var in (("policy", "pi"), ("action_values", "q"), ("state_values", "v"), ("converged", "converged")):
            ctx.check(kw.get(fld) == var, "CONV-1", f, rets[0], f"returned {fld} is `{var}` of the last iteration", "", f"returned `{fld}` is `{kw.get(fld)}`")
    upd = [n for n in lp.body if isinstance(n, ast.Assign) and ast.unparse(n.targets[0]) == "pi"]
    ok = bool(upd) and "new_pi" in ast.unparse(upd[0].value)
    ctx.check(ok, "CONV-1", f, upd[0] if upd else lp, "policy advances to the improved policy", "", "policy is not advanced to new_pi")
    # ---- wrapper
    w = P.method("EntropyRegularizedPolicyIteration", "plan_on")
    src = ast.unparse(w.node)
    for var, arr in (("tf", "transition_matrix"), ("rf", "reward_matrix"), ("am", "action_matrix")):
        ctx.check(f"{var} = torch.from_numpy(mdp.{arr}.copy())" in src, "WRAP-1", w, w.node, f"wrapper: {var} is the MDP's {arr}", "", f"`{var}` is not built from mdp.{arr}")
    call = calls_named(w, "entropy_regularized_policy_iteration")
    if call:
        kw = {k.arg: ast.unparse(k.value) for k in call[0].keywords}
        want = {"transition_matrix": "tf", "reward_matrix": "rf", "discount_rate": "mdp.discount_rate", "entropy_weight": "self.entropy_weight", "policy_prior": "policy_prior"}
        for k, vv in want.items():
            ctx.check(kw.get(k) == vv, "WRAP-1", w, call[0], f"wrapper passes {k}={vv}", "", f"solver's `{k}` is `{kw.get(k)}`")
    ctx.check("policy_prior = am / am.sum(-1, keepdims=True)" in src, "WRAP-1", w, w.node, "default prior = uniform over available actions", "", "default prior changed")
    ctx.check("TabularPolicy.from_state_action_lists(mdp.state_list, mdp.action_list, pi_res.policy.detach().numpy())" in src, "WRAP-1", w, w.node,
              "policy table laid out over (state_list, action_list)", "", "policy table layout changed")
    ok = "for si, s in enumerate(mdp.state_list)" in src and "for ai, a in enumerate(mdp.action_list)" in src and "qf[s][a] = res._qvaluemat[si, ai]" in src
    ctx.check(ok, "WRAP-1", w, w.node, "action values labelled [state_list[i]][action_list[j]] = q[i, j]", "", "action-value labelling changed")
    ok = "for s, vi in zip(mdp.state_list, res._valuevec)" in src and "res._valuevec = pi_res.state_values.detach().numpy()" in src and "res._qvaluemat = pi_res.action_values.detach().numpy()" in src
    ctx.check(ok, "WRAP-1", w, w.node, "state values labelled by state_list in order; arrays taken from the same-named solver outputs", "", "value labelling / source changed")
    ctx.check("res.converged = pi_res.converged" in src, "WRAP-1", w, w.node, "wrapper reports the solver's converged flag", "", "converged flag is not the solver's")
    for rr, k in (("EVAL-1", 5), ("LOOK-1", 4), ("IMP-1", 3), ("CONV-1", 8), ("WRAP-1", 12), ("TEN-1", 1)):
        ctx.require(rr, k)
    ctx.assume("at a fixed point of the checked evaluate/improve pair the state values equal w*logsumexp_A(q/w + log pi0) (Geist et al. 2019)")
    ctx.assume("as w -> 0 with a uniform prior the soft Bellman operator tends to the hard one")

"""C19 — entropy-regularised policy iteration.  BEL-2 (evaluation system, look-ahead), ALG normal form of the softmax
improvement, convergence / result wiring, wrapper layout.  All rules bind local names through structural patterns."""
from __future__ import annotations

import ast
from fractions import Fraction
from typing import Dict, List, Optional

from .. import alg, pat
from ..bellman import check_einsums_in_function, monomials, classify_monomial
from ..cfg import cfg_of
from ..model import FunctionInfo, AnalysisError
from ..report import Ctx
from ..tensor import Typer
from ..util import arg_texts, arg_nodes, norm, fn_body_nodes, kwarg, lexical_guards, atomic_facts
from .common import names_in, calls_named

EXPLANATION = (
    "Structural necessary conditions of C19 on entropy_regularized_policy_iteration and its planner wrapper: evaluation solves "
    "(I - gamma*P_pi) v = r_pi - w*KL(pi||pi0) with P_pi = sum_a pi*T; the look-ahead is q = sum_s' T*(R + gamma*v); the "
    "improvement is softmax over actions of q/w + log pi0 (sum-of-products normal form: the log-prior is NOT divided by the "
    "entropy weight); `converged` is set only on the isclose(pi, new_pi).all() path and the returned policy / action values / "
    "state values are those of that iteration; the wrapper feeds the MDP's matrices and lays the outputs over state_list x "
    "action_list. The log-sum-exp identity at the fixed point and the w -> 0 limit are mathematical consequences, recorded as "
    "assumptions.")
RULES = ("EVAL-1 system matrix eye - gamma*P_pi, right-hand side r_pi - w*KL; LOOK-1 q = sum T*(R + gamma v); IMP-1 softmax_A(q/w + log pi0); "
         "CONV-1 convergence flag and returned iterate; WRAP-1 wrapper inputs and output layout; TEN-1 einsum kinds")


def single_defs(stmts) -> Dict[str, ast.Assign]:
    """local name -> its assignment, for names assigned exactly once among stmts (chained targets count for each name)."""
    cnt: Dict[str, List[ast.Assign]] = {}
    for n in stmts:
        if isinstance(n, ast.Assign):
            for t in n.targets:
                if isinstance(t, ast.Name):
                    cnt.setdefault(t.id, []).append(n)
    return {k: v[0] for k, v in cnt.items() if len(v) == 1}


def run(ctx: Ctx):
    P, X = ctx.P, ctx.X
    f = P.fn("entropy_regularized_policy_iteration")
    typer = Typer(param_arrays={"transition_matrix": "transition_matrix", "reward_matrix": "reward_matrix"},
                  param_roles={"policy_prior": ("S", "A"), "initial_policy": ("S", "A")})
    loops = [n for n in fn_body_nodes(f) if isinstance(n, ast.For)]
    if not loops:
        raise AnalysisError("entropy_regularized_policy_iteration: main loop vanished")
    lp = loops[0]
    lstm = [n for n in ast.walk(lp) if isinstance(n, ast.stmt)]
    defs = single_defs(lstm)
    # aliases of the tensors
    alias = {"transition_matrix": "transition_matrix", "reward_matrix": "reward_matrix"}
    for n in fn_body_nodes(f):
        if isinstance(n, ast.Assign) and isinstance(n.targets[0], ast.Name) and isinstance(n.value, ast.Name) and n.value.id in ("transition_matrix", "reward_matrix"):
            alias[n.targets[0].id] = n.value.id
    def is_T(name): return alias.get(name) == "transition_matrix"
    def is_R(name): return alias.get(name) == "reward_matrix"
    check_einsums_in_function(ctx, f, typer)
    # ---- evaluation
    sv, e = pat.first(lp, "V_v = torch.linalg.solve(E_A, E_b)", nodes=lstm)
    env = dict(e or {})
    if sv is None:
        ctx.violation("EVAL-1", f, lp, "policy evaluation by a linear solve", "state values are not obtained from a linear solve inside the loop")
    else:
        A, b = e["A"], e["b"]
        pA = alg.normalise(A)
        ea = None
        if len(pA) == 2:
            one = [m_ for m_, c in pA.items() if len(m_) == 1 and m_[0][1] == 1 and c == 1 and m_[0][0].isidentifier()]
            two = [m_ for m_, c in pA.items() if len(m_) == 2 and c == -1 and dict(m_).get("discount_rate") == 1]
            if one and two:
                other = [k for k, e_ in two[0] if k != "discount_rate" and e_ == 1]
                if other:
                    ea = {"eye": one[0][0][0], "mp": other[0]}
        ctx.check(ea is not None, "EVAL-1", f, sv, "system matrix = eye - gamma * P_pi", alg.show(pA), f"system matrix normalises to `{alg.show(pA)}`")
        if ea is not None:
            env.update({"eye": ea["eye"]})
            eyed = [n for n, _ in pat.find(f.node, "V_eye = torch.eye(ANY)", env)]
            ctx.check(bool(eyed), "EVAL-1", f, sv, "the identity term is torch.eye(n_states)", "", "the first term of the system matrix is not the identity")
            # the chain: a named temporary or the expression in place
            if ea["mp"].isidentifier():
                mpd = defs.get(ea["mp"])
                mpv = mpd.value if mpd is not None else None
            else:
                mpv = next((x for x in ast.walk(A) if isinstance(x, ast.expr) and alg.text(x) == ea["mp"]), None)
                mpd = sv
            em = None
            if mpv is not None:
                for pt in ("(V_pi[:, :, None] * V_tf[:, :, :]).sum(dim=1)", "(V_pi[:, :, None] * V_tf).sum(dim=1)", "torch.einsum('sa,san->sn', V_pi, V_tf)"):
                    em = em or pat.m(pt, mpv, env, fn=f.node)
            ok = em is not None and is_T(em["tf"])
            ctx.check(ok, "EVAL-1", f, mpd if mpd is not None else sv, "P_pi = sum over actions of pi(a|s) T(s'|s,a)", "",
                      f"policy chain is `{norm(mpv) if mpv is not None else None}`: it must weight T by the current policy and sum the *action* axis")
            if em:
                env.update(em)
        # right-hand side
        chain0 = {k: d.value for k, d in defs.items() if isinstance(d.value, ast.BinOp)}
        pb = alg.normalise(b, lambda nme: chain0.get(nme))
        eb = None
        if len(pb) == 2:
            one = [m_ for m_, c in pb.items() if len(m_) == 1 and m_[0][1] == 1 and c == 1 and m_[0][0].isidentifier()]
            two = [m_ for m_, c in pb.items() if len(m_) == 2 and c == -1 and dict(m_).get("entropy_weight") == 1]
            if one and two:
                other = [k for k, e_ in two[0] if k != "entropy_weight" and e_ == 1 and k.isidentifier()]
                if other:
                    eb = {"srf": one[0][0][0], "sent": other[0]}
        ctx.check(eb is not None, "EVAL-1", f, sv, "right-hand side = r_pi - w * KL(pi||pi0)", alg.show(pb), f"right-hand side normalises to `{alg.show(pb)}`")
        if eb is not None:
            env.update(eb)
            sed = defs.get(eb["sent"])
            es = pat.m("V_sent = torch.nansum(torch.log(V_pi / V_pi0) * V_pi, dim=1)", sed, env) if sed is not None else None
            ctx.check(es is not None, "EVAL-1", f, sed if sed is not None else sv, "KL term = sum_a pi log(pi/pi0)", "", f"entropy term is `{norm(sed.value) if sed is not None else None}`")
            if es:
                env.update(es)
            srd = defs.get(eb["srf"])
            er = pat.m("V_srf = torch.einsum(E_spec, V_x, V_y, V_pi)", srd, env) if srd is not None else None
            ok = er is not None and isinstance(er["spec"], ast.Constant) and str(er["spec"].value).replace(" ", "") == "san,san,sa->s" \
                and sorted([alias.get(er["x"], "?"), alias.get(er["y"], "?")]) == ["reward_matrix", "transition_matrix"]
            ctx.check(ok, "EVAL-1", f, srd if srd is not None else sv, "r_pi = sum_{a,s'} pi T R", "", "policy reward is not the expectation of R under T and the current policy")
    # (written after seed C19-e) the prior that enters the KL term and the softmax is the given prior (clamped or not): it has no other writer
    pi0n = env.get("pi0")
    if pi0n:
        pdefs = [n for n in ast.walk(f.node) if isinstance(n, (ast.Assign, ast.AugAssign)) and any(isinstance(t_, ast.Name) and t_.id == pi0n for t_ in (n.targets if isinstance(n, ast.Assign) else [n.target]))]
        okd = [n for n in pdefs if isinstance(n, ast.Assign) and (pat.m("clamp_zero(policy_prior) if ANY else policy_prior", n.value) is not None
                                                                  or pat.m("clamp_zero(policy_prior)", n.value) is not None or pat.m("policy_prior", n.value) is not None)]
        ctx.check(bool(pdefs) and len(okd) == len(pdefs), "EVAL-1", f, [n for n in pdefs if n not in okd][0] if len(okd) != len(pdefs) else (pdefs[0] if pdefs else f.node),
                  "the prior used by evaluation and improvement is the given prior (optionally clamped away from zero)", "",
                  "the prior is rewritten before it is used (e.g. renormalised): the KL term and the softmax no longer refer to the prior that was passed in")
    # ---- improvement (found first: it identifies the action-value variable)
    npi, en = pat.first(lp, "V_newpi = torch.softmax(E_arg, E_ax)", env, nodes=lstm)
    qname = None
    if npi is None:
        ctx.violation("IMP-1", f, lp, "softmax improvement", "the improved policy is not a softmax")
    else:
        env.update({k: v for k, v in en.items() if k in ("newpi",)})
        ctx.check(pat.txt(en["ax"]) in ("-1", "1"), "IMP-1", f, npi, "softmax over the action axis", "", f"softmax is over axis {pat.txt(en['ax'])}, not the action axis")
        chain = {k: d.value for k, d in defs.items() if isinstance(d.value, (ast.BinOp, ast.Name))}

        def resolve(nme):
            return chain.get(nme)
        p = alg.normalise(en["arg"], resolve)
        logp = [m_ for m_ in p if any(k.replace(" ", "").startswith("torch.log(") for k, _ in m_)]
        others = [m_ for m_ in p if m_ not in logp]
        ok_shape = len(p) == 2 and len(logp) == 1 and len(others) == 1
        if ok_shape:
            lm = dict(logp[0])
            pi0n = env.get("pi0")
            ok_log = len(lm) == 1 and p[logp[0]] == 1 and (pi0n is None or list(lm)[0].replace(" ", "") == f"torch.log({pi0n})")
            qm = dict(others[0])
            wk = [k for k in qm if "entropy_weight" in k]
            qk = [k for k in qm if k not in wk]
            ok_q = p[others[0]] == 1 and len(qk) == 1 and qm[qk[0]] == 1 and len(wk) == 1 and (qm[wk[0]] == -1 or wk[0].replace(" ", "").startswith("1/"))
            if ok_q:
                qname = qk[0]
            ctx.check(ok_log, "IMP-1", f, npi, "log-prior enters the softmax with coefficient 1", alg.show(p),
                      f"softmax argument normalises to `{alg.show(p)}`: the log-prior must not be scaled by the entropy weight")
            ctx.check(ok_q, "IMP-1", f, npi, "action values enter the softmax divided by the entropy weight", alg.show(p),
                      f"softmax argument normalises to `{alg.show(p)}`: q must be divided by the entropy weight exactly once")
        else:
            simple = all(any(s_ in k for s_ in ("entropy_weight", "torch.log")) or k.isidentifier() for m_ in p for k, _ in m_)
            if simple:
                ctx.violation("IMP-1", f, npi, "improvement = softmax_A(q/w + log pi0)", f"softmax argument normalises to `{alg.show(p)}`")
            else:
                ctx.unknown("IMP-1", f, npi, "improvement = softmax_A(q/w + log pi0)", f"normal form {alg.show(p)}")
    # ---- look-ahead
    qd = defs.get(qname) if qname else None
    if qd is None:
        # fall back: the assignment whose value multiplies T with (R + gamma v)
        for k, d in defs.items():
            src = ast.unparse(d.value)
            if any(is_T(nm) for nm in names_in(d.value)) and any(is_R(nm) for nm in names_in(d.value)) and "discount_rate" in src and ".sum(" in src and "einsum" not in src:
                qd, qname = d, k
    if qd is not None:
        t = X.expr(f, qd.value)
        ms = monomials(t)
        cl = [classify_monomial(typer, m_) for m_ in ms]
        rew = [c for c in cl if c["R"] and c["T"]]
        fut = [c for c in cl if c["T"] and not c["R"]]
        ctx.check(len(rew) == 1 and rew[0]["disc"] == 0 and rew[0]["other"] == 0, "LOOK-1", f, qd, "look-ahead reward term is exactly T*R (undiscounted, unscaled)", str(rew),
                  "reward term of the look-ahead is missing, discounted or carries another factor (e.g. the entropy weight)")
        ctx.check(len(fut) == 1 and fut[0]["disc"] == 1 and fut[0]["other"] == 1, "LOOK-1", f, qd, "look-ahead future term is exactly T*gamma*v", str(fut),
                  "future term of the look-ahead is missing, not discounted exactly once, or carries another factor")
        ok = ast.unparse(qd.value).replace(" ", "").endswith((".sum(axis=-1)", ".sum(axis=2)"))      # reductions are normalised to axis= (canon.py)
        ctx.check(ok, "LOOK-1", f, qd, "look-ahead sums the successor axis", "", "look-ahead does not sum over the successor axis")
        vname = env.get("v")
        ctx.check(vname is not None and f"{vname}[None,None,:]" in ast.unparse(qd.value).replace(" ", ""), "LOOK-1", f, qd, "state values are aligned with the successor axis", "", "state values are broadcast along the wrong axis")
    else:
        ctx.violation("LOOK-1", f, lp, "action values computed", "no look-ahead of the form sum T*(R + gamma v) feeds the improvement")
    # ---- convergence flag and returned iterate
    conv = [(n, e_) for n, e_ in pat.find(lp, "V_c = True", nodes=lstm)]
    cname = None
    if conv:
        cst, ce = conv[0]
        cname = ce["c"]
        facts = atomic_facts(lexical_guards(f, cst))
        want = {f"torch.all(torch.isclose({env.get('pi')}, {env.get('newpi')}))", f"torch.all(torch.isclose({env.get('newpi')}, {env.get('pi')}))",
                f"torch.isclose({env.get('pi')}, {env.get('newpi')}).all()"}
        ok = any(t in want and tr for t, tr in facts)
        ctx.check(ok, "CONV-1", f, cst, "converged = True only under isclose(pi, new_pi).all()", str(sorted(facts)), f"converged is set under {sorted(facts)}")
        pre = [n for n, _ in pat.find(f.node, f"{cname} = False") if not any(n is x for x in ast.walk(lp))]
        ctx.check(bool(pre), "CONV-1", f, pre[0] if pre else f.node, "converged starts as False", "", "converged is not initialised to False")
        ctx.check(any(isinstance(b, ast.Break) for b in ast.walk(lp)), "CONV-1", f, lp, "iteration stops at convergence", "", "the loop does not stop when the policy is stable")
        # (written after seed C19-c) the flag has no other writer: False before the loop, True under the stability test inside it
        others = [n for n in ast.walk(f.node) if isinstance(n, (ast.Assign, ast.AugAssign, ast.AnnAssign))
                  and any(isinstance(t_, ast.Name) and t_.id == cname for t_ in (n.targets if isinstance(n, ast.Assign) else [n.target]))
                  and n is not cst and not any(n is x for x in pre)]
        ctx.check(not others, "CONV-1", f, others[0] if others else cst, "the converged flag is written only at initialisation and under the stability test", "",
                  f"`{norm(others[0], 70) if others else ''}` also writes the converged flag: after the loop the policy has already been advanced to the improved one, "
                  "so a comparison made there is not the stability test of the last iteration")
    else:
        ctx.violation("CONV-1", f, lp, "converged flag", "no flag is set to True inside the loop")
    rets = [n for n in fn_body_nodes(f) if isinstance(n, ast.Return) and isinstance(n.value, ast.Call)]
    if rets:
        kw = arg_texts(rets[0].value)
        for fld, var in (("policy", env.get("pi")), ("action_values", qname), ("state_values", env.get("v")), ("converged", cname)):
            ctx.check(var is not None and kw.get(fld) == var, "CONV-1", f, rets[0], f"returned {fld} is the last iteration's own", f"{fld}={kw.get(fld)}",
                      f"returned `{fld}` is `{kw.get(fld)}`, not the variable `{var}` of the evaluation/improvement just checked")
    pin, newpin = env.get("pi"), env.get("newpi")
    # every assignment to the policy inside the loop (after the improvement; directly or in the arms of a conditional) reads the improved policy
    upd = [n for n in ast.walk(lp) if isinstance(n, ast.Assign) and isinstance(n.targets[0], ast.Name) and n.targets[0].id == pin]
    ok = bool(upd) and all(newpin in names_in(u.value) for u in upd)
    ctx.check(ok, "CONV-1", f, upd[0] if upd else lp, "policy advances to the improved policy", "", "policy is not advanced to the improved policy")
    # ---- wrapper
    w = P.method("EntropyRegularizedPolicyIteration", "plan_on")
    mp_ = w.positional_params[1]
    wenv: Dict[str, object] = {}
    for var, arr in (("tf", "transition_matrix"), ("rf", "reward_matrix"), ("am", "action_matrix")):
        n_, e_ = pat.first(w.node, f"V_{var} = torch.from_numpy({mp_}.{arr}.copy())")
        ctx.check(n_ is not None, "WRAP-1", w, n_ if n_ is not None else w.node, f"wrapper: a tensor is built from the MDP's {arr}", "", f"no tensor is built from {mp_}.{arr}")
        if e_:
            wenv.update(e_)
    call = calls_named(w, "entropy_regularized_policy_iteration")
    resn = None
    if call:
        kw = arg_texts(call[0])
        want = {"transition_matrix": wenv.get("tf"), "reward_matrix": wenv.get("rf"), "discount_rate": f"{mp_}.discount_rate", "entropy_weight": "self.entropy_weight"}
        for k, vv in want.items():
            ctx.check(vv is not None and kw.get(k) == vv, "WRAP-1", w, call[0], f"wrapper passes {k} from the MDP / configuration", f"{k}={kw.get(k)}", f"solver's `{k}` is `{kw.get(k)}`")
        pp = kw.get("policy_prior")
        prd = [n for n, _ in pat.find(w.node, f"{pp} = V_am / V_am.sum(-1, keepdims=True)", wenv)] if pp and pp.isidentifier() else []
        ctx.check(bool(prd), "WRAP-1", w, prd[0] if prd else call[0], "default prior = uniform over available actions", "", "default prior is not action_matrix normalised over actions")
        asg = [n for n in ast.walk(w.node) if isinstance(n, ast.Assign) and n.value is call[0] and isinstance(n.targets[0], ast.Name)]
        resn = asg[0].targets[0].id if asg else None
    if resn:
        pt, _ = pat.first(w.node, f"V_p = TabularPolicy.from_state_action_lists({mp_}.state_list, {mp_}.action_list, {resn}.policy.detach().numpy())")
        if pt is None:
            pt, _ = pat.first(w.node, f"V_p = TabularPolicy.from_state_action_lists(state_list={mp_}.state_list, action_list={mp_}.action_list, data={resn}.policy.detach().numpy())")
        ctx.check(pt is not None, "WRAP-1", w, pt if pt is not None else w.node, "policy table laid out over (state_list, action_list)", "", "policy table layout changed")
        qs, eqs = pat.first(w.node, "V_qf[V_s][V_a] = E_m[V_si, V_ai]")
        ok = False
        if qs is not None:
            l0 = {n.target.elts[0].id: (n.target.elts[1].id, ast.unparse(n.iter)) for n in ast.walk(w.node) if isinstance(n, ast.For) and isinstance(n.target, ast.Tuple)
                  and len(n.target.elts) == 2 and all(isinstance(x, ast.Name) for x in n.target.elts)}
            ok = l0.get(eqs["si"]) == (eqs["s"], f"enumerate({mp_}.state_list)") and l0.get(eqs["ai"]) == (eqs["a"], f"enumerate({mp_}.action_list)")
            msrc = pat.txt(eqs["m"])
            srcdef = [n for n in ast.walk(w.node) if isinstance(n, ast.Assign) and ast.unparse(n.targets[0]) == msrc]
            ok = ok and bool(srcdef) and ast.unparse(srcdef[0].value) == f"{resn}.action_values.detach().numpy()"
        ctx.check(ok, "WRAP-1", w, qs if qs is not None else w.node, "action values labelled [state_list[i]][action_list[j]] = q[i, j] of the solver's action_values", "", "action-value labelling / source changed")
        vz = [n for n in ast.walk(w.node) if isinstance(n, ast.For) and isinstance(n.iter, ast.Call) and ast.unparse(n.iter.func) == "zip"
              and len(n.iter.args) == 2 and ast.unparse(n.iter.args[0]) == f"{mp_}.state_list"]
        ok = False
        if vz:
            vsrc = ast.unparse(vz[0].iter.args[1])
            srcdef = [n for n in ast.walk(w.node) if isinstance(n, ast.Assign) and ast.unparse(n.targets[0]) == vsrc]
            ok = bool(srcdef) and ast.unparse(srcdef[0].value) == f"{resn}.state_values.detach().numpy()"
        ctx.check(ok, "WRAP-1", w, vz[0] if vz else w.node, "state values labelled by state_list in order, from the solver's state_values", "", "value labelling / source changed")
        cvs = [n for n in ast.walk(w.node) if isinstance(n, ast.Assign) and ast.unparse(n.value) == f"{resn}.converged" and ast.unparse(n.targets[0]).endswith(".converged")]
        ctx.check(bool(cvs), "WRAP-1", w, cvs[0] if cvs else w.node, "wrapper reports the solver's converged flag", "", "converged flag is not the solver's")
    else:
        ctx.unknown("WRAP-1", w, w.node, "wrapper result handling", "solver call not bound to a name")
    for rr, k in (("EVAL-1", 6), ("LOOK-1", 4), ("IMP-1", 3), ("CONV-1", 8), ("WRAP-1", 10), ("TEN-1", 1)):
        ctx.require(rr, k)
    ctx.assume("at a fixed point of the checked evaluate/improve pair the state values equal w*logsumexp_A(q/w + log pi0) (Geist et al. 2019)")
    ctx.assume("as w -> 0 with a uniform prior the soft Bellman operator tends to the hard one")

"""C10 — TD learners.  SIM-1..4/7 on the four training loops + ALG-1 normal form of the increment."""
from __future__ import annotations

import ast
from fractions import Fraction
from typing import Dict, List, Optional, Set, Tuple

from .. import alg
from ..callgraph import CallGraph
from ..cfg import cfg_of
from ..model import FunctionInfo, AnalysisError, dotted
from ..report import Ctx
from ..util import lexical_guards, atomic_facts, ordered_args, norm, fn_body_nodes, walk_local, kwarg
from .. import pat
from ..pat import Snips
from .common import arg_permutation_rule, names_in, calls_named
from . import simloop as SL

EXPLANATION = (
    "Simulation-loop protocol on the four TD training loops and a sum-of-products normal form of each Q increment "
    "(alpha*r + alpha*gamma*B - alpha*Q[s][a]) with the learner-specific bootstrap atom B checked structurally; single "
    "lazy initialiser returning 0 at absorbing states; double-Q mean; greedy policy; behaviour sampler/distribution "
    "agreement. The interval bound for alpha in [0,1] follows from the normal form (convex combination) and is recorded "
    "as an argument.")
RULES = ("SIM-1 absorbing guard; SIM-2 action from the Q-row of the current state; SIM-3 reward(s,a,ns); SIM-4 advance after "
         "update; SIM-7 single initialiser with 0 at absorbing states; ALG-1 increment normal form and bootstrap atom per learner; "
         "POL-1 greedy policy over exact maximisers with mdp.actions(s) fallback; BEH-1 behaviour sampler and distribution agree; "
         "WIRE-1 train_on wiring")

LEARNERS = ("QLearning", "SARSA", "ExpectedSARSA", "DoubleQLearning")


def depends_on(fi: FunctionInfo, at_stmt: ast.AST, value: ast.AST, target: str, depth: int = 3) -> bool:
    """does `value` (evaluated at at_stmt) depend on variable `target` through local definitions?"""
    cfg = cfg_of(fi)
    seen: Set[str] = set()
    work = [(value, at_stmt, 0)]
    while work:
        v, st, d = work.pop()
        for n in names_in(v):
            if n == target:
                return True
            if n in seen or d >= depth:
                continue
            seen.add(n)
            node = cfg.node_for(st)
            if node is None:
                continue
            for df in cfg.reaching(node, n):
                if df.value is not None and df.kind in ("assign", "aug"):
                    work.append((df.value, df.stmt, d + 1))
    return False


def q_updates(L: SL.SimLoop) -> List[ast.stmt]:
    out = []
    for st in L.body:
        for sub in walk_local(st):
            if isinstance(sub, (ast.AugAssign, ast.Assign)):
                t = sub.target if isinstance(sub, ast.AugAssign) else sub.targets[0]
                if isinstance(t, ast.Subscript) and isinstance(t.value, ast.Subscript) \
                        and ast.unparse(t.value.slice) == L.s and ast.unparse(t.slice) == L.a:
                    out.append(sub)
    return out


def local_resolver(L: SL.SimLoop, protect: Set[str]):
    """substitute names that have exactly one plain assignment inside the loop body."""
    defs: Dict[str, List[ast.AST]] = {}
    for st in L.body:
        for sub in walk_local(st):
            if isinstance(sub, ast.Assign) and len(sub.targets) == 1 and isinstance(sub.targets[0], ast.Name):
                defs.setdefault(sub.targets[0].id, []).append(sub.value)

    def resolve(name: str):
        if name in protect:
            return None
        ds = defs.get(name)
        if ds and len(ds) <= 2 and all(isinstance(d, ast.BinOp) for d in ds):
            return ds[0] if len(ds) == 1 else None
        return None
    return resolve, defs


def increment_poly(st: ast.stmt, resolve) -> Optional[alg.Poly]:
    if isinstance(st, ast.AugAssign):
        if isinstance(st.op, ast.Add):
            return alg.normalise(st.value, resolve)
        if isinstance(st.op, ast.Sub):
            return alg.mul({(): Fraction(-1)}, alg.normalise(st.value, resolve))
        return None
    return alg.add(alg.normalise(st.value, resolve), alg.normalise(st.targets[0], resolve), -1)


def check_increment(ctx: Ctx, L: SL.SimLoop, st: ast.stmt, rvar: str, resolve, learner: str) -> Optional[str]:
    """ALG-1 on one update statement; returns the bootstrap atom text."""
    fi = L.fi
    tgt = st.target if isinstance(st, ast.AugAssign) else st.targets[0]
    Q = alg.text(tgt)
    alpha = f"{fi.self_name or 'self'}.step_size"
    gamma = f"{L.model}.discount_rate"
    # branch-local definitions (double Q): prefer a definition in the same block as the update
    p = increment_poly(st, resolve)
    inst = f"{learner}: d{Q}"
    if p is None:
        ctx.unknown("ALG-1", fi, st, inst, "unrecognised update operator")
        return None
    nf = alg.show(p)
    mon = {m: c for m, c in p.items()}
    want_q = tuple(sorted(((alpha, 1), (Q, 1))))
    want_r = tuple(sorted(((alpha, 1), (rvar, 1))))
    atoms = alg.atoms(p)
    boot = [m for m in mon if m not in (want_q, want_r)]
    ok = mon.get(want_q) == -1 and mon.get(want_r) == 1 and len(boot) == 1 and mon[boot[0]] == 1
    B = None
    if ok:
        bm = dict(boot[0])
        ok = bm.get(alpha) == 1 and bm.get(gamma) == 1 and len(bm) == 3 and all(e == 1 for e in bm.values())
        if ok:
            B = next(k for k in bm if k not in (alpha, gamma))
    if ok:
        ctx.passed("ALG-1", fi, st, inst, f"normal form {nf}")
        return B
    known = {alpha, gamma, Q, rvar}
    extra = [a for a in atoms if a not in known]
    if len(extra) <= 1:
        ctx.violation("ALG-1", fi, st, inst,
                      f"the increment normalises to `{nf}`, not to {alpha}*{rvar} + {alpha}*{gamma}*B - {alpha}*{Q} "
                      f"(step size on every term, discount exactly once on the bootstrap term, none on the reward)")
    else:
        ctx.unknown("ALG-1", fi, st, inst, f"normal form {nf} has unrecognised atoms {extra}")
    return None


def bootstrap_rules(ctx: Ctx, L: SL.SimLoop, learner: str, st: ast.stmt, B: Optional[str], defs, rvar):
    fi = L.fi
    if B is None:
        return
    tgt = st.target if isinstance(st, ast.AugAssign) else st.targets[0]
    table = ast.unparse(tgt.value.value)
    inst = f"{learner}: bootstrap B = {B}"
    if learner == "QLearning":
        ok = B in (f"max({table}[{L.ns}].values())",)
        ctx.check(ok, "ALG-1", fi, st, inst, "max over the successor's Q-row of the same table",
                  f"Q-learning bootstraps from `{B}`, not from max_a {table}[{L.ns}][a]")
    elif learner == "SARSA":
        ok = B.startswith(f"{table}[{L.ns}][") and B.endswith("]")
        na = B[len(f"{table}[{L.ns}]["):-1] if ok else None
        ctx.check(ok, "ALG-1", fi, st, inst, "Q of the successor at the next action", f"SARSA bootstraps from `{B}`, not from {table}[{L.ns}][na]")
        if ok:
            nd = defs.get(na, [])
            ok2 = len(nd) == 1 and isinstance(nd[0], ast.Call) and "epsilon_softmax_sample" in ast.unparse(nd[0].func) \
                and ast.unparse(nd[0].args[0]) == f"{table}[{L.ns}]"
            ctx.check(ok2, "ALG-1", fi, st, f"SARSA: next action `{na}` drawn from {table}[{L.ns}] by the behaviour policy", "",
                      f"the next action `{na}` is not drawn by the behaviour policy at the successor state")
            # and it is the action carried into the next step
            carried = any(isinstance(s2, ast.Assign) and isinstance(s2.targets[0], ast.Tuple) and isinstance(s2.value, ast.Tuple)
                          and [getattr(e, "id", None) for e in s2.targets[0].elts] == [L.s, L.a]
                          and [getattr(e, "id", None) for e in s2.value.elts] == [L.ns, na] for s2 in L.body)
            ctx.check(carried, "ALG-1", fi, st, f"SARSA: `{na}` is the action taken next", "",
                      f"the bootstrapped next action `{na}` is not the action executed in the next step (on-policy consistency)")
            # drawn before the update
            idx_na = [i for i, s2 in enumerate(L.body) if isinstance(s2, ast.Assign) and isinstance(s2.targets[0], ast.Name) and s2.targets[0].id == na]
            ctx.check(bool(idx_na) and idx_na[0] < L.idx(st), "ALG-1", fi, st, "SARSA: next action drawn before the update", "",
                      "the next action is drawn after the update it is used in")
    elif learner == "ExpectedSARSA":
        ok = B.startswith("sum(") and f"{table}[{L.ns}][" in B
        ctx.check(ok, "ALG-1", fi, st, inst, "expectation over the successor's Q-row", f"Expected SARSA bootstraps from `{B}`")
        # the expectation weights come from the behaviour distribution built with the sampler's own parameters
        try:
            node = ast.parse(B, mode="eval").body
        except SyntaxError:
            node = None
        comp = node.args[0] if isinstance(node, ast.Call) and node.args else None
        if isinstance(comp, (ast.ListComp, ast.GeneratorExp)):
            it = comp.generators[0].iter
            tn = [getattr(e, "id", None) for e in comp.generators[0].target.elts] if isinstance(comp.generators[0].target, ast.Tuple) else []
            elt = alg.normalise(comp.elt)
            want = {tuple(sorted(((f"{table}[{L.ns}][{tn[0]}]", 1), (tn[1], 1)))): Fraction(1)} if len(tn) == 2 else None
            ctx.check(elt == want, "ALG-1", fi, st, "Expected SARSA: summand is Q[ns][na] * p(na)", "", f"summand is `{norm(comp.elt)}`")
            dist_name = it.func.value.id if isinstance(it, ast.Call) and isinstance(it.func, ast.Attribute) and isinstance(it.func.value, ast.Name) else None
            dd = defs.get(dist_name, [])
            samp = [c for c in ast.walk(L.loop) if isinstance(c, ast.Call) and "epsilon_softmax_sample" in ast.unparse(c.func)]
            ok2 = len(dd) == 1 and isinstance(dd[0], ast.Call) and "epsilon_softmax_dist" in ast.unparse(dd[0].func) \
                and ast.unparse(dd[0].args[0]) == f"{table}[{L.ns}]" and bool(samp) \
                and [ast.unparse(a) for a in dd[0].args[1:3]] == [ast.unparse(a) for a in samp[0].args[1:3]]
            ctx.check(ok2, "ALG-1", fi, st, "Expected SARSA: weights are the behaviour distribution at the successor", "",
                      "the expectation is not taken under the behaviour policy (same exploration parameters) at the successor state")
        else:
            ctx.unknown("ALG-1", fi, st, "Expected SARSA: summand", "expectation is not a comprehension")
    elif learner == "DoubleQLearning":
        # B = other[ns][argmax(this[ns], rng).pop()]
        import re
        m = re.match(r"^(\w+)\[(\w+)\]\[argmax\((\w+)\[(\w+)\], \w+\)\.pop\(\)\]$", B)
        ok = bool(m) and m.group(2) == L.ns and m.group(4) == L.ns and m.group(3) == table and m.group(1) != table
        ctx.check(ok if m else None, "ALG-1", fi, st, inst, "evaluates the other table at this table's argmax",
                  f"double Q-learning updating `{table}` bootstraps from `{B}`: the maximising action must come from `{table}` and its value from the other table")


def rule_loops(ctx: Ctx):
    P = ctx.P
    for learner in LEARNERS:
        fi = P.method(learner, "_training")
        loops = SL.find_loops(fi)
        if len(loops) != 1:
            raise AnalysisError(f"{learner}._training: simulation loop not found")
        L = loops[0]
        SL.sim1_absorbing_guard(ctx, L)
        # SIM-2 with transitive dependence
        cfg = cfg_of(fi)
        for d in cfg.reaching(cfg.node_for(L.sample_stmt), L.a):
            st = d.stmt
            inst = f"{learner}: action `{L.a}` defined by `{norm(st, 60)}`"
            if isinstance(st, ast.Assign) and isinstance(st.targets[0], ast.Tuple):
                tn = [getattr(e, "id", None) for e in st.targets[0].elts]
                vn = [getattr(e, "id", None) for e in st.value.elts] if isinstance(st.value, ast.Tuple) else []
                if L.s in tn and L.a in tn and len(vn) == len(tn):
                    s_src, a_src = vn[tn.index(L.s)], vn[tn.index(L.a)]
                    nd = cfg.reaching(cfg.node_for(st), a_src)
                    ok = bool(nd) and all(depends_on(fi, x.stmt, x.value, s_src) for x in nd if x.value is not None)
                    ctx.check(ok, "SIM-2", fi, st, inst, "", f"carried action `{a_src}` was not chosen at `{s_src}`")
                    continue
            ok = d.value is not None and depends_on(fi, st, d.value, L.s)
            ctx.check(ok, "SIM-2", fi, st, inst, "chosen at the current state", f"the action is not chosen at the current state `{L.s}`")
            if d.value is not None and isinstance(d.value, ast.Call):
                ok = "epsilon_softmax_sample" in ast.unparse(d.value.func)
                ctx.check(ok, "SIM-2", fi, st, f"{learner}: behaviour policy is epsilon_softmax_sample", "", f"action drawn by `{norm(d.value.func)}`")
        rvar = SL.sim3_reward_args(ctx, L)
        SL.sim4_advance(ctx, L, must_follow=("+=", "end_of_timestep"))
        ups = q_updates(L)
        if not ups:
            ctx.violation("ALG-1", fi, L.loop, f"{learner}: Q update", f"no update of Q[{L.s}][{L.a}] in the training loop")
            continue
        for st in ups:
            # resolve names with the definition that lives in the same block as the update
            block = None
            for n in ast.walk(L.loop):
                for fld in ("body", "orelse"):
                    b = getattr(n, fld, None)
                    if isinstance(b, list) and st in b:
                        block = b
            bdefs: Dict[str, List[ast.AST]] = {}
            for s2 in (block or []):
                if isinstance(s2, ast.Assign) and isinstance(s2.targets[0], ast.Name):
                    bdefs.setdefault(s2.targets[0].id, []).append(s2.value)
            resolve0, defs = local_resolver(L, {L.s, L.a, L.ns, rvar or "r"})

            def resolve(name, bdefs=bdefs, resolve0=resolve0):
                if name in bdefs and len(bdefs[name]) == 1 and isinstance(bdefs[name][0], ast.BinOp):
                    return bdefs[name][0]
                return resolve0(name)
            B = check_increment(ctx, L, st, rvar or "r", resolve, learner)
            bootstrap_rules(ctx, L, learner, st, B, defs, rvar)
        if learner == "DoubleQLearning":
            tables = {ast.unparse((u.target if isinstance(u, ast.AugAssign) else u.targets[0]).value.value) for u in ups}
            ctx.check(len(tables) == 2, "ALG-1", fi, ups[0], "double Q: both tables are updated (in different branches)", str(sorted(tables)),
                      f"only {sorted(tables)} is ever updated")
        # SIM-7: no second whole-row initialiser
        qtabs = {t.targets[0].id for t in fn_body_nodes(fi) if isinstance(t, ast.Assign) and isinstance(t.value, ast.Call)
                 and "_initial_q_table" in ast.unparse(t.value.func) and isinstance(t.targets[0], ast.Name)}
        ctx.check(bool(qtabs), "SIM-7", fi, fi.node, f"{learner}: Q table comes from the shared lazy initialiser", str(sorted(qtabs)),
                  "the Q table is not created by _initial_q_table()")
        for sub in fn_body_nodes(fi):
            if isinstance(sub, ast.Assign) and isinstance(sub.targets[0], ast.Subscript) and isinstance(sub.targets[0].value, ast.Name) \
                    and sub.targets[0].value.id in qtabs:
                ctx.violation("SIM-7", fi, sub, f"{learner}: second initialiser of {sub.targets[0].value.id}[...]",
                              f"`{norm(sub, 70)}` writes a whole Q row outside the lazy initialiser, bypassing the absorbing->0 rule")


def rule_initialiser(ctx: Ctx):
    P = ctx.P
    fi = P.method("TemporalDifferenceLearning", "_initial_q_table")
    wrapper = None
    for nf in fi.nested.values():
        cfg = cfg_of(nf)
        # returns 0 under is_absorbing(first param) before anything else
        first = nf.node.body[0] if nf.node.body else None
        if isinstance(first, ast.If) and isinstance(first.test, ast.Call) and isinstance(first.test.func, ast.Attribute) \
                and first.test.func.attr == "is_absorbing":
            wrapper = nf
            ps = nf.positional_params
            ok = [ast.unparse(a) for a in first.test.args] == ps[:1] and isinstance(first.body[0], ast.Return) \
                and isinstance(first.body[0].value, ast.Constant) and first.body[0].value.value == 0
            ctx.check(ok, "SIM-7", nf, first, "initial value is 0 at absorbing states", "", "the absorbing test of the initialiser is not on its state argument or does not return 0")
            rest = [r for r in ast.walk(nf.node) if isinstance(r, ast.Return) and r is not first.body[0]]
            ok = bool(rest) and isinstance(rest[0].value, ast.Call) and ast.unparse(rest[0].value.func) == f"{fi.self_name}.initial_q" \
                and [ast.unparse(a) for a in rest[0].value.args] == ps
            ctx.check(ok, "SIM-7", nf, rest[0] if rest else nf.node, "otherwise the configured initial_q(s, a)", "", "non-absorbing rows do not start from the configured initial value")
    if wrapper is None:
        ctx.violation("SIM-7", fi, fi.node, "absorbing-aware initial value wrapper", "no initialiser returns 0 at absorbing states")
        return
    # the row initialiser uses the wrapper, over mdp.actions(s)
    rows = [l for l in fi.lambdas if isinstance(l.node.body, ast.DictComp)]
    if not rows:
        ctx.unknown("SIM-7", fi, fi.node, "row initialiser", "dict-comprehension lambda not found")
    else:
        dc = rows[0].node.body
        p = rows[0].positional_params[0]
        ok = isinstance(dc.value, ast.Call) and isinstance(dc.value.func, ast.Name) and dc.value.func.id == wrapper.name \
            and [ast.unparse(a) for a in ordered_args(dc.value)] == [p, ast.unparse(dc.key)]
        ctx.check(ok, "SIM-7", rows[0], dc, f"row initialiser calls the absorbing-aware `{wrapper.name}`", "",
                  f"rows are initialised with `{norm(dc.value)}`, bypassing the absorbing->0 wrapper `{wrapper.name}`")
        it = dc.generators[0].iter
        ok = isinstance(it, ast.Call) and isinstance(it.func, ast.Attribute) and it.func.attr == "actions" and [ast.unparse(a) for a in it.args] == [p]
        ctx.check(ok, "SIM-7", rows[0], dc, "row keys are mdp.actions(s)", "", f"row keys come from `{norm(it)}`")
    dd = [c for c in fn_body_nodes(fi) if isinstance(c, ast.Call) and isinstance(c.func, ast.Name) and c.func.id == "defaultdict2"]
    ok = bool(dd) and kwarg(dd[0], "initialize_defaults") is not None and isinstance(kwarg(dd[0], "initialize_defaults"), ast.Constant) \
        and kwarg(dd[0], "initialize_defaults").value is True
    ctx.check(ok, "SIM-7", fi, dd[0] if dd else fi.node, "lazy table stores initialised rows (initialize_defaults=True)", "",
              "rows are not stored on first access, so updates to them would be lost")
    # defaultdict2 itself: stores then returns the stored row
    d2 = P.cls("defaultdict2").methods.get("__getitem__")
    if d2 is not None:
        src = ast.unparse(d2.node)
        ok = "self[key] = self.defaultvalue(key)" in src and "return self[key]" in src
        ctx.check(ok if ok else None, "SIM-7", d2, d2.node, "defaultdict2 stores the default before returning it", "", "idiom not recognised")


def rule_policy_and_wiring(ctx: Ctx):
    P = ctx.P
    cp = P.method("TemporalDifferenceLearning", "_create_policy")
    # (written after seed C10-e) the learner object outlives a training run: nothing it memoises may read state a later run overwrites
    from .common import cache_on_mutable_state_rule
    cache_on_mutable_state_rule(ctx, [P.cls("TemporalDifferenceLearning")], "POL-1")
    pol = list(cp.nested.values())
    if not pol:
        ctx.unknown("POL-1", cp, cp.node, "greedy policy closure over the returned table", "the policy is no longer a closure defined in _create_policy")
        return
    f = pol[0]
    s = f.positional_params[0]
    comps = [c for c in ast.walk(f.node) if isinstance(c, ast.ListComp)]
    SP = Snips(f)
    g = SP.solve(["row = q[s]", "maxq = max(row.values())", "[a for a in row.keys() if row[a] == maxq]"], {"q": cp.positional_params[2], "s": s}) or \
        SP.solve(["row = q[s]", "maxq = max(row.values())", "[a for a in row if row[a] == maxq]"], {"q": cp.positional_params[2], "s": s}) or \
        SP.solve(["row = q[s]", "maxq = max(row.values())", "[a for a, v in row.items() if v == maxq]"], {"q": cp.positional_params[2], "s": s})
    ok = g is not None if comps else None
    ctx.check(ok, "POL-1", f, comps[0] if comps else f.node, "greedy actions are exact maximisers of the state's Q-row", "", "the greedy set is not {a : Q[s][a] == max Q[s]}")
    qp = cp.positional_params[2]
    mdpp = cp.positional_params[1]
    row = [a for a in ast.walk(f.node) if isinstance(a, ast.Assign) and isinstance(a.value, ast.Subscript) and ast.unparse(a.value.slice) == s]
    ctx.check(bool(row) and ast.unparse(row[0].value.value) == qp, "POL-1", f, row[0] if row else f.node, "row of the queried state in the returned table", "", "policy reads a different table/row")
    hs = [h for h in ast.walk(f.node) if isinstance(h, ast.ExceptHandler)]
    ok = bool(hs) and any(isinstance(x, ast.Assign) and ast.unparse(x.value) == f"{mdpp}.actions({s})" for x in hs[0].body)
    ctx.check(ok, "POL-1", f, hs[0] if hs else f.node, "unvisited states: all available actions mdp.actions(s)", "", "fallback for unvisited states is not mdp.actions(s)")
    rets = [r for r in ast.walk(f.node) if isinstance(r, ast.Return)]
    ok = bool(rets) and all(isinstance(r.value, ast.Call) and ast.unparse(r.value.func).endswith("uniform") for r in rets)
    ctx.check(ok, "POL-1", f, rets[0] if rets else f.node, "uniform over the greedy set", "", "policy is not uniform over the greedy set")
    # train_on wiring
    t = P.method("TemporalDifferenceLearning", "train_on")
    tm = t.positional_params[1]
    S = Snips(t)
    tr = S.find(f"q = {t.self_name}._training({tm}, rng, REST)")
    gen = S.find(f"rng = {t.self_name}._init_random_number_generator()", tr[0][1] if tr else None)
    ctx.check(bool(tr) and bool(gen), "WIRE-1", t, tr[0][0] if tr else t.node, "trained table = self._training(mdp, <the learner's generator>, ...)", "", "train_on does not run the learner's training loop on the given mdp/generator")
    qn = tr[0][1]["q"] if tr else None
    r = [n for n in fn_body_nodes(t) if isinstance(n, ast.Return)]
    if r and isinstance(r[0].value, ast.Call):
        qv, pl = kwarg(r[0].value, "q_values"), kwarg(r[0].value, "policy")
        ctx.check(qv is not None and qn is not None and ast.unparse(qv) == qn, "WIRE-1", t, r[0], "q_values is the trained table", "", "returned q_values is not the trained table")
        ctx.check(pl is not None and qn is not None and S.m(f"{t.self_name}._create_policy({tm}, q)", pl, {"q": qn}) is not None, "WIRE-1", t, r[0], "policy built from the returned table", "", "returned policy is not built from the returned table")
    # double Q returns the mean over the union of keys
    dq = P.method("DoubleQLearning", "_training")
    dm = dq.positional_params[1]
    rets = [n for n in fn_body_nodes(dq) if isinstance(n, ast.Return) and isinstance(n.value, ast.Name)]
    outn = rets[-1].value.id if rets else None
    tabs = [n.targets[0].id for n in fn_body_nodes(dq) if isinstance(n, ast.Assign) and isinstance(n.targets[0], ast.Name)
            and ast.unparse(n.value) == f"{dq.self_name}._initial_q_table({dm})"]
    means = [n for n in fn_body_nodes(dq) if isinstance(n, ast.Assign) and isinstance(n.targets[0], ast.Subscript)
             and isinstance(n.targets[0].value, ast.Subscript) and outn is not None and ast.unparse(n.targets[0].value.value) == outn]
    if means and len(tabs) == 2:
        m = means[0]
        k1, k2 = ast.unparse(m.targets[0].value.slice), ast.unparse(m.targets[0].slice)
        p = alg.normalise(m.value)
        want = {((f"{tabs[0]}[{k1}][{k2}]", 1),): Fraction(1, 2), ((f"{tabs[1]}[{k1}][{k2}]", 1),): Fraction(1, 2)}
        ctx.check(p == want, "WIRE-1", dq, m, "double Q returns the mean of both tables", alg.show(p), f"returned table is `{alg.show(p)}`, not the mean of both estimates")
        loops = [n for n in fn_body_nodes(dq) if isinstance(n, ast.For) and any(m is x for x in ast.walk(n)) and isinstance(n.target, ast.Name) and n.target.id == k1]
        ok = bool(loops) and pat.m(f"set({tabs[0]}.keys()) | set({tabs[1]}.keys())", loops[0].iter) is not None
        ctx.check(ok, "WIRE-1", dq, loops[0] if loops else m, "over the union of both tables' states", "", "states visited in only one table are dropped")
    else:
        ctx.violation("WIRE-1", dq, dq.node, "double Q returns the mean of both tables", "no mean of q1 and q2 is returned")


def rule_behaviour(ctx: Ctx):
    P = ctx.P
    sam = P.fn("tdlearning.epsilon_softmax_sample")
    dis = P.fn("tdlearning.epsilon_softmax_dist")
    # mixture weights sum to one
    rets = [r for r in ast.walk(dis.node) if isinstance(r, ast.Return) and isinstance(r.value, ast.BinOp) and isinstance(r.value.op, ast.BitOr)]
    if rets:
        l, r = rets[0].value.left, rets[0].value.right
        wt = lambda x: alg.normalise(x.right) if isinstance(x, ast.BinOp) and isinstance(x.op, ast.Mult) else {(): Fraction(1)}
        w = alg.add(wt(l), wt(r))
        ok = w == {(): Fraction(1)}
        ctx.check(ok, "BEH-1", dis, rets[0], "exploration mixture weights sum to 1", "", f"mixture weights `{norm(rets[0].value)}` do not sum to 1")
        # weight of the uniform component is the exploration rate, as in the sampler
        av_, rc_ = dis.positional_params[:2]
        SDm = Snips(dis)
        ok = SDm.solve([f"rand_dist = DictDistribution.uniform({av_}.keys())", f"return rand_dist * {rc_} | E_other * (1 - {rc_})"]) is not None
        ctx.check(ok, "BEH-1", dis, rets[0], "uniform component weighted by rand_choose", "", "exploration weight is attached to the wrong component")
    else:
        ctx.unknown("BEH-1", dis, dis.node, "exploration mixture", "mixture expression not found")
    # (written after seed C10-c) every return of the behaviour distribution is the epsilon-mixture, or the greedy/softmax part alone under rand_choose == 0
    rc_ = dis.positional_params[1]
    for r_ in [x for x in ast.walk(dis.node) if isinstance(x, ast.Return)]:
        is_mix = isinstance(r_.value, ast.BinOp) and isinstance(r_.value.op, ast.BitOr)
        facts = atomic_facts(lexical_guards(dis, r_))
        no_explore = any(t_ in (f"{rc_} == 0.0", f"{rc_} == 0", f"0.0 == {rc_}", f"0 == {rc_}") and tr for t_, tr in facts) or (rc_, False) in facts
        ctx.check(is_mix or no_explore, "BEH-1", dis, r_, "a distribution without the uniform exploration part is returned only when rand_choose == 0", str(sorted(facts)),
                  f"`{norm(r_, 70)}` returns the exploitation part alone although rand_choose may be positive: the distribution used in expected updates "
                  f"is not the one the sampler draws from")
    SS, SD = Snips(sam), Snips(dis)
    av_s, rc_s, st_s, rng_s = sam.positional_params[:4]
    av_d, rc_d, st_d = dis.positional_params[:3]
    unz = SS.find(f"aa, qs = zip(*{av_s}.items())")
    e = unz[0][1] if unz else {}
    ok = bool(unz) and SS.has(f"{rng_s}.random() < {rc_s}") and SS.has(f"a = {rng_s}.choice(aa)", {"aa": e["aa"]})
    ctx.check(ok if ok else None, "BEH-1", sam, sam.node, "sampler explores uniformly with probability rand_choose", "", "idiom not recognised")
    ok = bool(unz) and SS.has(f"[math.exp(qi / {st_s}) for qi in qs]", {"qs": e["qs"]}) and SD.has(f"{{a: q / {st_d} for a, q in {av_d}.items()}}")
    ctx.check(ok if ok else None, "BEH-1", sam, sam.node, "sampler and distribution use the same Boltzmann exponent q/temperature", "", "idiom not recognised")
    ok = bool(unz) and SS.solve(["maxq = max(qs)", f"[a for a in aa if {av_s}[a] == maxq]"], {"qs": e["qs"], "aa": e["aa"]}) is not None \
        and SD.solve([f"maxq = max({av_d}.values())", f"[a for a, q in {av_d}.items() if q == maxq]"]) is not None
    ctx.check(ok if ok else None, "BEH-1", sam, sam.node, "zero temperature: uniform over exact maximisers in both", "", "idiom not recognised")


def run(ctx: Ctx):
    G = CallGraph(ctx.P, ctx.X)
    rule_loops(ctx)
    rule_initialiser(ctx)
    rule_policy_and_wiring(ctx)
    rule_behaviour(ctx)
    fns = [f for f in ctx.P.all_functions() if f.module.name == "msdm.algorithms.tdlearning"]
    arg_permutation_rule(ctx, G, fns, "ARG")
    for r, k in (("SIM-1", 4), ("SIM-2", 8), ("SIM-3", 4), ("SIM-4", 8), ("SIM-7", 9), ("ALG-1", 12), ("POL-1", 4),
                 ("WIRE-1", 5), ("BEH-1", 3), ("ARG", 8)):
        ctx.require(r, k)
    ctx.assume("for step sizes in [0,1] the update Q <- (1-a)Q + a*target is a convex combination, hence Q stays in the interval "
               "spanned by the initial value and the discounted reward bounds (argument from the checked normal form)")

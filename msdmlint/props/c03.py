"""C03 — LAO*.  TEN-4 element stores of the sub-MDP, boundary (pseudo-terminal) terms, Bellman form of the inner
policy iteration, policy closure, convergence flag and initial value wiring."""
from __future__ import annotations

import ast
from fractions import Fraction
from typing import Dict, List, Optional

from .. import alg
from ..pat import Snips
from ..util import arg_texts, arg_nodes, lexical_guards, atomic_facts
from ..bellman import check_einsums_in_function, check_elementwise_in_function, monomials, classify_monomial
from ..callgraph import CallGraph
from ..cfg import cfg_of
from ..model import FunctionInfo, AnalysisError
from ..report import Ctx
from ..tensor import Typer
from ..util import norm, fn_body_nodes, walk_local, kwarg
from .common import arg_permutation_rule, names_in, calls_named
from .c07 import items_loop_info, enclosing_loops

EXPLANATION = (
    "Structural necessary conditions of C03 on LAO*: the sub-MDP matrices are stored at the positions of the entities they were "
    "computed from (index maps built from the very node / action lists that lay out the rows and columns), absorbing nodes become "
    "pseudo-terminal, successors outside the sub-graph contribute probability to the pseudo-terminal column and reward + gamma * "
    "node value (reward only when absorbing) renormalised by that probability, the inner policy iteration evaluates I - gamma*P_pi "
    "and improves with q = sum T*(R + gamma v) penalised by log(availability) before argmax, each node's optimal action is an "
    "element of its own action order (built from mdp.actions(s)), the policy closure returns a distribution on every path and "
    "falls back to mdp.actions(s), converged is the solved-predicate of the final solution graph and initial_value is the "
    "initial-distribution expectation of node values. Optimality / admissibility theorems are not decided.")
RULES = ("TEN-4 sub-MDP store provenance; BND-1..4 boundary terms; TEN-1/2 einsum kinds; BEL-2 evaluation and look-ahead; BEL-4 availability "
         "penalty before argmax, optimal action from the node's own action order; LAY-1 rows/columns of the DP matrices are the lists they are "
         "read back with; POL-1 policy closure; BEL-5 converged / loop exit; BEL-6 initial value; NODE-1 node initialisation; SG-1 solution graph")


def run(ctx: Ctx):
    P, X = ctx.P, ctx.X
    G = CallGraph(P, X)
    E = P.cls("ExplicitStateGraph")
    f = E.methods["_state_nodes_to_matrices"]
    nodes_p, actions_p = f.positional_params[1:3]
    S = Snips(f)
    # ---- index maps, extents, allocations (one consistent binding of the locals)
    sol = S.solve([f"state_index = {{n.state: i for i, n in enumerate({nodes_p})}}",
                   f"action_index = {{a: i for i, a in enumerate({actions_p})}}"])
    env = sol[0] if sol else {}
    ctx.check(sol is not None, "TEN-4", f, sol[1][0] if sol else f.node, "state_index maps each node's state to its row position in the node list; action_index each action to its column", "",
              "index maps are not node.state -> position in the given node list and action -> position in the given action list")
    ex = S.solve([f"n_states = len({nodes_p})", f"n_actions = len({actions_p})"], env)
    ctx.check(ex is not None, "TEN-4", f, ex[1][0] if ex else f.node, "extents are the lengths of the node / action lists", "", "extents are not len(state_nodes) / len(actions)")
    env = ex[0] if ex else env
    al3 = S.find("V_arr = np.zeros((n_states + 1, n_actions, n_states + 1))", env)
    al2 = S.find("am = np.zeros((n_states + 1, n_actions))", env)
    ctx.check(len(al3) == 2, "TEN-4", f, al3[0][0] if al3 else f.node, "transition and reward arrays allocated as (n_states+1, n_actions, n_states+1) (one extra pseudo-terminal row/column)", "", "3-d allocations changed")
    ctx.check(len(al2) == 1, "TEN-4", f, al2[0][0] if al2 else f.node, "availability array allocated as (n_states+1, n_actions)", "", "availability allocation changed")
    if al2:
        env = al2[0][1]
    # ---- loops and stores
    loops = [n for n in fn_body_nodes(f) if isinstance(n, ast.For)]
    nl = [l for l in loops if ast.unparse(l.iter) == nodes_p]
    al = [l for l in loops if "actions(" in ast.unparse(l.iter)]
    sl = [l for l in loops if items_loop_info(l) is not None]
    if not (nl and al and sl):
        raise AnalysisError("_state_nodes_to_matrices: node / action / successor loops not recognised")
    svar = next((ast.unparse(n.targets[0]) for n in nl[0].body if isinstance(n, ast.Assign) and ast.unparse(n.value) == f"{ast.unparse(nl[0].target)}.state"), None)
    info = items_loop_info(sl[0])
    nsv, pv = info[3], info[4]
    avar = ast.unparse(al[0].target)
    ctx.check(info[1] == "next_state_dist" and info[2] == [svar, avar], "TEN-4", f, sl[0], "successors of next_state_dist(<node state>, <action>)", "", f"successor loop enumerates {info[1]}({', '.join(info[2])})")
    ctx.check(ast.unparse(al[0].iter).endswith(f".actions({svar})"), "TEN-4", f, al[0], "actions enumerated are the node state's own", "", "actions are not mdp.actions(<node state>)")
    sidx, aidx = env.get("state_index"), env.get("action_index")
    idx = {}
    for n in ast.walk(nl[0]):
        if isinstance(n, ast.Assign) and isinstance(n.value, ast.Subscript) and isinstance(n.value.value, ast.Name) and n.value.value.id in (sidx, aidx):
            idx[(n.value.value.id, ast.unparse(n.value.slice))] = ast.unparse(n.targets[0])
    si, ai, nsi = idx.get((sidx, svar)), idx.get((aidx, avar)), idx.get((sidx, nsv))
    for k, v in (("row index", si), ("column index", ai), ("successor index", nsi)):
        ctx.check(v is not None, "TEN-4", f, nl[0], f"{k} is looked up in the index map of the entity it stands for", str(idx),
                  f"no {k} of the form <index map>[<entity>] for the enumerated entity: index lookups are {idx}; a cell would be written at the position of a different entity")
    rdef = [n for n in ast.walk(sl[0]) if isinstance(n, ast.Assign) and isinstance(n.value, ast.Call) and ast.unparse(n.value.func).endswith(".reward")]
    rvar = ast.unparse(rdef[0].targets[0]) if rdef else "reward"
    ok = bool(rdef) and [ast.unparse(x) for x in rdef[0].value.args] == [svar, avar, nsv]
    ctx.check(ok, "TEN-4", f, rdef[0] if rdef else sl[0], "reward = mdp.reward(s, a, ns) of the enumerated transition", "", "reward is not that of the enumerated transition")
    am_n = env.get("am")
    # which 3-d array is the transition array: the one that receives the probability
    roles = {"si": si, "ai": ai, "nsi": nsi, "prob": pv, "reward": rvar}
    tst = S.find("tf[si, ai, nsi] = prob", roles, within=sl[0]) if si and ai and nsi else []
    tfn = tst[0][1]["tf"] if tst else None
    rst = S.find("rf[si, ai, nsi] = reward", roles, within=sl[0]) if si and ai and nsi else []
    rfn = rst[0][1]["rf"] if rst else None
    alloc = {e["arr"] for _, e in al3}
    ctx.check(bool(tst) and tfn in alloc, "TEN-4", f, tst[0][0] if tst else sl[0], "T[si, ai, nsi] = transition probability", "", "inside-graph transition store changed")
    ctx.check(bool(rst) and rfn in alloc and rfn != tfn, "TEN-4", f, rst[0][0] if rst else sl[0], "R[si, ai, nsi] = reward", "", "inside-graph reward store changed")
    cfg = cfg_of(f)
    if tst:
        facts = atomic_facts(lexical_guards(f, tst[0][0]))
        ctx.check((f"{nsv} in {sidx}", True) in facts, "TEN-4", f, tst[0][0], "inside-graph stores only for successors that have a row", str(sorted(facts)), "inside-graph store is not guarded by `ns in state_index`")
    am_st = S.find("am[si, ai] = 1", {**roles, "am": am_n}, within=al[0]) if am_n and si and ai else []
    ctx.check(bool(am_st), "TEN-4", f, am_st[0][0] if am_st else al[0], "availability[si, ai] = 1 for the state's own actions", "", "availability store changed")
    # ---- absorbing nodes
    ab = [n for n in nl[0].body if isinstance(n, ast.If) and ast.unparse(n.test).endswith(f".is_absorbing({svar})")]
    if ab:
        b = [ast.unparse(x) for x in ab[0].body]
        ctx.check(f"{tfn}[{si}, :, -1] = 1" in b and f"{am_n}[{si}, :] = 1" in b and any(isinstance(x, ast.Continue) for x in ab[0].body), "BND-1", f, ab[0],
                  "absorbing nodes go to the pseudo-terminal with reward 0 under every action", str(b), "absorbing nodes are not mapped to the zero-reward pseudo-terminal")
        ctx.check(nl[0].body.index(ab[0]) < nl[0].body.index(al[0]), "BND-1", f, ab[0], "absorbing test precedes the action loop", "", "absorbing nodes are expanded like ordinary nodes")
    else:
        ctx.violation("BND-1", f, nl[0], "absorbing nodes are pseudo-terminal", "absorbing nodes are not special-cased: their successors' values would be backed up")
    # ---- boundary terms
    aug = {ast.unparse(n.target): n for n in ast.walk(sl[0]) if isinstance(n, ast.AugAssign)}
    tb = aug.get(f"{tfn}[{si}, {ai}, -1]")
    ctx.check(tb is not None and isinstance(tb.op, ast.Add) and ast.unparse(tb.value) == pv, "BND-2", f, tb if tb is not None else sl[0], "outside successors add their probability to the pseudo-terminal column", "", "boundary probability is not accumulated")
    rbs = [n for n in ast.walk(sl[0]) if isinstance(n, ast.AugAssign) and ast.unparse(n.target) == f"{rfn}[{si}, {ai}, -1]"]
    gamma = "self.mdp.discount_rate"
    seen_abs = seen_non = False
    names = {pv: "p", rvar: "reward"}

    def canon(p):
        """rename the two local atoms to role names so that the expected normal form is independent of their spelling."""
        out = {}
        for m_, c in p.items():
            out[tuple(sorted((names.get(k, k.replace(f"[{nsv}]", "[ns]")), e) for k, e in m_))] = c
        return out
    for n in rbs:
        facts = atomic_facts(lexical_guards(f, n))
        p = canon(alg.normalise(n.value))
        absorbing_branch = any(t.endswith(f".is_absorbing({nsv})") and tr for t, tr in facts)
        non_branch = any(t.endswith(f".is_absorbing({nsv})") and not tr for t, tr in facts)
        if absorbing_branch:
            seen_abs = True
            want = {tuple(sorted((("p", 1), ("reward", 1)))): Fraction(1)}
            ctx.check(p == want, "BND-3", f, n, "absorbing outside successor contributes p * reward only", alg.show(p), f"absorbing boundary term normalises to `{alg.show(p)}` (a terminal successor has no future value)")
        elif non_branch:
            seen_non = True
            val = "self.states_to_nodes[ns].value"
            want = {tuple(sorted((("p", 1), ("reward", 1)))): Fraction(1), tuple(sorted((("p", 1), (gamma, 1), (val, 1)))): Fraction(1)}
            ctx.check(p == want, "BND-3", f, n, "non-absorbing outside successor contributes p * (reward + gamma * node value)", alg.show(p),
                      f"boundary term normalises to `{alg.show(p)}`: it must be p*reward + p*gamma*value(ns) with the *current node value* of that successor")
    ctx.check(seen_abs and seen_non, "BND-3", f, sl[0], "boundary terms distinguish absorbing and non-absorbing outside successors", "", "the two boundary branches are not both present under an is_absorbing(ns) test")
    ren = [n for n in ast.walk(al[0]) if isinstance(n, ast.AugAssign) and isinstance(n.op, ast.Div) and ast.unparse(n.target) == f"{rfn}[{si}, {ai}, -1]"]
    if ren:
        ok = ast.unparse(ren[0].value) == f"{tfn}[{si}, {ai}, -1]" and not any(ren[0] is x for x in ast.walk(sl[0]))
        ctx.check(ok, "BND-4", f, ren[0], "pseudo-terminal reward renormalised by the total boundary probability, after the successor loop", "", "renormalisation is by a different quantity or happens inside the successor loop")
        facts = atomic_facts(lexical_guards(f, ren[0]))
        ctx.check((f"{tfn}[{si}, {ai}, -1] > 0", True) in facts, "BND-4", f, ren[0], "renormalisation only when boundary probability is positive", str(sorted(facts)), "division by a zero boundary probability is possible")
    else:
        ctx.violation("BND-4", f, al[0], "pseudo-terminal reward renormalisation", "the probability-weighted boundary reward is never divided by the boundary probability")
    rets = [n for n in fn_body_nodes(f) if isinstance(n, ast.Return)]
    ctx.check(bool(rets) and ast.unparse(rets[0].value).replace(" ", "") == f"({tfn},{rfn},{am_n})", "TEN-4", f, rets[0] if rets else f.node, "returns (T, R, availability)", "", "return order changed")
    # ---- inner policy iteration
    pi = E.methods["_policy_iteration"]
    ptf, prf, pam = pi.positional_params[1:4]
    typer = Typer(param_arrays={ptf: "transition_matrix", prf: "reward_matrix", pam: "action_matrix"})
    check_einsums_in_function(ctx, pi, typer)
    check_elementwise_in_function(ctx, pi, typer)
    SP = Snips(pi)
    sv, pe = SP.first("v = np.linalg.solve(E_A, E_b)")
    if sv is not None:
        chain = {k: d for k, d in SP.defs.items()}
        pA = alg.normalise(pe["A"], lambda nme: chain.get(nme) if isinstance(chain.get(nme), ast.BinOp) else None)
        # atoms of the system matrix: np.eye(...) and gamma * <chain>; the chain is an einsum, named or in place
        mp_atom = None
        for m_, c in pA.items():
            d = dict(m_)
            if c == -1 and d.get("self.mdp.discount_rate") == 1 and len(d) == 2:
                mp_atom = next(k for k in d if k != "self.mdp.discount_rate")
        ok = len(pA) == 2 and mp_atom is not None and any(c == 1 and len(m_) == 1 and m_[0][0].startswith("np.eye(") for m_, c in pA.items())
        ctx.check(ok, "BEL-2", pi, sv, "evaluation solves (eye - gamma * P_pi) v = r_pi", alg.show(pA), f"system matrix normalises to `{alg.show(pA)}`")
        ok = SP.solve([f"mp = np.einsum('sa,san->sn', pi, {ptf})", "v = np.linalg.solve(np.eye(ANY) - self.mdp.discount_rate * mp, ANY)"], {"v": pe["v"]}) is not None
        ctx.check(ok, "BEL-2", pi, sv, "P_pi = sum_a pi(a|s) T(s'|s,a)", "", "policy chain changed")
        ok = any(SP.solve([f"s_rf = np.einsum('sa,san,san->s', pi, {x}, {y})", "v = np.linalg.solve(ANY, s_rf)"], {"v": pe["v"]}) is not None for x, y in ((ptf, prf), (prf, ptf)))
        ctx.check(ok, "BEL-2", pi, sv, "right-hand side is the policy's expected reward", "", "right-hand side changed")
    else:
        ctx.violation("BEL-2", pi, pi.node, "policy evaluation by linear solve", "no linear solve")
    vname = pe["v"] if pe else None
    # availability penalty before argmax  (identifies the action-value variable)
    am_calls = [c for c in ast.walk(pi.node) if isinstance(c, ast.Call) and isinstance(c.func, ast.Attribute) and c.func.attr == "argmax"]
    qn = None
    if am_calls:
        recv = am_calls[0].func.value
        p = alg.normalise(recv)
        has_pen = any(len(m_) == 1 and m_[0][0].replace(" ", "") == f"np.log({pam})" and c == 1 for m_, c in p.items())
        qa = [m_[0][0] for m_, c in p.items() if len(m_) == 1 and c == 1 and m_[0][0].isidentifier()]
        qn = qa[0] if len(qa) == 1 else None
        ctx.check(has_pen and qn is not None and len(p) == 2, "BEL-4", pi, am_calls[0], "improvement: argmax over actions of q + log(availability)", alg.show(p),
                  f"the greedy action is the argmax of `{norm(recv, 70)}`: unavailable actions are not excluded by a -inf penalty, so an unavailable column can be selected")
        ax = kwarg(am_calls[0], "axis")
        ctx.check(ax is not None and ast.unparse(ax) == "1", "BEL-4", pi, am_calls[0], "argmax over the action axis", "", "argmax is not over the action axis")
    else:
        ctx.violation("BEL-4", pi, pi.node, "greedy improvement", "no argmax in the improvement step")
    qd = [n for n in ast.walk(pi.node) if isinstance(n, ast.Assign) and qn and ast.unparse(n.targets[0]) == qn]
    if not qd:
        qd = [n for n in ast.walk(pi.node) if isinstance(n, ast.Assign) and isinstance(n.value, ast.Call) and ast.unparse(n.value.func) == "np.einsum"
              and len(n.value.args) == 3 and str(getattr(n.value.args[0], "value", "")).replace(" ", "") == "san,san->sa"]
    if qd:
        ein = [n for n in qd if isinstance(n.value, ast.Call) and ast.unparse(n.value.func) == "np.einsum"]
        t = X.expr(pi, (ein[0] if ein else qd[-1]).value)
        ms = monomials(t)
        cl = [classify_monomial(typer, m_) for m_ in ms]
        rew = [c for c in cl if c["R"] and c["T"]]
        fut = [c for c in cl if c["T"] and not c["R"] and c["other"]]
        ctx.check(len(rew) >= 1 and all(c["disc"] == 0 for c in rew), "BEL-2", pi, qd[0], "look-ahead: T*R undiscounted", str(rew), "look-ahead reward term missing or discounted")
        ctx.check(len(fut) >= 1 and all(c["disc"] == 1 for c in fut), "BEL-2", pi, qd[0], "look-ahead: T*gamma*v discounted once", str(fut), "look-ahead future term missing or not discounted exactly once")
    cvs = SP.find("converged = (new_pi == pi).all()")
    ok = bool(cvs) and any(SP.m(f"if {cvs[0][1]['converged']}:\n    break", n) is not None for n in SP.stmts if isinstance(n, ast.If))
    ctx.check(ok, "BEL-5", pi, cvs[0][0] if cvs else pi.node, "inner iteration stops on policy stability", "", "inner stop rule changed")
    # ---- dynamic_programming layout
    dp = E.methods["dynamic_programming"]
    SD = Snips(dp)
    dnodes = dp.positional_params[1]
    d1 = SD.solve(["tf, rf, am = self._state_nodes_to_matrices(E_rows, E_cols)", "pi, v, q = self._policy_iteration(tf, rf, am)"])
    ctx.check(d1 is not None, "LAY-1", dp, d1[1][0] if d1 else dp.node, "matrices are passed to the inner policy iteration in (T, R, availability) order", "", "matrix wiring changed")
    de = d1[0] if d1 else {}
    rows, cols = (ast.unparse(de["rows"]), ast.unparse(de["cols"])) if d1 else (None, None)
    lpn, le = SD.first(f"for si, node in enumerate({rows}):\n    REST") if rows else (None, None)
    ctx.check(lpn is not None, "LAY-1", dp, lpn if lpn is not None else dp.node, "results are read back row by row in the order of the node list that laid out the rows", "", "row order of the read-back differs from the layout")
    if le:
        de = {**de, **{k: le[k] for k in ("si", "node")}}
    z = SD.find(f"zip({cols}, q[si, :])", de) if cols else []
    ctx.check(bool(z), "LAY-1", dp, z[0][0] if z else dp.node, "action values are paired with the action list that laid out the columns", "", "column order of the read-back differs from the layout")
    o1 = SD.solve(["action_vals = {a: v0 for a, v0 in zip(ANY, ANY)}", "optimal_action = max(node.action_order, key=lambda a2: action_vals[a2])"], {k: de[k] for k in ("node",) if k in de})
    # the maximiser is stored as the node's optimal action, directly or through a temporary
    ok = o1 is not None and (str(o1[0]["optimal_action"]) == f"{o1[0]['node']}.optimal_action" or SD.has("node.optimal_action = optimal_action", o1[0]))
    ctx.check(ok, "BEL-4", dp, o1[1][1] if o1 else dp.node, "optimal action is chosen among the node's own action order", "", "optimal action is not taken from node.action_order by maximising the paired action values")
    ctx.check(SD.has("node.value = v[si]", de), "LAY-1", dp, dp.node, "node value = solved value of its own row", "", "node value is not v[si]")
    # ---- node initialisation
    ini = E.methods["_initialize_node"]
    SI = Snips(ini)
    s_p = ini.positional_params[1]
    a1 = SI.find(f"action_order = sorted(self.mdp.actions({s_p}), key=lambda a: self.rng.random())")
    a2 = SI.find(f"action_order = self.mdp.actions({s_p})", a1[0][1] if a1 else None)
    ctx.check(bool(a1) and bool(a2), "NODE-1", ini, ini.node, "action order is mdp.actions(s) (optionally shuffled with the graph's generator)", "", "node action order is not derived from mdp.actions(s)")
    ao = a1[0][1]["action_order"] if a1 else "action_order"
    nc = [c for c in ast.walk(ini.node) if isinstance(c, ast.Call) and ast.unparse(c.func) == "Node"]
    kw = arg_texts(nc[0]) if nc else {}
    ok = kw.get("value") == f"self.heuristic({s_p})" and kw.get("optimal_action") == f"{ao}[0]" and kw.get("expanded") == "False" and kw.get("action_order") == ao and kw.get("state") == s_p
    ctx.check(ok, "NODE-1", ini, nc[0] if nc else ini.node, "new nodes start at the heuristic value with the first action of their own order", "", "node initialisation changed")
    ex_ = E.methods["expand_at"]
    SE = Snips(ex_)
    st_p = ex_.positional_params[1]
    e1 = SE.solve([f"node = self.states_to_nodes[{st_p}]", "for a in node.action_order:\n    REST", "node.action_nextstates[a].append(nextnode.state)"])
    ok = e1 is not None and (SE.has(f"self.mdp.next_state_dist({st_p}, a).support", e1[0]) or any(SE.has(f"self.mdp.next_state_dist({al_}, a).support", e1[0]) for al_ in
                                                                                                  [e["s"] for _, e in SE.find(f"s = {st_p}")]))
    ctx.check(ok, "NODE-1", ex_, ex_.node, "expansion records the successors of next_state_dist(s, a) for each own action", "", "expansion changed")
    # ---- solution graph
    sg = P.cls("SolutionGraph").methods["__init__"]
    SG = Snips(sg)
    gp = sg.positional_params[1]
    g1 = SG.solve([f"for s0 in {gp}.initial_states:\n    REST", f"node = {gp}.states_to_nodes[s]", "nextstates = node.action_nextstates[node.optimal_action]", "frontier.extend(nextstates)",
                   "self.nonterminal_tip_states.append(node.state)"])
    ctx.check(g1 is not None, "SG-1", sg, sg.node, "solution graph follows each node's optimal action from the initial states; unexpanded nodes are tips", "", "solution-graph traversal changed")
    isol = P.cls("SolutionGraph").methods["is_solved"]
    ctx.check(Snips(isol).has("return len(self.nonterminal_tip_states) == 0") or Snips(isol).has("return not self.nonterminal_tip_states"), "SG-1", isol, isol.node, "solved = no non-terminal tips", "", "solved predicate changed")
    # ---- planner
    L = P.cls("LAOStar")
    po = L.methods["plan_on"]
    SPO = Snips(po)
    mp_ = po.positional_params[1]
    p1 = SPO.solve([f"explicit_graph, iterations = self._run_lao_star({mp_})", "solution_graph = explicit_graph.solution_graph()"])
    rr = [n for n in fn_body_nodes(po) if isinstance(n, ast.Return) and isinstance(n.value, ast.Call)]
    kw = arg_texts(rr[0].value) if rr else {}
    pe_ = p1[0] if p1 else {}
    ok = p1 is not None and p1[1][0].lineno < p1[1][1].lineno and kw.get("converged") == f"{pe_.get('solution_graph')}.is_solved()"
    ctx.check(ok, "BEL-5", po, rr[0] if rr else po.node, "converged = solved-predicate of the final solution graph", "", "converged is not the solved predicate of the solution graph computed after the search")
    ok = p1 is not None and kw.get("initial_value") == f"{pe_['explicit_graph']}.initial_value()" and kw.get("state_value_map") == f"{pe_['explicit_graph']}.state_value_map()" \
        and SPO.m(f"self._create_policy(sg, {mp_})", arg_nodes(rr[0].value).get("policy"), {"sg": pe_["solution_graph"]}) is not None
    ctx.check(ok, "BEL-6", po, rr[0] if rr else po.node, "reported values / policy come from the final explicit and solution graphs", "", "result wiring changed")
    iv = E.methods["initial_value"]
    acc = [n for n in ast.walk(iv.node) if isinstance(n, ast.AugAssign)]
    lp2 = [n for n in ast.walk(iv.node) if isinstance(n, ast.For)]
    inf2 = items_loop_info(lp2[0]) if lp2 else None
    ok = bool(acc) and inf2 is not None and inf2[1] == "initial_state_dist" and alg.normalise(acc[0].value) == {tuple(sorted(((f"self.states_to_nodes[{inf2[3]}].value", 1), (inf2[4], 1)))): Fraction(1)}
    ok = ok and isinstance(acc[0].op, ast.Add) and Snips(iv).has(f"return {ast.unparse(acc[0].target)}") and Snips(iv).has(f"{ast.unparse(acc[0].target)} = 0")
    ctx.check(ok, "BEL-6", iv, acc[0] if acc else iv.node, "initial_value = sum over initial_state_dist of node value * p", "", "initial value is not the initial-distribution expectation of node values")
    run_ = L.methods["_run_lao_star"]
    SR = Snips(run_)
    r1 = SR.solve(["for i in range(self.max_lao_star_iterations):\n    REST", "solution_graph = explicit_graph.solution_graph()", "if solution_graph.is_solved():\n    break"])
    brk = [n for n in ast.walk(run_.node) if isinstance(n, ast.If) and any(isinstance(b, ast.Break) for b in ast.walk(n))]
    ok = r1 is not None and len(brk) == 1
    ctx.check(ok, "BEL-5", run_, brk[0] if brk else run_.node, "main loop exits only when the solution graph is solved or at the iteration cap", "", "main loop exit changed")
    r2 = SR.solve(["expand_states = [solution_graph.best_breadth_first_tip_state()]", "for s in expand_states:\n    explicit_graph.expand_at(s)", "ANY = explicit_graph.revise_value_from(expand_states)"], r1[0] if r1 else None) if r1 else None
    if r2 is None and r1:
        r2 = SR.solve(["expand_states = [solution_graph.best_breadth_first_tip_state()]", "for s in expand_states:\n    explicit_graph.expand_at(s)", "explicit_graph.revise_value_from(expand_states)"], r1[0])
    ctx.check(r2 is not None, "BEL-5", run_, run_.node, "each iteration expands a tip of the current solution graph and revises its ancestors", "", "expand/revise step changed")
    # ---- policy closure
    cp = L.methods["_create_policy"]
    SC = Snips(cp)
    sgp, mdpp = cp.positional_params[1:3]
    cl = list(cp.nested.values())
    c0 = SC.solve([f"for s, n in {sgp}.states_to_nodes.items():\n    solution_policy[s] = DeterministicDistribution(n.optimal_action)"])
    ctx.check(c0 is not None, "POL-1", cp, c0[1][0] if c0 else cp.node, "planned actions are the optimal actions of the solution graph's nodes", "", "planned actions are not the solution graph's optimal actions")
    if cl:
        pf = cl[0]
        pcfg = cfg_of(pf)
        rets = [n for n in pcfg.nodes if n.kind == "stmt" and isinstance(n.ast, ast.Return)]
        ok = bool(rets) and all(r.ast.value is not None for r in rets) and not [p for p, lab in pcfg.exit.pred if lab != "return"]
        ctx.check(ok, "POL-1", pf, pf.node, "the policy closure returns a distribution on every path", "", "some path of the policy closure falls off the end (returns None)")
        sp_ = pf.positional_params[0]
        SF = Snips(pf, literals=[mdpp])
        sp0 = c0[0]["solution_policy"] if c0 else "solution_policy"
        f1 = SF.solve([f"return {sp0}[{sp_}]", f"for a in {mdpp}.actions({sp_}):\n    REST", "return DictDistribution.uniform(max_actions)"])
        ctx.check(f1 is not None, "POL-1", pf, pf.node, "planned action where available, else heuristic-greedy over mdp.actions(s)", "", "policy fallback changed")
    arg_permutation_rule(ctx, G, [x for x in P.all_functions() if x.module.name == "msdm.algorithms.laostar"], "ARG")
    for rr_, k in (("TEN-4", 14), ("BND-1", 2), ("BND-2", 1), ("BND-3", 3), ("BND-4", 2), ("TEN-1", 3), ("BEL-2", 4), ("BEL-4", 3), ("BEL-5", 4),
                   ("BEL-6", 2), ("LAY-1", 4), ("NODE-1", 3), ("SG-1", 2), ("POL-1", 3), ("ARG", 3)):
        ctx.require(rr_, k)
    ctx.assume("Hansen & Zilberstein 2001: with an admissible heuristic LAO* terminates with an optimal closed policy (theorem about expansion order, not checked)")

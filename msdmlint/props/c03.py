"""C03 — LAO*.  TEN-4 element stores of the sub-MDP, boundary (pseudo-terminal) terms, Bellman form of the inner
policy iteration, policy closure, convergence flag and initial value wiring."""
from __future__ import annotations

import ast
from fractions import Fraction
from typing import Dict, List, Optional

from .. import alg
from ..bellman import check_einsums_in_function, check_elementwise_in_function, monomials, classify_monomial
from ..callgraph import CallGraph
from ..cfg import cfg_of
from ..model import FunctionInfo, AnalysisError
from ..report import Ctx
from ..tensor import Typer
from ..util import norm, fn_body_nodes, walk_local, kwarg
from .common import arg_permutation_rule, names_in, calls_named
from .c07 import items_loop_info, enclosing_loops

EXPLANATION = (
    "Structural necessary conditions of C03 on LAO*: the sub-MDP matrices are stored at the positions of the entities they were "
    "computed from (index maps built from the very node / action lists that lay out the rows and columns), absorbing nodes become "
    "pseudo-terminal, successors outside the sub-graph contribute probability to the pseudo-terminal column and reward + gamma * "
    "node value (reward only when absorbing) renormalised by that probability, the inner policy iteration evaluates I - gamma*P_pi "
    "and improves with q = sum T*(R + gamma v) penalised by log(availability) before argmax, each node's optimal action is an "
    "element of its own action order (built from mdp.actions(s)), the policy closure returns a distribution on every path and "
    "falls back to mdp.actions(s), converged is the solved-predicate of the final solution graph and initial_value is the "
    "initial-distribution expectation of node values. Optimality / admissibility theorems are not decided.")
RULES = ("TEN-4 sub-MDP store provenance; BND-1..4 boundary terms; TEN-1/2 einsum kinds; BEL-2 evaluation and look-ahead; BEL-4 availability "
         "penalty before argmax, optimal action from the node's own action order; LAY-1 rows/columns of the DP matrices are the lists they are "
         "read back with; POL-1 policy closure; BEL-5 converged / loop exit; BEL-6 initial value; NODE-1 node initialisation; SG-1 solution graph")


def run(ctx: Ctx):
    P, X = ctx.P, ctx.X
    G = CallGraph(P, X)
    E = P.cls("ExplicitStateGraph")
    f = E.methods["_state_nodes_to_matrices"]
    nodes_p, actions_p = f.positional_params[1:3]
    src = {ast.unparse(n.targets[0]): n for n in fn_body_nodes(f) if isinstance(n, ast.Assign) and len(n.targets) == 1}
    # ---- index maps
    si_m, ai_m = src.get("state_index"), src.get("action_index")
    ok = si_m is not None and ast.unparse(si_m.value).replace(" ", "") == f"{{n.state:ifori,ninenumerate({nodes_p})}}"
    ctx.check(ok, "TEN-4", f, si_m if si_m is not None else f.node, "state_index maps each node's state to its row position in the node list", "", "state index map is not node.state -> position in the given node list")
    ok = ai_m is not None and ast.unparse(ai_m.value).replace(" ", "") == f"{{a:ifori,ainenumerate({actions_p})}}"
    ctx.check(ok, "TEN-4", f, ai_m if ai_m is not None else f.node, "action_index maps each action to its column position in the given action list", "", "action index map is not action -> position in the given action list")
    for arr, shp in (("tf", "(n_states+1,n_actions,n_states+1)"), ("rf", "(n_states+1,n_actions,n_states+1)"), ("am", "(n_states+1,n_actions)")):
        n = src.get(arr)
        ok = n is not None and ast.unparse(n.value).replace(" ", "") == f"np.zeros({shp})"
        ctx.check(ok, "TEN-4", f, n if n is not None else f.node, f"{arr} allocated as {shp} (one extra pseudo-terminal row/column)", "", f"`{arr}` allocation changed")
    ns_n, na_n = src.get("n_states"), src.get("n_actions")
    ok = ns_n is not None and ast.unparse(ns_n.value) == f"len({nodes_p})" and na_n is not None and ast.unparse(na_n.value) == f"len({actions_p})"
    ctx.check(ok, "TEN-4", f, ns_n if ns_n is not None else f.node, "extents are the lengths of the node / action lists", "", "extents are not len(state_nodes) / len(actions)")
    # ---- loops and stores
    loops = [n for n in fn_body_nodes(f) if isinstance(n, ast.For)]
    nl = [l for l in loops if ast.unparse(l.iter) == nodes_p]
    al = [l for l in loops if "actions(" in ast.unparse(l.iter)]
    sl = [l for l in loops if items_loop_info(l) is not None]
    if not (nl and al and sl):
        raise AnalysisError("_state_nodes_to_matrices: node / action / successor loops not recognised")
    svar = next((ast.unparse(n.targets[0]) for n in nl[0].body if isinstance(n, ast.Assign) and ast.unparse(n.value) == f"{ast.unparse(nl[0].target)}.state"), None)
    info = items_loop_info(sl[0])
    nsv, pv = info[3], info[4]
    avar = ast.unparse(al[0].target)
    ctx.check(info[1] == "next_state_dist" and info[2] == [svar, avar], "TEN-4", f, sl[0], f"successors of next_state_dist({svar}, {avar})", "", f"successor loop enumerates {info[1]}({', '.join(info[2])})")
    ctx.check(ast.unparse(al[0].iter).endswith(f".actions({svar})"), "TEN-4", f, al[0], "actions enumerated are the node state's own", "", "actions are not mdp.actions(<node state>)")
    idx = {}
    for n in ast.walk(nl[0]):
        if isinstance(n, ast.Assign) and isinstance(n.value, ast.Subscript) and isinstance(n.value.value, ast.Name) and n.value.value.id in ("state_index", "action_index"):
            idx[ast.unparse(n.targets[0])] = (n.value.value.id, ast.unparse(n.value.slice))
    want_idx = {"si": ("state_index", svar), "ai": ("action_index", avar), "nsi": ("state_index", nsv)}
    for k, v in want_idx.items():
        ctx.check(idx.get(k) == v, "TEN-4", f, nl[0], f"{k} = {v[0]}[{v[1]}]", str(idx.get(k)), f"index `{k}` is `{idx.get(k)}`: a cell would be written at the position of a different entity")
    stores = {ast.unparse(n.targets[0]): n for n in ast.walk(sl[0]) if isinstance(n, ast.Assign) and isinstance(n.targets[0], ast.Subscript)}
    rdef = [n for n in ast.walk(sl[0]) if isinstance(n, ast.Assign) and isinstance(n.value, ast.Call) and ast.unparse(n.value.func).endswith(".reward")]
    rvar = ast.unparse(rdef[0].targets[0]) if rdef else "reward"
    ok = bool(rdef) and [ast.unparse(x) for x in rdef[0].value.args] == [svar, avar, nsv]
    ctx.check(ok, "TEN-4", f, rdef[0] if rdef else sl[0], f"reward = mdp.reward({svar}, {avar}, {nsv})", "", "reward is not that of the enumerated transition")
    t_st, r_st = stores.get("tf[si, ai, nsi]"), stores.get("rf[si, ai, nsi]")
    ctx.check(t_st is not None and ast.unparse(t_st.value) == pv, "TEN-4", f, t_st if t_st is not None else sl[0], "tf[si, ai, nsi] = transition probability", "", "inside-graph transition store changed")
    ctx.check(r_st is not None and ast.unparse(r_st.value) == rvar, "TEN-4", f, r_st if r_st is not None else sl[0], "rf[si, ai, nsi] = reward", "", "inside-graph reward store changed")
    cfg = cfg_of(f)
    if t_st is not None:
        gs = [(ast.unparse(cfg.nodes[b].ast.test), lab) for b, lab in cfg.guards(cfg.node_for(t_st)) if cfg.nodes[b].kind == "if"]
        ctx.check(any(t == f"{nsv} in state_index" and lab.startswith("T") for t, lab in gs), "TEN-4", f, t_st, "inside-graph stores only for successors that have a row", str(gs), "inside-graph store is not guarded by `ns in state_index`")
    am_st = [n for n in ast.walk(al[0]) if isinstance(n, ast.Assign) and ast.unparse(n.targets[0]) == "am[si, ai]"]
    ctx.check(bool(am_st) and ast.unparse(am_st[0].value) == "1", "TEN-4", f, am_st[0] if am_st else al[0], "am[si, ai] = 1 for the state's own actions", "", "availability store changed")
    # ---- absorbing nodes
    ab = [n for n in nl[0].body if isinstance(n, ast.If) and ast.unparse(n.test).endswith(f".is_absorbing({svar})")]
    if ab:
        b = [ast.unparse(x) for x in ab[0].body]
        ctx.check("tf[si, :, -1] = 1" in b and "am[si, :] = 1" in b and any(isinstance(x, ast.Continue) for x in ab[0].body), "BND-1", f, ab[0],
                  "absorbing nodes go to the pseudo-terminal with reward 0 under every action", str(b), "absorbing nodes are not mapped to the zero-reward pseudo-terminal")
        ctx.check(nl[0].body.index(ab[0]) < nl[0].body.index(al[0]), "BND-1", f, ab[0], "absorbing test precedes the action loop", "", "absorbing nodes are expanded like ordinary nodes")
    else:
        ctx.violation("BND-1", f, nl[0], "absorbing nodes are pseudo-terminal", "absorbing nodes are not special-cased: their successors' values would be backed up")
    # ---- boundary terms
    aug = {ast.unparse(n.target): n for n in ast.walk(sl[0]) if isinstance(n, ast.AugAssign)}
    tb = aug.get("tf[si, ai, -1]")
    ctx.check(tb is not None and isinstance(tb.op, ast.Add) and ast.unparse(tb.value) == pv, "BND-2", f, tb if tb is not None else sl[0], "outside successors add their probability to the pseudo-terminal column", "", "boundary probability is not accumulated")
    rbs = [n for n in ast.walk(sl[0]) if isinstance(n, ast.AugAssign) and ast.unparse(n.target) == "rf[si, ai, -1]"]
    gamma = "self.mdp.discount_rate"
    seen_abs = seen_non = False
    for n in rbs:
        gs = []
        for b, lab in cfg.control_deps(cfg.node_for(n)):
            if cfg.nodes[b].kind != "if":
                continue
            tt, lb = cfg.nodes[b].ast.test, lab.split("|")[0]
            if isinstance(tt, ast.UnaryOp) and isinstance(tt.op, ast.Not):
                tt, lb = tt.operand, {"T": "F", "F": "T"}.get(lb, lb)
            gs.append((ast.unparse(tt), lb))
        p = alg.normalise(n.value)
        absorbing_branch = any(t.endswith(f".is_absorbing({nsv})") and lab == "T" for t, lab in gs)
        non_branch = any(t.endswith(f".is_absorbing({nsv})") and lab == "F" for t, lab in gs)
        if absorbing_branch:
            seen_abs = True
            want = {tuple(sorted(((pv, 1), (rvar, 1)))): Fraction(1)}
            ctx.check(p == want, "BND-3", f, n, "absorbing outside successor contributes p * reward only", alg.show(p), f"absorbing boundary term normalises to `{alg.show(p)}` (a terminal successor has no future value)")
        elif non_branch:
            seen_non = True
            val = f"self.states_to_nodes[{nsv}].value"
            want = {tuple(sorted(((pv, 1), (rvar, 1)))): Fraction(1), tuple(sorted(((pv, 1), (gamma, 1), (val, 1)))): Fraction(1)}
            ctx.check(p == want, "BND-3", f, n, "non-absorbing outside successor contributes p * (reward + gamma * node value)", alg.show(p),
                      f"boundary term normalises to `{alg.show(p)}`: it must be p*reward + p*gamma*value(ns) with the *current node value* of that successor")
    ctx.check(seen_abs and seen_non, "BND-3", f, sl[0], "boundary terms distinguish absorbing and non-absorbing outside successors", "", "the two boundary branches are not both present under an is_absorbing(ns) test")
    ren = [n for n in ast.walk(al[0]) if isinstance(n, ast.AugAssign) and isinstance(n.op, ast.Div) and ast.unparse(n.target) == "rf[si, ai, -1]"]
    if ren:
        ok = ast.unparse(ren[0].value) == "tf[si, ai, -1]" and not any(ren[0] is x for x in ast.walk(sl[0]))
        ctx.check(ok, "BND-4", f, ren[0], "pseudo-terminal reward renormalised by the total boundary probability, after the successor loop", "", "renormalisation is by a different quantity or happens inside the successor loop")
        gs = [ast.unparse(cfg.nodes[b].ast.test) for b, lab in cfg.control_deps(cfg.node_for(ren[0])) if cfg.nodes[b].kind == "if"]
        ctx.check(any("tf[si, ai, -1] > 0" == t for t in gs), "BND-4", f, ren[0], "renormalisation only when boundary probability is positive", "", "division by a zero boundary probability is possible")
    else:
        ctx.violation("BND-4", f, al[0], "pseudo-terminal reward renormalisation", "the probability-weighted boundary reward is never divided by the boundary probability")
    rets = [n for n in fn_body_nodes(f) if isinstance(n, ast.Return)]
    ctx.check(bool(rets) and ast.unparse(rets[0].value).replace(" ", "") == "(tf,rf,am)", "TEN-4", f, rets[0] if rets else f.node, "returns (tf, rf, am)", "", "return order changed")
    # ---- inner policy iteration
    pi = E.methods["_policy_iteration"]
    typer = Typer(param_arrays={"tf": "transition_matrix", "rf": "reward_matrix", "am": "action_matrix"})
    check_einsums_in_function(ctx, pi, typer)
    check_elementwise_in_function(ctx, pi, typer)
    ps = {ast.unparse(n.targets[0]): n for n in ast.walk(pi.node) if isinstance(n, ast.Assign) and len(n.targets) == 1}
    v = ps.get("v")
    if v is not None and isinstance(v.value, ast.Call) and ast.unparse(v.value.func) == "np.linalg.solve":
        pA = alg.normalise(v.value.args[0])
        ok = len(pA) == 2 and any(c == -1 and dict(m).get("self.mdp.discount_rate") == 1 and dict(m).get("mp") == 1 for m, c in pA.items()) \
            and any(c == 1 and len(m) == 1 and m[0][0].startswith("np.eye(") for m, c in pA.items())
        ctx.check(ok, "BEL-2", pi, v, "evaluation solves (eye - gamma * P_pi) v = r_pi", alg.show(pA), f"system matrix normalises to `{alg.show(pA)}`")
        ctx.check(ast.unparse(v.value.args[1]) == "s_rf", "BEL-2", pi, v, "right-hand side is the policy's expected reward", "", "right-hand side changed")
    else:
        ctx.violation("BEL-2", pi, pi.node, "policy evaluation by linear solve", "no linear solve")
    qd = [n for n in ast.walk(pi.node) if isinstance(n, ast.Assign) and ast.unparse(n.targets[0]) == "q"]
    if qd:
        t = X.expr(pi, qd[1].value if len(qd) > 1 else qd[0].value)
        ms = monomials(t)
        cl = [classify_monomial(typer, m) for m in ms]
        rew = [c for c in cl if c["R"] and c["T"]]
        fut = [c for c in cl if c["T"] and not c["R"] and c["other"]]
        ctx.check(len(rew) >= 1 and all(c["disc"] == 0 for c in rew), "BEL-2", pi, qd[0], "look-ahead: T*R undiscounted", str(rew), "look-ahead reward term missing or discounted")
        ctx.check(len(fut) >= 1 and all(c["disc"] == 1 for c in fut), "BEL-2", pi, qd[0], "look-ahead: T*gamma*v discounted once", str(fut), "look-ahead future term missing or not discounted exactly once")
    # availability penalty before argmax
    am_calls = [c for c in ast.walk(pi.node) if isinstance(c, ast.Call) and isinstance(c.func, ast.Attribute) and c.func.attr == "argmax"]
    if am_calls:
        recv = am_calls[0].func.value
        p = alg.normalise(recv)
        has_pen = any(len(m) == 1 and m[0][0].replace(" ", "") == "np.log(am)" and c == 1 for m, c in p.items())
        has_q = any(len(m) == 1 and m[0][0] == "q" and c == 1 for m, c in p.items())
        ctx.check(has_pen and has_q and len(p) == 2, "BEL-4", pi, am_calls[0], "improvement: argmax over actions of q + log(availability)", alg.show(p),
                  f"the greedy action is the argmax of `{norm(recv, 70)}`: unavailable actions are not excluded by a -inf penalty, so an unavailable column can be selected")
        ax = kwarg(am_calls[0], "axis")
        ctx.check(ax is not None and ast.unparse(ax) == "1", "BEL-4", pi, am_calls[0], "argmax over the action axis", "", "argmax is not over the action axis")
    else:
        ctx.violation("BEL-4", pi, pi.node, "greedy improvement", "no argmax in the improvement step")
    cv = ps.get("converged")
    ctx.check(cv is not None and ast.unparse(cv.value).replace(" ", "") == "(new_pi==pi).all()", "BEL-5", pi, cv if cv is not None else pi.node, "inner iteration stops on policy stability", "", "inner stop rule changed")
    # ---- dynamic_programming layout
    dp = E.methods["dynamic_programming"]
    dsrc = ast.unparse(dp.node)
    call = calls_named(dp, "_state_nodes_to_matrices")
    rows, cols = (ast.unparse(call[0].args[0]), ast.unparse(call[0].args[1])) if call else (None, None)
    lp = [n for n in fn_body_nodes(dp) if isinstance(n, ast.For) and ast.unparse(n.iter).startswith("enumerate(")]
    ok = bool(lp) and ast.unparse(lp[0].iter) == f"enumerate({rows})"
    ctx.check(ok, "LAY-1", dp, lp[0] if lp else dp.node, "results are read back row by row in the order of the node list that laid out the rows", "", "row order of the read-back differs from the layout")
    zips = [c for c in ast.walk(dp.node) if isinstance(c, ast.Call) and isinstance(c.func, ast.Name) and c.func.id == "zip"]
    ok = bool(zips) and ast.unparse(zips[0].args[0]) == cols and ast.unparse(zips[0].args[1]).replace(" ", "") == "q[si,:]"
    ctx.check(ok, "LAY-1", dp, zips[0] if zips else dp.node, "action values are paired with the action list that laid out the columns", "", "column order of the read-back differs from the layout")
    ok = "optimal_action = max(node.action_order, key=lambda a: action_vals[a])" in dsrc and "node.optimal_action = optimal_action" in dsrc
    ctx.check(ok, "BEL-4", dp, dp.node, "optimal action is chosen among the node's own action order", "", "optimal action is not taken from node.action_order")
    ctx.check("node.value = v[si]" in dsrc, "LAY-1", dp, dp.node, "node value = solved value of its own row", "", "node value is not v[si]")
    ok = "pi, v, q = self._policy_iteration(tf, rf, am)" in dsrc and "tf, rf, am = self._state_nodes_to_matrices(" in dsrc
    ctx.check(ok, "LAY-1", dp, dp.node, "matrices are passed to the inner policy iteration in (tf, rf, am) order", "", "matrix wiring changed")
    # ---- node initialisation
    ini = E.methods["_initialize_node"]
    isrc = ast.unparse(ini.node)
    ok = "sorted(self.mdp.actions(s), key=lambda a: self.rng.random())" in isrc and "action_order = self.mdp.actions(s)" in isrc
    ctx.check(ok, "NODE-1", ini, ini.node, "action order is mdp.actions(s) (optionally shuffled with the graph's generator)", "", "node action order is not derived from mdp.actions(s)")
    ok = "value=self.heuristic(s)" in isrc and "optimal_action=action_order[0]" in isrc and "expanded=False" in isrc
    ctx.check(ok, "NODE-1", ini, ini.node, "new nodes start at the heuristic value with the first action of their own order", "", "node initialisation changed")
    ex = E.methods["expand_at"]
    esrc = ast.unparse(ex.node)
    ok = "for a in node.action_order" in esrc and "self.mdp.next_state_dist(s, a).support" in esrc and "node.action_nextstates[a].append(nextnode.state)" in esrc
    ctx.check(ok, "NODE-1", ex, ex.node, "expansion records the successors of next_state_dist(s, a) for each own action", "", "expansion changed")
    # ---- solution graph
    sg = P.cls("SolutionGraph").methods["__init__"]
    ssrc = ast.unparse(sg.node)
    ok = "nextstates = node.action_nextstates[node.optimal_action]" in ssrc and "for s0 in explicit_graph.initial_states" in ssrc and "self.nonterminal_tip_states.append(node.state)" in ssrc
    ctx.check(ok, "SG-1", sg, sg.node, "solution graph follows each node's optimal action from the initial states; unexpanded nodes are tips", "", "solution-graph traversal changed")
    isol = P.cls("SolutionGraph").methods["is_solved"]
    ctx.check("len(self.nonterminal_tip_states) == 0" in ast.unparse(isol.node), "SG-1", isol, isol.node, "solved = no non-terminal tips", "", "solved predicate changed")
    # ---- planner
    L = P.cls("LAOStar")
    po = L.methods["plan_on"]
    psrc = ast.unparse(po.node)
    ok = "solution_graph = explicit_graph.solution_graph()" in psrc and "converged=solution_graph.is_solved()" in psrc and psrc.index("self._run_lao_star(mdp)") < psrc.index("explicit_graph.solution_graph()")
    ctx.check(ok, "BEL-5", po, po.node, "converged = solved-predicate of the final solution graph", "", "converged is not the solved predicate of the solution graph computed after the search")
    ok = "initial_value=explicit_graph.initial_value()" in psrc and "state_value_map=explicit_graph.state_value_map()" in psrc and "policy=self._create_policy(solution_graph, mdp)" in psrc
    ctx.check(ok, "BEL-6", po, po.node, "reported values / policy come from the final explicit and solution graphs", "", "result wiring changed")
    iv = E.methods["initial_value"]
    acc = [n for n in ast.walk(iv.node) if isinstance(n, ast.AugAssign)]
    lp2 = [n for n in ast.walk(iv.node) if isinstance(n, ast.For)]
    inf2 = items_loop_info(lp2[0]) if lp2 else None
    ok = bool(acc) and inf2 is not None and inf2[1] == "initial_state_dist" and alg.normalise(acc[0].value) == {tuple(sorted(((f"self.states_to_nodes[{inf2[3]}].value", 1), (inf2[4], 1)))): Fraction(1)}
    ctx.check(ok, "BEL-6", iv, acc[0] if acc else iv.node, "initial_value = sum over initial_state_dist of node value * p", "", "initial value is not the initial-distribution expectation of node values")
    run_ = L.methods["_run_lao_star"]
    rsrc = ast.unparse(run_.node)
    brk = [n for n in ast.walk(run_.node) if isinstance(n, ast.If) and any(isinstance(b, ast.Break) for b in n.body)]
    ok = bool(brk) and ast.unparse(brk[0].test) == "solution_graph.is_solved()" and "for i in range(self.max_lao_star_iterations)" in rsrc
    ctx.check(ok, "BEL-5", run_, brk[0] if brk else run_.node, "main loop exits only when the solution graph is solved or at the iteration cap", "", "main loop exit changed")
    ok = "explicit_graph.expand_at(s)" in rsrc and "explicit_graph.revise_value_from(expand_states)" in rsrc and "solution_graph.best_breadth_first_tip_state()" in rsrc
    ctx.check(ok, "BEL-5", run_, run_.node, "each iteration expands a tip of the current solution graph and revises its ancestors", "", "expand/revise step changed")
    # ---- policy closure
    cp = L.methods["_create_policy"]
    cl = list(cp.nested.values())
    if cl:
        pf = cl[0]
        pcfg = cfg_of(pf)
        rets = [n for n in pcfg.nodes if n.kind == "stmt" and isinstance(n.ast, ast.Return)]
        ok = bool(rets) and all(r.ast.value is not None for r in rets) and not [p for p, lab in pcfg.exit.pred if lab != "return"]
        ctx.check(ok, "POL-1", pf, pf.node, "the policy closure returns a distribution on every path", "", "some path of the policy closure falls off the end (returns None)")
        fsrc = ast.unparse(pf.node)
        ok = "for a in mdp.actions(s)" in fsrc and "DictDistribution.uniform(max_actions)" in fsrc and "solution_policy[s]" in fsrc
        ctx.check(ok, "POL-1", pf, pf.node, "planned action where available, else heuristic-greedy over mdp.actions(s)", "", "policy fallback changed")
    csrc = ast.unparse(cp.node)
    ctx.check("solution_policy[s] = DeterministicDistribution(n.optimal_action)" in csrc and "solution_graph.states_to_nodes.items()" in csrc, "POL-1", cp, cp.node,
              "planned actions are the optimal actions of the solution graph's nodes", "", "planned actions are not the solution graph's optimal actions")
    arg_permutation_rule(ctx, G, [x for x in P.all_functions() if x.module.name == "msdm.algorithms.laostar"], "ARG")
    for rr, k in (("TEN-4", 14), ("BND-1", 2), ("BND-2", 1), ("BND-3", 3), ("BND-4", 2), ("TEN-1", 3), ("BEL-2", 4), ("BEL-4", 3), ("BEL-5", 4),
                  ("BEL-6", 2), ("LAY-1", 4), ("NODE-1", 3), ("SG-1", 2), ("POL-1", 3), ("ARG", 3)):
        ctx.require(rr, k)
    ctx.assume("Hansen & Zilberstein 2001: with an admissible heuristic LAO* terminates with an optimal closed policy (theorem about expansion order, not checked)")

"""C20 — built-in domains.  IFC-6 optional parameters, ALG-3 literal distributions (normalisation + key distinctness),
non-empty literal action sets, guarded returns of the plain grid world's transition function, reward form."""
from __future__ import annotations

import ast
from fractions import Fraction
from typing import Dict, List, Optional, Tuple

from .. import alg
from ..cfg import cfg_of
from ..model import FunctionInfo, ClassInfo, AnalysisError
from ..report import Ctx
from ..util import norm, fn_body_nodes, walk_local, kwarg, is_none_test, lexical_guards, atomic_facts
from ..pat import Snips
from .common import names_in

EXPLANATION = (
    "Structural necessary conditions of C20: every constructor parameter of the six domains that defaults to None is normalised "
    "or guarded before it is dereferenced; every distribution literal sums to 1 symbolically and its keys are distinct (by a "
    "dominating guard, by construction, or as a recorded assumption); every other returned distribution is a deterministic / "
    "uniform constructor or a mass-preserving operation on such; every actions() returns a non-empty literal collection; in the "
    "plain grid world a distribution mentioning the moved cell is returned only under in-grid, not-wall and moved guards, the "
    "moved cell is s + a, success probability is the configured parameter, absorbing-feature cells and the terminal state "
    "return the terminal distribution first, reward is step cost + entered cell's feature reward and 0 when either end is "
    "terminal. Layout-quantified closure and normalisation of the windy pipeline, finiteness of user rewards and 'can be "
    "planned on' are not decided.")
RULES = ("IFC-6 None-default parameters are normalised in __init__ or guarded at every dereference; ALG-3 literal distributions: values sum to "
         "1, keys distinct; DIST-1 every return of a *_dist method is a recognised normalised constructor / mass-preserving operation; ACT-1 "
         "non-empty literal action collections; GW-1..4 plain grid world transition guards, moved cell, terminal handling, reward form")

DOMAINS = [("GridWorld", "msdm.domains.gridworld.mdp"), ("WindyGridWorld", None), ("CliffWalking", None), ("Tiger", None), ("LoadUnload", None), ("HeavenOrHell", None)]
DIST_METHODS = ("next_state_dist", "initial_state_dist", "observation_dist")
MASS_PRESERVING = {"marginalize", "chain", "condition", "deterministic", "uniform"}


def rule_optional(ctx: Ctx):
    P = ctx.P
    n = 0
    for cname, _ in DOMAINS:
        ci = P.cls(cname)
        init = ci.methods.get("__init__")
        if init is None:
            continue
        for p in init.param_names:
            d = init.param_default(p)
            if not (isinstance(d, ast.Constant) and d.value is None):
                continue
            n += 1
            # normalised in __init__:  if p is None: p = <non-None>
            norm_ = False
            for st in init.node.body:
                if isinstance(st, ast.If):
                    r = is_none_test(st.test)
                    if r and isinstance(r[0], ast.Name) and r[0].id == p and r[1] and any(
                            isinstance(b, ast.Assign) and isinstance(b.targets[0], ast.Name) and b.targets[0].id == p for b in st.body):
                        norm_ = True
            stored = [a.attr for a in ast.walk(init.node) if isinstance(a, ast.Attribute) and isinstance(a.ctx, ast.Store)
                      and any(isinstance(par, ast.Assign) and par.targets[0] is a and isinstance(par.value, ast.Name) and par.value.id == p
                              for par in ast.walk(init.node) if isinstance(par, ast.Assign))]
            inst = f"{cname}({p}=None)"
            if norm_:
                ctx.passed("IFC-6", init, init.node, inst, "normalised in __init__ before use")
                continue
            if not stored:
                # used only inside __init__: every dereference must be after a guard -> treat unguarded deref as violation
                derefs = [x for x in ast.walk(init.node) if isinstance(x, (ast.Attribute, ast.Subscript)) and isinstance(x.value, ast.Name) and x.value.id == p
                          and isinstance(x.ctx, ast.Load)]
                ctx.check(not derefs, "IFC-6", init, derefs[0] if derefs else init.node, inst, "not dereferenced while None", f"`{norm(derefs[0]) if derefs else ''}` dereferences the parameter although it may be None")
                continue
            attr = stored[0]
            bad = None
            for m in ci.methods.values():
                if m is init:
                    continue
                sn = m.self_name
                for x in ast.walk(m.node):
                    if isinstance(x, ast.Attribute) and isinstance(x.value, ast.Attribute) and x.value.attr == attr and isinstance(x.value.value, ast.Name) \
                            and x.value.value.id == sn and isinstance(x.ctx, ast.Load):
                        guarded = any(is_none_test(t) and ast.unparse(is_none_test(t)[0]) == f"{sn}.{attr}" for t, lab in lexical_guards(m, x))
                        if not guarded:
                            bad = (m, x)
                    if isinstance(x, ast.Subscript) and isinstance(x.value, ast.Attribute) and x.value.attr == attr and isinstance(x.value.value, ast.Name) \
                            and x.value.value.id == sn:
                        bad = bad or (m, x)
            if bad:
                ctx.violation("IFC-6", bad[0], bad[1], inst,
                              f"the default None is stored as self.{attr} and dereferenced as `{norm(bad[1])}` in {bad[0].name} without an `is None` guard: "
                              f"the domain cannot be used with its default arguments")
            else:
                ctx.passed("IFC-6", init, init.node, inst, f"self.{attr} is never dereferenced unguarded")
    return n


def literal_pairs(call: ast.Call) -> Optional[List[Tuple[ast.AST, ast.AST]]]:
    """(key, value) pairs of DictDistribution({k: v, ...}) / DictDistribution(k=v, ...)."""
    if call.args and isinstance(call.args[0], ast.Dict) and all(k is not None for k in call.args[0].keys):
        return list(zip(call.args[0].keys, call.args[0].values))
    if not call.args and call.keywords and all(k.arg for k in call.keywords):
        return [(ast.Constant(value=k.arg), k.value) for k in call.keywords]
    return None


def keys_distinct(fi: FunctionInfo, call: ast.Call, k1: ast.AST, k2: ast.AST) -> Tuple[Optional[bool], str]:
    """True: provably distinct; False: may coincide (no guard); None: assumption."""
    a, b = ast.unparse(k1), ast.unparse(k2)
    if isinstance(k1, ast.Constant) and isinstance(k2, ast.Constant):
        return (k1.value != k2.value, "distinct constants" if k1.value != k2.value else "equal constants")
    # structurally different constructor calls with a differing constant argument
    if isinstance(k1, ast.Call) and isinstance(k2, ast.Call) and ast.unparse(k1.func) == ast.unparse(k2.func):
        ka = {kw.arg: ast.unparse(kw.value) for kw in k1.keywords}
        kb = {kw.arg: ast.unparse(kw.value) for kw in k2.keywords}
        for key in ka:
            va, vb = ka.get(key), kb.get(key)
            if va is not None and vb is not None and va != vb:
                try:
                    ca, cb = ast.literal_eval(va), ast.literal_eval(vb)
                    if ca != cb:
                        return True, f"constructor argument {key} differs ({va} vs {vb})"
                except Exception:
                    pass
    # a guard on the path establishes k1 != k2
    cfg = cfg_of(fi)
    node = cfg.node_for(call)
    if node is not None:
        facts = atomic_facts([(cfg.nodes[bn].ast.test, lab) for bn, lab in cfg.guards(node) if cfg.nodes[bn].kind == "if"])
        if (f"{a} == {b}", False) in facts or (f"{b} == {a}", False) in facts:
            return True, f"path condition `{a} != {b}`"
    # tuple keys (s, r) vs (ns, r): distinct iff first components are
    if isinstance(k1, ast.Tuple) and isinstance(k2, ast.Tuple) and len(k1.elts) == len(k2.elts):
        for e1, e2 in zip(k1.elts, k2.elts):
            if ast.unparse(e1) != ast.unparse(e2):
                r, why = keys_distinct(fi, call, e1, e2)
                if r is not None:
                    return r, why
                return None, why
    # ns defined as a constructor of s's coordinates shifted by a non-zero constant
    for x, y in ((k1, k2), (k2, k1)):
        if isinstance(x, ast.Name) and isinstance(y, ast.Name):
            defs = [n for n in fn_body_nodes(fi) if isinstance(n, ast.Assign) and isinstance(n.targets[0], ast.Name) and n.targets[0].id == y.id]
            if defs and all(isinstance(d.value, ast.Call) and any(
                    isinstance(bo, ast.BinOp) and isinstance(bo.op, (ast.Add, ast.Sub)) and isinstance(bo.right, ast.Constant) and bo.right.value != 0
                    and x.id in names_in(bo.left) for bo in ast.walk(d.value)) for d in defs):
                return True, f"`{y.id}` is `{x.id}` shifted by a non-zero constant"
    if a == b:
        return False, "identical key expressions"
    return None, f"distinctness of `{a}` and `{b}` is an assumption about the model's data"


def rule_literals(ctx: Ctx):
    P = ctx.P
    n = 0
    for cname, _ in DOMAINS:
        ci = P.cls(cname)
        for m in ci.methods.values():
            for c in fn_body_nodes(m):
                if not (isinstance(c, ast.Call) and ast.unparse(c.func) in ("DictDistribution", "Pr")):
                    continue
                pairs = literal_pairs(c)
                if pairs is None or not pairs:
                    continue
                n += 1
                total: alg.Poly = {}
                for _, v in pairs:
                    total = alg.add(total, alg.normalise(v))
                inst = f"{cname}.{m.name}: literal {norm(c, 60)}"
                ctx.check(total == {(): Fraction(1)}, "ALG-3", m, c, inst + " sums to 1", alg.show(total), f"the literal's probabilities sum to `{alg.show(total)}`, not 1")
                for i in range(len(pairs)):
                    for j in range(i + 1, len(pairs)):
                        r, why = keys_distinct(m, c, pairs[i][0], pairs[j][0])
                        inst2 = f"{cname}.{m.name}: keys `{norm(pairs[i][0], 30)}` and `{norm(pairs[j][0], 30)}` are distinct"
                        if r is None:
                            ctx.assume(f"{cname}.{m.name}: {why}")
                            ctx.passed("ALG-3", m, c, inst2, "assumption: " + why)
                        else:
                            ctx.check(r, "ALG-3", m, c, inst2, why,
                                      f"the two keys can coincide ({why}): the dict literal then keeps only the second entry and the distribution loses mass "
                                      f"(`{norm(pairs[i][1], 30)}` is dropped)")
    return n


def rule_returns(ctx: Ctx):
    P = ctx.P
    for cname, _ in DOMAINS:
        ci = P.cls(cname)
        for name in DIST_METHODS:
            owner, m = ci.lookup(name)
            if not isinstance(m, FunctionInfo) or m.is_abstract or m.cls is None or m.cls.name not in [d for d, _ in DOMAINS] + ["GridMDP"]:
                continue
            if m.cls is not ci:
                continue
            for r in [x for x in fn_body_nodes(m) if isinstance(x, ast.Return)]:
                v = r.value
                inst = f"{cname}.{name}: return {norm(v, 50) if v is not None else None}"
                ok: Optional[bool] = None
                if v is None or (isinstance(v, ast.Constant) and v.value is None):
                    ok = False
                elif isinstance(v, ast.Call):
                    f = ast.unparse(v.func)
                    last = f.split(".")[-1]
                    if f in ("DictDistribution", "DeterministicDistribution", "UniformDistribution") or last in MASS_PRESERVING or f.endswith("initial_state_dist"):
                        ok = True
                elif isinstance(v, ast.Name):
                    defs = [n for n in fn_body_nodes(m) if isinstance(n, ast.Assign) and isinstance(n.targets[0], ast.Name) and n.targets[0].id == v.id]
                    if v.id.isupper():
                        ok = True       # module-level constant distribution (TERMINALDIST)
                    elif defs and all(isinstance(d.value, ast.Call) and (ast.unparse(d.value.func) in ("DictDistribution", "DeterministicDistribution", "UniformDistribution")
                                                                       or ast.unparse(d.value.func).split(".")[-1] in MASS_PRESERVING) for d in defs):
                        ok = True
                ctx.check(ok, "DIST-1", m, r, inst, "normalised constructor or mass-preserving operation", "a path returns no distribution")


def rule_actions(ctx: Ctx):
    P = ctx.P
    for cname, _ in DOMAINS:
        ci = P.cls(cname)
        owner, m = ci.lookup("actions")
        if not isinstance(m, FunctionInfo):
            ctx.unknown("ACT-1", next(iter(ci.methods.values())), ci.node, f"{cname}.actions", "not found")
            continue
        rets = [x for x in fn_body_nodes(m) if isinstance(x, ast.Return)]
        ok: Optional[bool] = None
        for r in rets:
            v = r.value
            if isinstance(v, (ast.Tuple, ast.List)):
                ok = len(v.elts) > 0
            elif isinstance(v, ast.ListComp):
                # [a for a in self._actions] : the source list is a literal in __init__
                ok = True if "self._actions" in ast.unparse(v) else None
            elif isinstance(v, ast.Attribute) and v.attr == "action_list":
                lit = ci.class_attrs.get("action_list")
                ok = isinstance(lit, (ast.List, ast.Tuple)) and len(lit.elts) > 0
        ctx.check(ok, "ACT-1", m, rets[0] if rets else m.node, f"{cname}.actions returns a non-empty literal collection", "", f"{cname}.actions can return an empty collection")


def rule_gridworld(ctx: Ctx):
    P = ctx.P
    G = P.cls("gridworld.mdp.GridWorld")
    f = G.methods["next_state_dist"]
    s, a = f.positional_params[1:3]
    body = f.node.body
    tests = [ast.unparse(st.test) for st in body[:2] if isinstance(st, ast.If)]
    ok = tests == [f"self.is_absorbing({s})", f"{s} in self.absorbing_states"] and all(isinstance(st.body[0], ast.Return) and ast.unparse(st.body[0].value) == "TERMINALDIST" for st in body[:2])
    ctx.check(ok, "GW-3", f, body[0], "the terminal state and absorbing-feature cells go to the terminal state first", str(tests), "terminal / absorbing-feature handling does not come first")
    S = Snips(f)
    mv = S.solve([f"x, y = ({s}['x'], {s}['y'])", f"ax, ay = ({a}.get('dx', 0), {a}.get('dy', 0))", "nx, ny = (x + ax, y + ay)", "ns = frozendict({'x': nx, 'y': ny})"])
    ctx.check(mv is not None, "GW-2", f, mv[1][2] if mv else f.node, "moved cell = s + a (component-wise)", "", "the moved cell is not s + a component-wise")
    nsn = mv[0]["ns"] if mv else None
    # guards on every definition of the returned distribution that mentions ns
    cfg = cfg_of(f)
    rets = [n for n in fn_body_nodes(f) if isinstance(n, ast.Return)]
    outs = [r.value.id for r in rets if isinstance(r.value, ast.Name) and r.value.id != "TERMINALDIST"]
    bd = outs[-1] if outs else None
    chain = [n for n in fn_body_nodes(f) if isinstance(n, ast.Assign) and bd is not None and ast.unparse(n.targets[0]) == bd]
    chain = chain + [r for r in rets if not isinstance(r.value, ast.Name) and r.value is not None]      # direct returns are definitions too
    for d in chain:
        if nsn is None:
            break
        if nsn not in names_in(d.value):
            ctx.check(ast.unparse(d.value) == f"DeterministicDistribution({s})", "GW-1", f, d, "blocked moves stay in place", "", f"blocked move yields `{norm(d.value)}`")
            continue
        gs = atomic_facts([(cfg.nodes[b].ast.test, lab.split("|")[0]) for b, lab in cfg.guards(cfg.node_for(d)) if cfg.nodes[b].kind == "if"])
        need = [(f"{nsn} in self._states", True, "inside the grid"), (f"{nsn} in self.walls", False, "not a wall"), (f"{nsn} == {s}", False, "actually moved")]
        for t, lab, what in need:
            if what == "actually moved" and s not in names_in(d.value):
                continue        # a one-point distribution on ns is harmless when ns == s
            ctx.check((t, lab) in gs or (t.replace(f"{nsn} == {s}", f"{s} == {nsn}"), lab) in gs, "GW-1", f, d, f"a distribution over the moved cell is returned only when it is {what}", str(gs),
                      f"`{norm(d.value, 50)}` is reachable without the path condition `{t}` == {lab}: the agent could enter a cell that is not {what}"
                      + (" (for the stay action the literal {s: 1-p, s: p} collapses to mass p)" if what == "actually moved" else ""))
        if isinstance(d.value, ast.Call) and ast.unparse(d.value.func) == "DictDistribution":
            pairs = literal_pairs(d.value)
            ok = pairs is not None and {ast.unparse(k): ast.unparse(v).replace(" ", "") for k, v in pairs} == {s: "1-self.success_prob", nsn: "self.success_prob"}
            ctx.check(ok, "GW-2", f, d, "the move succeeds with exactly the configured success probability", "", f"slip distribution is `{norm(d.value)}`")
    ctx.check(len(chain) >= 1 and all(r.value is not None for r in rets), "GW-1", f, f.node, "every returned distribution is one of the guarded definitions", "", "a path returns no distribution")
    rw = G.methods["reward"]
    rs, ra, rns = rw.positional_params[1:4]
    rb = rw.node.body
    ok = isinstance(rb[0], ast.If) and ast.unparse(rb[0].test).replace(" ", "") == f"self.is_absorbing({rs})orself.is_absorbing({rns})" and ast.unparse(rb[0].body[0]) == "return 0.0"
    ctx.check(ok, "GW-4", rw, rb[0], "reward is 0 when either end of the step is the terminal state", "", "terminal steps are not paid 0")
    last = rb[-1]
    p = alg.normalise(last.value) if isinstance(last, ast.Return) else {}
    SR = Snips(rw)
    ok = SR.solve([f"f = self._locFeatures.get({rns}, '')", "return self._featureRewards.get(f, 0.0) + self.step_cost"]) is not None and len(p) == 2
    ctx.check(ok, "GW-4", rw, last, "reward = step cost + feature reward of the *entered* cell", alg.show(p), f"reward is `{alg.show(p)}` / feature looked up at the wrong cell")
    ab = G.methods["is_absorbing"]
    ctx.check(Snips(ab).has(f"return {ab.positional_params[1]} == TERMINALSTATE"), "GW-3", ab, ab.node, "only the terminal state is absorbing", "", "absorbing predicate changed")


def run(ctx: Ctx):
    rule_optional(ctx)
    rule_literals(ctx)
    rule_returns(ctx)
    rule_actions(ctx)
    rule_gridworld(ctx)
    for rr, k in (("IFC-6", 3), ("ALG-3", 10), ("DIST-1", 12), ("ACT-1", 5), ("GW-1", 6), ("GW-2", 2), ("GW-3", 2), ("GW-4", 2)):
        ctx.require(rr, k)

"""C16 — multichain policy iteration (narrow, structural claim).  IFC-4b result wiring, TEN-1/3, BEL-1/2/4/5."""
from __future__ import annotations

import ast
from typing import Dict, List, Optional

from ..bellman import (check_elementwise_in_function, check_einsums_in_function, check_sinks, monomials, classify_monomial, calls_of, loc_of, is_discount, _mask_name)
from ..callgraph import CallGraph, ext_name
from ..cfg import cfg_of
from ..dag import T, walk, show, deep_inline, simplify
from ..model import FunctionInfo, AnalysisError, dotted
from ..report import Ctx
from ..tensor import Typer
from ..util import arg_texts, arg_nodes, norm, fn_body_nodes, walk_local, kwarg
from .. import alg, pat
from .common import arg_permutation_rule, names_in, calls_named, converged_from_counter

EXPLANATION = (
    "Narrow structural claim for multichain policy iteration: the six returned arrays are wired to the same-named result "
    "tables, einsums are kind-consistent, the absorbing mask is applied to rewards, chain and bias backup, the discount "
    "multiplies the chain and the bias backup once and the gain backup never, the availability penalty is added before both "
    "argmax, the policy is the normalised conjunction of gain- and bias-maximisers, converged derives from the iteration "
    "counter against the cap. Gain/value optimality on convergence is NOT decided: it depends on runtime recurrent-class "
    "detection and a determinant-vs-tolerance rank test (a gamma=0.99 counter-example to the behaviour is known and out of reach).")
RULES = ("IFC-4b tuple positions of the solver's return vs the names they are unpacked to vs the result fields; TEN-1 einsum kinds; "
         "TEN-3 table sinks; BEL-1 masks; BEL-2 discount placement; BEL-4 penalty before argmax and policy construction; BEL-5 converged")


def _assigns(fi, name):
    return [n for n in fn_body_nodes(fi) if isinstance(n, ast.Assign) and any(isinstance(t, ast.Name) and t.id == name for t in n.targets)]


def run(ctx: Ctx):
    P, X = ctx.P, ctx.X
    G = CallGraph(P, X)
    po = P.method("MultichainPolicyIteration", "plan_on")
    sol = P.fn("multichain_policy_iteration_vectorized")
    mdp = po.positional_params[1]
    typer = Typer(param_arrays={"transition_matrix": "transition_matrix", "reward_matrix": "reward_matrix", "action_matrix": "action_matrix",
                                "absorbing_state_vec": "absorbing_state_vec"})
    sst = [n for n in fn_body_nodes(sol) if isinstance(n, ast.stmt)]
    # --- solver: roles of its locals, bound structurally
    rets = [n for n in sst if isinstance(n, ast.Return)]
    if not rets or not isinstance(rets[-1].value, ast.Tuple):
        raise AnalysisError("multichain solver: tuple return vanished")
    ret_names = [ast.unparse(e) for e in rets[-1].value.elts]
    sp, env = pat.first(sol.node, "V_gain, V_bias = (V_gb[:V_n], V_gb[V_n:])", nodes=sst)
    ctx.check(sp is not None, "IFC-4b", sol, sp if sp is not None else sol.node, "gain = first half, bias = second half of the solution", "", "gain/bias halves of the solution vector changed")
    env = env or {}
    loops = [n for n in sst if isinstance(n, ast.For)]
    lvar = ast.unparse(loops[0].target) if loops else None
    sdefs: Dict[str, List[ast.Assign]] = {}
    for n in sst:
        if isinstance(n, ast.Assign) and len(n.targets) == 1 and isinstance(n.targets[0], ast.Name):
            sdefs.setdefault(n.targets[0].id, []).append(n)

    def backup_of(vec):
        out = []
        for k, ds in sdefs.items():
            if len(ds) == 1 and pat.find(ds[0].value, f"np.einsum(ANY, transition_matrix, {vec})"):
                out.append(k)
        return out[0] if len(out) == 1 else None
    gq = backup_of(env["gain"]) if "gain" in env else None
    bq = backup_of(env["bias"]) if "bias" in env else None
    if sp is not None:
        want_ret = [env["gain"], gq, env["bias"], bq, "policy", lvar]
        what = ["gain", "gain backup (action gains)", "bias", "bias backup (action values)", "policy", "loop counter"]
        ctx.check(len(ret_names) == 6, "IFC-4b", sol, rets[-1], "the solver returns six values", str(ret_names), f"solver returns {len(ret_names)} values")
        for i, (r, w_, wh) in enumerate(zip(ret_names, want_ret, what)):
            ctx.check(w_ is not None and r == w_, "IFC-4b", sol, rets[-1], f"solver's return position {i} is the {wh}", r,
                      f"position {i} of the solver's return is `{r}`, not the {wh} `{w_}`")
    # --- plan_on: unpacking by position
    call = calls_named(po, "multichain_policy_iteration_vectorized")
    if not call:
        raise AnalysisError("MultichainPolicyIteration.plan_on: solver call vanished")
    pst = [n for n in fn_body_nodes(po) if isinstance(n, ast.stmt)]
    resn = next((n.targets[0].id for n in pst if isinstance(n, ast.Assign) and n.value is call[0] and isinstance(n.targets[0], ast.Name)), None)
    unp = [n for n in pst if isinstance(n, ast.Assign) and isinstance(n.targets[0], ast.Tuple) and (n.value is call[0] or (resn and ast.unparse(n.value) == resn))]
    if not unp:
        raise AnalysisError("MultichainPolicyIteration.plan_on: result unpacking vanished")
    got = [ast.unparse(e) for e in unp[0].targets[0].elts]
    ctx.check(len(got) == len(ret_names), "IFC-4b", po, unp[0], "unpacks as many values as the solver returns", f"{got} <- {ret_names}", f"solver returns {len(ret_names)} values, {len(got)} are unpacked")
    pos = {g: i for i, g in enumerate(got)}

    CTORS = ("StateTable.from_state_list", "StateActionTable.from_state_action_lists")

    def origin(node):
        """(position of the solver's return that the value of a result field wraps, the table-constructor call, the statement to report at);
        the table may be bound to a name (its last definition in plan_on is taken) or constructed in place in the return."""
        d = None
        if isinstance(node, ast.Name):
            ds = _assigns(po, node.id)
            if not ds:
                return pos.get(node.id), None, None
            d, node = ds[-1], ds[-1].value
        if isinstance(node, ast.Call) and ast.unparse(node.func) in CTORS:
            dat = kwarg(node, "data")
            return (pos.get(dat.id) if isinstance(dat, ast.Name) else None), node, d
        return None, None, None
    r = [n for n in pst if isinstance(n, ast.Return) and isinstance(n.value, ast.Call)]
    if r:
        kwn = arg_nodes(r[0].value)
        kw = {k: ast.unparse(v) for k, v in kwn.items()}
        fields = {"state_gain": (0, "StateTable.from_state_list"), "action_gain": (1, "StateActionTable.from_state_action_lists"),
                  "state_value": (2, "StateTable.from_state_list"), "action_value": (3, "StateActionTable.from_state_action_lists")}
        for fld, (ix, ctor) in fields.items():
            o, tc, d = origin(kwn.get(fld))
            ctx.check(o == ix, "IFC-4b", po, r[0], f"result field {fld} carries position {ix} of the solver's return", f"{kw.get(fld)} <- position {o}",
                      f"result field `{fld}` is `{kw.get(fld)}`, which wraps position {o} of the solver's return, not position {ix}: gain and bias (or state and action arrays) are crossed")
            ok = tc is not None and ast.unparse(tc.func) == ctor and pat.m(f"{mdp}.state_list", kwarg(tc, "state_list"), fn=po.node) is not None \
                and (ctor == "StateTable.from_state_list" or pat.m(f"{mdp}.action_list", kwarg(tc, "action_list"), fn=po.node) is not None)
            ctx.check(ok, "TEN-3", po, d if d is not None else r[0], f"table for {fld} is laid out over the MDP's own state/action lists", "", f"table for `{fld}` is not built over {mdp}.state_list / {mdp}.action_list")
        itn = kw.get("iterations")
        ctx.check(pos.get(itn) == 5, "IFC-4b", po, r[0], "result field iterations carries the solver's loop counter", f"{itn}", f"`iterations` is `{itn}`, not position 5 of the solver's return")
        for fld, tab in (("initial_gain", "state_gain"), ("initial_value", "state_value")):
            e_ = pat.m(f"sum(V_t[V_s] * V_p for V_s, V_p in {mdp}.initial_state_dist().items())", kwn.get(fld)) or \
                pat.m(f"sum([V_t[V_s] * V_p for V_s, V_p in {mdp}.initial_state_dist().items()])", kwn.get(fld))
            ctx.check(e_ is not None and e_["t"] == kw.get(tab), "IFC-4b", po, r[0], f"{fld} = expectation of the reported {tab} over initial_state_dist", "", f"{fld} is `{kw.get(fld)}`")
        cvn = kwn.get("converged")
        ctx.check(bool(converged_from_counter(cvn, itn, "self.max_iterations")) if cvn is not None and itn else False, "BEL-5", po, r[0], "converged = iterations < max_iterations - 1", kw.get("converged", ""),
                  f"converged is `{kw.get('converged')}`: `iterations` is the 0-based index of the last pass, so this is true even when the iteration budget was exhausted")
        # policy
        # The rule is stated on the VALUES (the table's data, the conjunction's two operands, the second argument of isclose); whether any of
        # them is named by a temporary or written in place is free: patterns are matched definition-transparently (fn=po.node).
        pnode = kwn.get("policy")
        pn = kw.get("policy")
        pd = _assigns(po, pn)[-1] if isinstance(pnode, ast.Name) and _assigns(po, pn) else None
        pval = pd.value if pd is not None else pnode
        e_ = pat.m(f"TabularPolicy.from_state_action_lists(state_list={mdp}.state_list, action_list={mdp}.action_list, data=V_pm)", pval, fn=po.node)
        ctx.check(e_ is not None, "BEL-4", po, pd if pd is not None else r[0], "policy table laid out over the MDP's state/action lists", "", "policy table is not built over the MDP's lists")
        if e_:
            pm = e_["pm"]
            c1 = pat.find(po.node, f"{pm} = E_gm & E_bm", nodes=pst)
            c2 = pat.find(po.node, f"{pm} = {pm} / {pm}.sum(-1, keepdims=True)", nodes=pst)
            ok = bool(c1) and bool(c2) and c1[0][0].lineno < c2[0][0].lineno
            ctx.check(ok, "BEL-4", po, c1[0][0] if c1 else po.node, "policy = normalised (gain maximisers AND bias maximisers)", "", "policy is not the normalised conjunction of gain- and bias-maximising actions")
            if c1:
                srcs = set()
                for mv in (c1[0][1]["gm"], c1[0][1]["bm"]):
                    # operand of the conjunction: a named maximiser set (its last definition) or the isclose(...) expression itself
                    d = _assigns(po, mv.id) if isinstance(mv, ast.Name) else []
                    e2 = pat.m("np.isclose(V_x, V_x.max(-1, keepdims=True), REST=ANY)", d[-1].value if d else mv, fn=po.node)
                    ctx.check(e2 is not None and pos.get(e2["x"]) in (1, 3), "BEL-4", po, d[-1] if d else c1[0][0], "a maximiser set = maximisers over the action axis of an action array of the solver", "", f"maximiser set `{pat.txt(mv)}` changed")
                    if e2:
                        srcs.add(pos.get(e2["x"]))
                        # (written after seed C16-b) the tie test is absolute: rtol=0, so that it does not widen with the magnitude of the values
                        icall = d[-1].value if d else mv
                        while isinstance(icall, ast.Name) and icall.id in pat.fn_defs(po.node):
                            icall = pat.fn_defs(po.node)[icall.id]
                        rt = kwarg(icall, "rtol") if isinstance(icall, ast.Call) else None
                        ctx.check(isinstance(rt, ast.Constant) and rt.value == 0, "BEL-4", po, icall, "maximiser ties are decided with an absolute tolerance (rtol=0)", "",
                                  "np.isclose keeps its default relative tolerance: for large gains / values actions that are not maximisers are admitted to the policy")
                ctx.check(srcs == {1, 3}, "BEL-4", po, c1[0][0], "one maximiser set is of the action gains, the other of the action values", str(srcs), "the two maximiser sets are not those of action gain and action bias")
    # kwargs forwarded to the solver
    kw = arg_texts(call[0])
    want = {"transition_matrix": f"{mdp}.transition_matrix", "absorbing_state_vec": f"{mdp}.absorbing_state_vec.astype(bool)", "discount_rate": f"{mdp}.discount_rate",
            "reward_matrix": f"{mdp}.reward_matrix", "action_matrix": f"{mdp}.action_matrix.astype(bool)", "max_iterations": "self.max_iterations"}
    for k, v in want.items():
        ctx.check(kw.get(k) == v, "IFC-4b", po, call[0], f"solver gets {k}={v}", "", f"solver's `{k}` is `{kw.get(k)}`")
    # --- einsums
    check_einsums_in_function(ctx, sol, typer)
    check_elementwise_in_function(ctx, sol, typer)
    # --- expected reward, penalty, chain, masks
    sar, e_ = pat.first(sol.node, "V_sarf = np.einsum(E_spec, transition_matrix, reward_matrix)", nodes=sst)
    if sar is None:
        sar, e_ = pat.first(sol.node, "V_sarf = np.einsum(E_spec, reward_matrix, transition_matrix)", nodes=sst)
    ok = sar is not None and isinstance(e_["spec"], ast.Constant) and str(e_["spec"].value).replace(" ", "") == "san,san->sa"
    ctx.check(ok, "BEL-2", sol, sar if sar is not None else sol.node, "expected reward = sum over successors of T*R", "", "expected reward contraction changed")
    sarf = e_["sarf"] if e_ else None
    pen, e_ = pat.first(sol.node, "V_pen = np.log(action_matrix)", nodes=sst)
    ctx.check(pen is not None, "BEL-4", sol, pen if pen is not None else sol.node, "penalty = log(action_matrix)", "", "availability penalty is not log(action_matrix)")
    penn = e_["pen"] if e_ else None
    mpd, e_ = pat.first(sol.node, "V_mp = discount_rate * transition_matrix[V_r, policy]", nodes=sst)
    if mpd is None:
        cand = [n for n, _ in pat.find(sol.node, "V_mp = E_x", nodes=sst) if pat.find(n.value, "transition_matrix[ANY, policy]")]
        ctx.violation("BEL-2", sol, cand[0] if cand else sol.node, "policy chain = gamma * T[s, policy(s)]", f"policy chain is `{ast.unparse(cand[0].value) if cand else None}`")
    else:
        ctx.passed("BEL-2", sol, mpd, "policy chain = gamma * T[s, policy(s)]")
    mpn = e_["mp"] if e_ else (cand[0].targets[0].id if mpd is None and cand else None)
    masked = {}
    for tgt, what in ((sarf, "expected rewards of absorbing states are zeroed"), (mpn, "chain rows of absorbing states are zeroed"), (bq, "bias action values of absorbing states are zeroed")):
        n = pat.first(sol.node, f"{tgt}[absorbing_state_vec] = 0", nodes=sst)[0] if tgt else None
        masked[tgt] = n
        ctx.check(n is not None, "BEL-1", sol, n if n is not None else sol.node, what, "", f"`{tgt}[absorbing_state_vec] = 0` is missing")
    cfg = cfg_of(sol)
    blk = [n for n, _ in pat.find(sol.node, "V_cb = np.block(ANY)", nodes=sst)]
    if masked.get(mpn) is not None and blk:
        ctx.check(cfg.dominates(cfg.node_for(masked[mpn]), cfg.node_for(blk[0])), "BEL-1", sol, masked[mpn], "chain mask precedes the evaluation equations", "", "the evaluation equations are assembled before absorbing rows are removed")
        ctx.check(bool(pat.find(blk[0].value, f"{mpn} - ANY")), "BEL-1", sol, blk[0], "the evaluation equations use the masked chain", "", "the evaluation equations are not built from the masked policy chain")
    # --- backups
    gqd = sdefs[gq][0] if gq else None
    ok = gqd is not None and "discount_rate" not in names_in(gqd.value) and penn is not None and penn in names_in(gqd.value)
    ctx.check(ok, "BEL-2", sol, gqd if gqd is not None else sol.node, "gain backup = T.gain + penalty (undiscounted)", "", f"gain backup is `{ast.unparse(gqd.value) if gqd is not None else None}`")
    bqd = sdefs[bq][0] if bq else None
    if bqd is not None:
        t = X.expr(sol, bqd.value)
        ms = monomials(t)
        fut = [m for m in ms if classify_monomial(typer, m)["T"] and classify_monomial(typer, m)["other"] and len(m) >= 2 and not any(typer.base_array(a) == "reward_matrix" for a in m)]
        for m in fut[:1]:
            d = classify_monomial(typer, m)["disc"]
            ctx.check(d == 1, "BEL-2", sol, bqd, "bias backup: future term discounted exactly once", f"degree {d}", f"bias backup carries the discount rate {d} time(s) on the future term")
        rew = [m for m in ms if any(typer.base_array(a) == "reward_matrix" for a in m)]
        for m in rew[:1]:
            ctx.check(classify_monomial(typer, m)["disc"] == 0, "BEL-2", sol, bqd, "bias backup: reward term undiscounted", "", "reward term of the bias backup is discounted")
        ctx.check(penn is not None and penn in names_in(bqd.value), "BEL-4", sol, bqd, "bias backup carries the availability penalty", "", "availability penalty missing from the bias backup")
        ctx.check(sarf is not None and sarf in names_in(bqd.value), "BEL-2", sol, bqd, "bias backup includes the expected reward", "", "expected reward missing from the bias backup")
    else:
        ctx.violation("BEL-2", sol, sol.node, "bias backup", "no backup of the bias vector through the transition matrix is computed")
    # argmax over the action axis of the penalised backups
    for v in (gq, bq):
        am = pat.find(sol.node, f"V_np = np.argmax({v}, axis=-1)", nodes=sst) if v else []
        ctx.check(bool(am), "BEL-4", sol, am[0][0] if am else sol.node, f"improvement step: argmax of the backup over the action axis", "", f"no argmax over actions of `{v}`")
    asserts = [a for a in sst if isinstance(a, ast.Assert)]
    ctx.check(any(pat.find(a.test, "action_matrix[~absorbing_state_vec].any(-1).all()") for a in asserts), "BEL-4", sol, sol.node, "dead ends are rejected (every non-absorbing state has an action)", "", "dead-end assertion removed")
    arg_permutation_rule(ctx, G, [x for x in P.all_functions() if x.module.name == "msdm.algorithms.multichainpolicyiteration"], "ARG")
    for rr, k in (("IFC-4b", 20), ("TEN-1", 3), ("TEN-3", 4), ("BEL-1", 4), ("BEL-2", 5), ("BEL-4", 8), ("BEL-5", 1)):
        ctx.require(rr, k)
    ctx.assume("gain/value optimality on convergence (Puterman 9.2) given exact recurrent-class detection and rank decisions — NOT checked")

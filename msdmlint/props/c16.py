"""C16 — multichain policy iteration (narrow, structural claim).  IFC-4b result wiring, TEN-1/3, BEL-1/2/4/5."""
from __future__ import annotations

import ast
from typing import Dict, List, Optional

from ..bellman import (check_elementwise_in_function, check_einsums_in_function, check_sinks, monomials, classify_monomial, calls_of, loc_of, is_discount, _mask_name)
from ..callgraph import CallGraph, ext_name
from ..cfg import cfg_of
from ..dag import T, walk, show, deep_inline, simplify
from ..model import FunctionInfo, AnalysisError, dotted
from ..report import Ctx
from ..tensor import Typer
from ..util import norm, fn_body_nodes, walk_local, kwarg
from .common import arg_permutation_rule, names_in, calls_named

EXPLANATION = (
    "Narrow structural claim for multichain policy iteration: the six returned arrays are wired to the same-named result "
    "tables, einsums are kind-consistent, the absorbing mask is applied to rewards, chain and bias backup, the discount "
    "multiplies the chain and the bias backup once and the gain backup never, the availability penalty is added before both "
    "argmax, the policy is the normalised conjunction of gain- and bias-maximisers, converged derives from the iteration "
    "counter against the cap. Gain/value optimality on convergence is NOT decided: it depends on runtime recurrent-class "
    "detection and a determinant-vs-tolerance rank test (a gamma=0.99 counter-example to the behaviour is known and out of reach).")
RULES = ("IFC-4b tuple positions of the solver's return vs the names they are unpacked to vs the result fields; TEN-1 einsum kinds; "
         "TEN-3 table sinks; BEL-1 masks; BEL-2 discount placement; BEL-4 penalty before argmax and policy construction; BEL-5 converged")


def run(ctx: Ctx):
    P, X = ctx.P, ctx.X
    G = CallGraph(P, X)
    po = P.method("MultichainPolicyIteration", "plan_on")
    sol = P.fn("multichain_policy_iteration_vectorized")
    typer = Typer(param_arrays={"transition_matrix": "transition_matrix", "reward_matrix": "reward_matrix", "action_matrix": "action_matrix",
                                "absorbing_state_vec": "absorbing_state_vec"})
    # --- IFC-4b wiring
    rets = [n for n in fn_body_nodes(sol) if isinstance(n, ast.Return)]
    if not rets or not isinstance(rets[-1].value, ast.Tuple):
        raise AnalysisError("multichain solver: tuple return vanished")
    ret_names = [ast.unparse(e) for e in rets[-1].value.elts]
    unp = [n for n in fn_body_nodes(po) if isinstance(n, ast.Assign) and isinstance(n.targets[0], ast.Tuple) and ast.unparse(n.value) == "results"]
    if not unp:
        raise AnalysisError("MultichainPolicyIteration.plan_on: result unpacking vanished")
    got = [ast.unparse(e) for e in unp[0].targets[0].elts]
    want_map = {"gain": "state_gain", "gain_q": "action_gain", "bias": "state_bias", "bias_q": "action_bias", "i": "iterations"}
    ctx.check(len(got) == len(ret_names), "IFC-4b", po, unp[0], "unpacks as many values as the solver returns", f"{got} <- {ret_names}", f"solver returns {len(ret_names)} values, {len(got)} are unpacked")
    for r, g in zip(ret_names, got):
        if r in want_map:
            ctx.check(g == want_map[r], "IFC-4b", po, unp[0], f"solver's `{r}` is unpacked as `{want_map[r]}`", "",
                      f"the solver returns `{r}` at this position but plan_on names it `{g}`: gain and bias (or state and action arrays) are crossed")
    # solver's own names: gain/bias come from the solved vector halves, *_q from the matching backup
    src = ast.unparse(sol.node)
    ctx.check("gain, bias = (gain_bias[:n_states], gain_bias[n_states:])" in src, "IFC-4b", sol, sol.node, "gain = first half, bias = second half of the solution", "", "gain/bias halves of the solution vector changed")
    # result fields
    r = [n for n in fn_body_nodes(po) if isinstance(n, ast.Return) and isinstance(n.value, ast.Call)]
    if r:
        kw = {k.arg: ast.unparse(k.value) for k in r[0].value.keywords}
        pairs = {"state_gain": "state_gain", "action_gain": "action_gain", "state_value": "state_bias", "action_value": "action_bias", "iterations": "iterations", "policy": "policy"}
        for fld, var in pairs.items():
            ctx.check(kw.get(fld) == var, "IFC-4b", po, r[0], f"result field {fld} = {var}", "", f"result field `{fld}` is `{kw.get(fld)}`")
        ctx.check(kw.get("initial_gain", "").replace(" ", "") == "sum((state_gain[s]*pfors,pinmdp.initial_state_dist().items()))", "IFC-4b", po, r[0],
                  "initial_gain = expectation of the reported state_gain over initial_state_dist", "", f"initial_gain is `{kw.get('initial_gain')}`")
        ctx.check(kw.get("initial_value", "").replace(" ", "") == "sum((state_bias[s]*pfors,pinmdp.initial_state_dist().items()))", "IFC-4b", po, r[0],
                  "initial_value = expectation of the reported state_value over initial_state_dist", "", f"initial_value is `{kw.get('initial_value')}`")
        cv = kw.get("converged", "")
        from .common import converged_from_counter
        cvn = next((k.value for k in r[0].value.keywords if k.arg == "converged"), None)
        ctx.check(converged_from_counter(cvn, "iterations", "self.max_iterations") if cvn is not None else False, "BEL-5", po, r[0], "converged = iterations < max_iterations - 1", cv,
                  f"converged is `{cv}`: `iterations` is the 0-based index of the last pass, so this is true even when the iteration budget was exhausted")
    # tables
    for var, ctor in (("state_gain", "StateTable.from_state_list"), ("action_gain", "StateActionTable.from_state_action_lists"),
                      ("state_bias", "StateTable.from_state_list"), ("action_bias", "StateActionTable.from_state_action_lists")):
        d = [n for n in fn_body_nodes(po) if isinstance(n, ast.Assign) and ast.unparse(n.targets[0]) == var and isinstance(n.value, ast.Call) and ast.unparse(n.value.func) == ctor]
        ok = bool(d) and ast.unparse(kwarg(d[0].value, "data")) == var and ast.unparse(kwarg(d[0].value, "state_list")) == "mdp.state_list"
        ctx.check(ok, "TEN-3", po, d[0] if d else po.node, f"table {var} wraps the array {var} over mdp.state_list", "", f"table `{var}` is not built from the array of the same name over the MDP's lists")
    # kwargs forwarded to the solver
    call = calls_named(po, "multichain_policy_iteration_vectorized")
    if call:
        kw = {k.arg: ast.unparse(k.value) for k in call[0].keywords}
        want = {"transition_matrix": "mdp.transition_matrix", "absorbing_state_vec": "mdp.absorbing_state_vec.astype(bool)", "discount_rate": "mdp.discount_rate",
                "reward_matrix": "mdp.reward_matrix", "action_matrix": "mdp.action_matrix.astype(bool)", "max_iterations": "self.max_iterations"}
        for k, v in want.items():
            ctx.check(kw.get(k) == v, "IFC-4b", po, call[0], f"solver gets {k}={v}", "", f"solver's `{k}` is `{kw.get(k)}`")
    # --- einsums
    check_einsums_in_function(ctx, sol, typer)
    check_elementwise_in_function(ctx, sol, typer)
    # --- masks
    stores = {ast.unparse(n.targets[0]): n for n in fn_body_nodes(sol) if isinstance(n, ast.Assign) and isinstance(n.targets[0], ast.Subscript)}
    for tgt, what in (("sa_rf[absorbing_state_vec]", "expected rewards of absorbing states are zeroed"),
                      ("mp[absorbing_state_vec]", "chain rows of absorbing states are zeroed"),
                      ("bias_q[absorbing_state_vec]", "bias action values of absorbing states are zeroed")):
        n = stores.get(tgt)
        ok = n is not None and isinstance(n.value, ast.Constant) and n.value.value == 0
        ctx.check(ok, "BEL-1", sol, n if n is not None else sol.node, what, "", f"`{tgt} = 0` is missing")
    cfg = cfg_of(sol)
    mpn = stores.get("mp[absorbing_state_vec]")
    blk = [n for n in fn_body_nodes(sol) if isinstance(n, ast.Assign) and ast.unparse(n.targets[0]) == "coeff_block" and "np.block" in ast.unparse(n.value)]
    if mpn is not None and blk:
        ctx.check(cfg.dominates(cfg.node_for(mpn), cfg.node_for(blk[0])), "BEL-1", sol, mpn, "chain mask precedes the evaluation equations", "", "the evaluation equations are assembled before absorbing rows are removed")
    # --- discount placement (AST-level normal forms)
    defs = {ast.unparse(n.targets[0]): n for n in fn_body_nodes(sol) if isinstance(n, ast.Assign) and isinstance(n.targets[0], ast.Name)}
    mp = defs.get("mp")
    ok = mp is not None and ast.unparse(mp.value).replace(" ", "") == "discount_rate*transition_matrix[ss_range,policy]"
    ctx.check(ok, "BEL-2", sol, mp if mp is not None else sol.node, "policy chain = gamma * T[s, policy(s)]", "", f"policy chain is `{ast.unparse(mp.value) if mp is not None else None}`")
    gq = defs.get("gain_q")
    ok = gq is not None and "discount_rate" not in ast.unparse(gq.value) and "action_penalty" in ast.unparse(gq.value) and "gain" in names_in(gq.value)
    ctx.check(ok, "BEL-2", sol, gq if gq is not None else sol.node, "gain backup = T.gain + penalty (undiscounted)", "", f"gain backup is `{ast.unparse(gq.value) if gq is not None else None}`")
    bq = defs.get("bias_q")
    if bq is not None:
        t = X.expr(sol, bq.value)
        ms = monomials(t)
        fut = [m for m in ms if classify_monomial(typer, m)["T"] and not classify_monomial(typer, m)["R"] and any(a.op != "param" or a.args[1] != "transition_matrix" for a in m)]
        fut = [m for m in ms if classify_monomial(typer, m)["T"] and classify_monomial(typer, m)["other"] and len(m) >= 2 and not any(typer.base_array(a) == "reward_matrix" for a in m)]
        for m in fut[:1]:
            d = classify_monomial(typer, m)["disc"]
            ctx.check(d == 1, "BEL-2", sol, bq, "bias backup: future term discounted exactly once", f"degree {d}", f"bias backup carries the discount rate {d} time(s) on the future term")
        rew = [m for m in ms if any(typer.base_array(a) == "reward_matrix" for a in m)]
        for m in rew[:1]:
            ctx.check(classify_monomial(typer, m)["disc"] == 0, "BEL-2", sol, bq, "bias backup: reward term undiscounted", "", "reward term of the bias backup is discounted")
        ctx.check("action_penalty" in ast.unparse(bq.value), "BEL-4", sol, bq, "bias backup carries the availability penalty", "", "availability penalty missing from the bias backup")
    else:
        ctx.violation("BEL-2", sol, sol.node, "bias backup", "bias_q not computed")
    pen = defs.get("action_penalty")
    ctx.check(pen is not None and ast.unparse(pen.value) == "np.log(action_matrix)", "BEL-4", sol, pen if pen is not None else sol.node, "penalty = log(action_matrix)", "", "availability penalty is not log(action_matrix)")
    sar = defs.get("sa_rf")
    ok = sar is not None and isinstance(sar.value, ast.Call) and sar.value.args and getattr(sar.value.args[0], "value", "") .replace(" ", "") == "san,san->sa"
    ctx.check(ok, "BEL-2", sol, sar if sar is not None else sol.node, "expected reward = sum over successors of T*R", "", "expected reward contraction changed")
    # argmax over the action axis of the penalised backups
    for v in ("gain_q", "bias_q"):
        am = [n for n in fn_body_nodes(sol) if isinstance(n, ast.Assign) and isinstance(n.value, ast.Call) and ast.unparse(n.value.func) == "np.argmax"
              and ast.unparse(n.value.args[0]) == v]
        ok = bool(am) and ast.unparse(kwarg(am[0].value, "axis")) == "-1"
        ctx.check(ok, "BEL-4", sol, am[0] if am else sol.node, f"improvement step: argmax of {v} over the action axis", "", f"no argmax over actions of {v}")
    # policy in plan_on
    src = ast.unparse(po.node)
    ok = "policy_matrix = gain_max_actions & bias_max_actions" in src and "policy_matrix = policy_matrix / policy_matrix.sum(-1, keepdims=True)" in src
    ctx.check(ok, "BEL-4", po, po.node, "policy = normalised (gain maximisers AND bias maximisers)", "", "policy is not the normalised conjunction of gain- and bias-maximising actions")
    for v in ("action_gain", "action_bias"):
        ok = f"np.isclose({v}, {v}.max(-1, keepdims=True)" in src
        ctx.check(ok, "BEL-4", po, po.node, f"maximisers of {v} over the action axis", "", f"maximiser set of {v} changed")
    asserts = [a for a in fn_body_nodes(sol) if isinstance(a, ast.Assert)]
    ctx.check(any("any(-1).all()" in ast.unparse(a.test) for a in asserts), "BEL-4", sol, sol.node, "dead ends are rejected (every non-absorbing state has an action)", "", "dead-end assertion removed")
    arg_permutation_rule(ctx, G, [x for x in P.all_functions() if x.module.name == "msdm.algorithms.multichainpolicyiteration"], "ARG")
    for rr, k in (("IFC-4b", 20), ("TEN-1", 3), ("TEN-3", 4), ("BEL-1", 4), ("BEL-2", 5), ("BEL-4", 8), ("BEL-5", 1)):
        ctx.require(rr, k)
    ctx.assume("gain/value optimality on convergence (Puterman 9.2) given exact recurrent-class detection and rank decisions — NOT checked")

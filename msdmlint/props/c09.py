"""C09 — finite-state controllers.  Evaluator typing / Bellman form (absorbing mask: known finding), controller execution
(conditional must-read: known finding), roll-out protocol, freshness typestate of the learners' value tables, validity."""
from __future__ import annotations

import ast
from typing import Dict, List, Optional

from ..bellman import check_einsums_in_function, check_einsums, monomials, classify_monomial, calls_of, loc_of, is_discount
from ..callgraph import CallGraph, ext_name
from ..cfg import cfg_of
from ..dag import T, walk, show, deep_inline, simplify
from ..model import FunctionInfo, AnalysisError, dotted
from ..report import Ctx
from ..tensor import Typer, MODEL_ARRAYS
from ..util import ordered_args, norm, fn_body_nodes, walk_local, kwarg
from .common import arg_permutation_rule, names_in, calls_named
from .. import pat

EXPLANATION = (
    "Evaluator: einsum axis roles of the cross-product chain (node roles N/N'), I - gamma*T_mu system, C_mu = pi R^T, and the "
    "Bellman-ingredient rule that an episode-ending absorbing mask must reach chain and reward (violated on the pinned tree: "
    "known finding). Execution: the action mixture reads node distribution and action strategy; because the agent state is a "
    "distribution over nodes the node update must condition on the action taken, i.e. read the action strategy (violated: known "
    "finding). Roll-out loop: simulation protocol. Learners: the reported value table is fresh with respect to the last controller "
    "write (typestate), reported value wiring, strategies normalised by construction. Monotone improvement (LP solutions) and "
    "roll-out statistics are not decided.")
RULES = ("TEN-1 einsum kinds incl. node roles; BEL-2 system matrix I - gamma*T_mu and reward C_mu; BEL-1 absorbing mask reaches chain and "
         "reward; INIT-1 value at the initial node/state distributions; EXEC-1 action mixture; EXEC-2 node update conditions on the action "
         "taken (conditional must-read); IDX-1 strategy axes indexed by the matching index; SIM-* roll-out protocol; CFG-3 value table "
         "fresh w.r.t. controller writes; WIRE-1 reported value / controller wiring; VALID-1 strategies normalised by construction")


def _single(S: "pat.Snips", v) -> bool:
    """the role `v` of a solved pattern denotes ONE value: either the code wrote the expression in place (pat.Virtual: the occurrence is its
    own and only definition) or it is a local with exactly one store in the whole function."""
    return isinstance(v, pat.Virtual) or (isinstance(v, str) and v in S.defs)


def _resolve(S: "pat.Snips", node: Optional[ast.AST]) -> Optional[ast.AST]:
    """`node`, or the defining expression when it is a single-assignment temporary (followed transitively)."""
    seen = set()
    while isinstance(node, ast.Name) and node.id in S.defs and node.id not in seen:
        seen.add(node.id)
        node = S.defs[node.id]
    return node


def _mentions_attr(S: "pat.Snips", node: Optional[ast.AST], attr: str, depth: int = 6) -> bool:
    """an attribute `.attr` is read by `node` or by the (single) definitions of the temporaries it is made of."""
    if node is None or depth < 0:
        return False
    for x in ast.walk(node):
        if isinstance(x, ast.Attribute) and x.attr == attr:
            return True
        if isinstance(x, ast.Name) and x.id in S.defs and S.defs[x.id] is not node and _mentions_attr(S, S.defs[x.id], attr, depth - 1):
            return True
    return False


def _returned_calls(S: "pat.Snips", fi: FunctionInfo) -> List[ast.Return]:
    """the return statements of fi's own body whose value is a call, possibly through a temporary."""
    return [n for n in fn_body_nodes(fi) if isinstance(n, ast.Return) and isinstance(_resolve(S, n.value), ast.Call)]


class _ToRoles(ast.NodeTransformer):
    def __init__(self, inv):
        self.inv = inv

    def visit_Name(self, node):
        if node.id in self.inv:
            return ast.copy_location(ast.Name(id="<" + self.inv[node.id] + ">", ctx=node.ctx), node)
        return node

    def visit_arg(self, node):
        if node.arg in self.inv:
            return ast.copy_location(ast.arg(arg="<" + self.inv[node.arg] + ">", annotation=None), node)
        return node


def _roles(node: Optional[ast.AST], env: Dict[str, object], width: int = 90) -> str:
    """source of `node` with every bound local replaced by <its role>, so that reports do not depend on the spelling of locals."""
    if node is None:
        return "None"
    inv = {v: k for k, v in env.items() if isinstance(v, str) and v.isidentifier()}
    import copy
    t = " ".join(ast.unparse(_ToRoles(inv).visit(copy.deepcopy(node))).split())
    return t if len(t) <= width else t[:width - 3] + "..."


def rule_evaluator(ctx: Ctx):
    P, X = ctx.P, ctx.X
    f = P.fn("stochastic_fsc_policy_evaluation_exact")
    S = pat.Snips(f)
    typer = Typer(param_roles={"fsc_action": ("N", "A"), "fsc_state": ("N", "A", "O", "N2"), "fsc_initial_state": ("N",)})
    n = check_einsums_in_function(ctx, f, typer)
    # the cross-product einsum binds exactly the expected operands
    es = [c for c in fn_body_nodes(f) if isinstance(c, ast.Call) and ast.unparse(c.func) == "torch.einsum"]
    # the chain is the einsum that combines four operands (a helper contraction may precede it)
    es = sorted(es, key=lambda c: -len(c.args))
    if es:
        # operands: the two strategies are parameters; T / O are the tensors of the POMDP's transition / observation matrix, named by a
        # (single-assignment) local or written in place
        tenv: Dict[str, object] = {}
        for role, pattern in (("T", "T = torch.tensor(pomdp.transition_matrix, REST=ANY)"), ("O", "O = torch.tensor(pomdp.observation_matrix, REST=ANY)")):
            hits = S.find(pattern)
            if len({pat.txt(h[1][role]) for h in hits}) == 1 and _single(S, hits[0][1][role]):
                tenv[role] = hits[0][1][role]
        ok = len(tenv) == 2 and S.m("torch.einsum(ANY, fsc_action, T, O, fsc_state)", es[0], tenv) is not None
        ops = [_roles(a, tenv) for a in es[0].args[1:]]
        ctx.check(ok, "TEN-1", f, es[0], "chain einsum contracts (action strategy, T, O, node strategy)", str(ops),
                  f"chain is built from {ops} (<T>/<O>: the tensor of pomdp.transition_matrix / pomdp.observation_matrix)")
        spec_node = _resolve(S, es[0].args[0])
        spec = spec_node.value.replace(" ", "")
        ins, out = spec.split("->")
        subs = ins.split(",")
        # output pairs (node, state) -> (next node, next state)
        if len(subs) == 4 and len(subs[0]) == 2 and len(subs[1]) == 3 and subs[3]:
            n_, a_ = subs[0]
            s_, _, t_ = subs[1]
            m_ = subs[3][-1]
            ok = out == n_ + s_ + m_ + t_
        else:
            n_ = s_ = m_ = t_ = "?"
            ok = False
        ctx.check(ok, "TEN-1", f, es[0], "chain output is indexed (node, state, next node, next state)", out,
                  f"chain output '{out}' is not (node, state, next node, next state) = '{n_ + s_ + m_ + t_}': the flattened cross-product chain would be transposed")
    term = simplify(X.returns(f))
    invs = [x for x in walk(term) if x.op == "call" and x.args[0].op == "attr" and x.args[0].args[1] == "inverse"]
    if not invs:
        ctx.violation("BEL-2", f, f.node, "evaluator: fundamental equation solved by an inverse", "no inverse reaches the result")
        return
    A = invs[0].args[0].args[0]
    ifi, inode = loc_of(invs[0], f)
    ms = monomials(A)
    eye = [m for m in ms if classify_monomial(typer, m)["eye"]]
    ctx.check(bool(eye), "BEL-2", ifi, inode, "evaluator: system matrix has the identity term", "", "no identity term in the system matrix")
    chain = [m for m in ms if classify_monomial(typer, m)["T"]]
    for m in chain[:1]:
        d = classify_monomial(typer, m)["disc"]
        ctx.check(d == 1, "BEL-2", ifi, inode, "evaluator: chain term discounted exactly once", f"degree {d}", f"the cross-product chain carries the discount rate {d} time(s)")
    if not chain:
        ctx.unknown("BEL-2", ifi, inode, "evaluator: chain term", "not recognised")
    ok = A.op == "binop" and A.args[0] == "-"
    ctx.check(ok, "BEL-2", ifi, inode, "evaluator: system matrix is eye - gamma*T_mu", "", f"system matrix is `{show(A, 60)}`")
    # reward vector C_mu = fsc_action @ R.T
    # Cmu is the vector the inverted system is applied to (the product is the reported value table); R is what Cmu weights by the strategy
    # (definitions are listed before their uses, so that a role the code writes in place is bound virtually and then matched by text)
    cb = S.solve(["occupancy = E_sys.inverse()", "Cmu = fsc_action @ E_R.T", "V = occupancy @ Cmu.view(ANY)", "Result(state_controller_value=V, REST=ANY)"])
    cenv = dict(cb[0]) if cb else {}
    ok = cb is not None and _single(S, cenv["Cmu"])
    ctx.check(ok, "BEL-2", f, cb[1][1] if cb else f.node, "evaluator: C_mu[n, s] = sum_a pi(a|n) R(s, a)", "", "expected immediate reward is not pi . R^T")
    rnode = cenv.get("R") if ok else None
    ok = isinstance(rnode, ast.AST) and (not isinstance(rnode, ast.Name) or rnode.id in S.defs) and _mentions_attr(S, rnode, "state_action_reward_matrix")
    ctx.check(ok, "BEL-2", f, rnode if isinstance(rnode, ast.AST) else f.node, "evaluator: R is the state-action reward matrix", "", "reward source changed")
    # BEL-1: episode ends on entering an absorbing state -> mask must reach chain and reward
    vterm = None
    for x in walk(term):
        if x.op == "call" and x.args[0].op == "classref" and x.args[2]:
            kw = dict(x.args[2])
            if "state_controller_value" in kw:
                vterm = kw["state_controller_value"]
    if vterm is None:
        ctx.unknown("BEL-1", f, f.node, "evaluator: value table", "result constructor not found")
    else:
        leaves = typer.leaves(vterm)
        ok = "absorbing_state_vec" in leaves or any(x.op == "attr" and x.args[1] == "is_absorbing" for x in walk(vterm))
        ctx.check(ok, "BEL-1", f, f.node, "evaluator: absorbing mask reaches chain and reward",
                  "", "the value table does not depend on the POMDP's absorbing states on any def-use path: the evaluator keeps collecting reward after an "
                  "absorbing state is entered, whereas executing the controller (POMDPPolicy.run_on) ends the episode there")
        for need in ("transition_matrix", "observation_matrix", "state_action_reward_matrix|reward_matrix", "discount_rate"):
            ok = any(a in leaves for a in need.split("|"))
            ctx.check(ok, "BEL-1", f, f.node, f"evaluator: value depends on {need}", "", f"value table does not depend on {need}")
    # initial distributions
    ib = S.solve(["s0 = torch.tensor(pomdp.initial_state_vec, REST, REST=ANY)",
                  "state_value = fsc_initial_state @ V",
                  "Result(state_controller_value=V, expected_value=state_value @ s0, REST=ANY)"])
    ok = ib is not None and _single(S, ib[0]["state_value"]) and _single(S, ib[0]["s0"])
    ctx.check(ok, "INIT-1", f, f.node, "expected value = initial node distribution . V . initial state distribution", "", "expected value is not <fsc_initial_state, V, initial_state_vec>")
    # each strategy has its own row-sum assertion (the summed strategy may be named by a temporary)
    asserts = []
    for strat in ("fsc_action", "fsc_state"):
        hit = None
        for pattern in (f"assert torch.allclose({strat}.sum(REST, REST=ANY), REST, REST=ANY)", f"assert torch.allclose(ANY, {strat}.sum(REST, REST=ANY), REST, REST=ANY)"):
            hit = hit or S.first(pattern)[0]
        if hit is not None:
            asserts.append(hit)
    ctx.check(len(asserts) >= 2, "VALID-1", f, asserts[0] if asserts else f.node, "evaluator asserts both strategies are row-stochastic", "", "row-sum assertions on the strategies are gone")


def rule_execution(ctx: Ctx):
    P, X = ctx.P, ctx.X
    C = P.cls("StochasticFiniteStateController")
    ad = C.methods["action_dist"]
    ag = ad.positional_params[1]
    Sd = pat.Snips(ad)
    # the mixture is a role: named by a local, or written in place where it is used
    mb = Sd.solve([f"mix = {ag} @ self.action_strategy"])
    ok = mb is not None and _single(Sd, mb[0]["mix"])
    ctx.check(ok, "EXEC-1", ad, ad.node, "action distribution = node distribution @ action strategy", "", "action mixture is not <node distribution, action strategy>")
    # ... and its entries are labelled with the actions in action_list order (entry i <-> i-th action)
    lab = "{a: mix[i] for i, a in enumerate(self.pomdp.action_list)}"
    dc, _e = Sd.first(lab, {"mix": mb[0]["mix"]}) if ok else Sd.first(lab.replace("mix", "E_mix"))
    anydc = [n for n in ast.walk(ad.node) if isinstance(n, ast.DictComp)]
    ctx.check(dc is not None, "EXEC-1", ad, dc if dc is not None else (anydc[0] if anydc else ad.node), "action probabilities are labelled with action_list in order", "",
              "mixture entries are paired with the wrong actions")
    na = C.methods["next_agentstate"]
    t = X.returns(na)
    takes_rng = any(p in ("rng", "rnd") for p in na.param_names)
    reads_action = any(x.op == "attr" and x.args[1] == "action_strategy" for x in walk(t))
    reads_obs = any(x.op == "attr" and x.args[1] == "observation_strategy" for x in walk(t))
    ctx.check(reads_obs, "EXEC-2", na, na.node, "node update reads the observation strategy", "", "node update ignores the node-transition strategy")
    if not takes_rng:
        ctx.check(reads_action, "EXEC-2", na, na.node, "node update conditions on the action taken (reads action_strategy)", "",
                  "the agent state is a *distribution over nodes* (action_dist is the mixture ag @ action_strategy and next_agentstate draws no sample), "
                  "so after observing its own action the node distribution must be re-weighted by action_strategy[:, a]; the update reads only "
                  "observation_strategy[:, a, o], so executed action/observation histories do not have the probabilities the controller defines")
    # index provenance: an index is identified by what it is (the position of the given action / observation), whether a local names it or
    # it is written in place inside the subscript
    a_p, o_p = na.positional_params[2], na.positional_params[3]
    Sn = pat.Snips(na)
    index_def = (("A", "action index", f"self.pomdp.action_list.index({a_p})"), ("O", "observation index", f"self.pomdp.observation_index[{o_p}]"))
    used = set()
    for sub in ast.walk(na.node):
        if isinstance(sub, ast.Subscript) and isinstance(sub.value, ast.Attribute) and sub.value.attr == "observation_strategy":
            items = list(sub.slice.elts) if isinstance(sub.slice, ast.Tuple) else [sub.slice]
            roles = ("N", "A", "O", "N2")
            for k, it in enumerate(items):
                if isinstance(it, ast.Slice) or k >= len(roles):
                    continue
                for want, what, src in index_def:
                    if Sn.m(src, it) is None:          # definition-transparent: a single-assignment local stands for its definition
                        continue
                    used.add(want)
                    ctx.check(roles[k] == want, "IDX-1", na, sub, f"observation_strategy axis {k} ({roles[k]}) indexed by the {what}", "",
                              f"the {what} indexes axis {k} of the node-transition strategy, whose role is {roles[k]}")
    ctx.check(used == {"A", "O"}, "IDX-1", na, na.node, "action / observation indices are the positions of the given action / observation", "",
              "index variables are not derived from the given action and observation")
    ia = C.methods["initial_agentstate"]
    ctx.check(pat.Snips(ia).has("return self.initial_state_dist"), "EXEC-1", ia, ia.node, "initial agent state is the initial node distribution", "", "initial agent state changed")
    init = C.methods["__init__"]
    n_asserts = sum(isinstance(n, ast.Assert) for n in ast.walk(init.node))
    ctx.check(n_asserts >= 3, "VALID-1", init, init.node, "controller constructor asserts the three strategy shapes", "", "shape assertions removed")


def rule_bpi(ctx: Ctx):
    P = ctx.P
    f = P.method("FSCBoundedPolicyIteration", "train_on")
    pomdp = f.positional_params[1]
    S = pat.Snips(f, literals=set(f.nested))          # names of nested defs are fixed points of the function, like its parameters
    # roles: the two strategy arrays (sampled initially, then improved) and the value table of the controller they form
    rb = S.solve(["fsc_action = sample_distribution(REST)", "fsc_state = sample_distribution(REST)", "V = value(fsc_action, fsc_state)"])
    if rb is None:
        raise AnalysisError("FSCBoundedPolicyIteration.train_on: controller strategies / value table not recognised")
    env = {k: rb[0][k] for k in ("fsc_action", "fsc_state", "V")}
    A_, S_, V_ = env["fsc_action"], env["fsc_state"], env["V"]
    # CFG-3: after every controller write the value table is recomputed before it is read again
    writes: List[ast.stmt] = []
    for n in fn_body_nodes(f):
        if isinstance(n, ast.Expr) and isinstance(n.value, ast.Call) and "add_to_fsc" in ast.unparse(n.value.func):
            ip = _resolve(S, kwarg(n.value, "inplace"))
            if ip is not None and isinstance(ip, ast.Constant) and ip.value is True:
                writes.append(n)
        if isinstance(n, ast.Assign) and S.m("fsc_action, fsc_state = ANY.add_to_fsc(REST, REST=ANY)", n, env) is not None:
            writes.append(n)
    if not writes:
        ctx.violation("CFG-3", f, f.node, "controller writes in the improvement loop", "no controller write recognised")
    seen: Dict[str, int] = {}
    for w in writes:
        block = None
        for n in ast.walk(f.node):
            for fld in ("body", "orelse"):
                b = getattr(n, fld, None)
                if isinstance(b, list) and w in b:
                    block = b
        fresh = False
        if block is not None:
            for st in block[block.index(w) + 1:]:
                if S.m("V = value(fsc_action, fsc_state)", st, env) is not None:
                    fresh = True
                    break
                if V_ in names_in(st):
                    break
        kind = "in-place add_to_fsc write" if isinstance(w, ast.Expr) else "rebinding add_to_fsc write (controller grows)"
        seen[kind] = seen.get(kind, 0) + 1
        ctx.check(fresh, "CFG-3", f, w, f"value table recomputed after {kind} #{seen[kind]}", "",
                  f"after the controller write `{_roles(w, env, 70)}` the value table is read (or the block ends) before it is recomputed as "
                  f"value(<fsc_action>, <fsc_state>): the reported value would not be the evaluation of the returned controller")
    # value() evaluates the arrays it is given with the exact evaluator on this pomdp
    val = f.nested.get("value")
    if val is not None:
        vp = val.positional_params
        ok = len(vp) == 2 and pat.Snips(val).has(
            f"stochastic_fsc_policy_evaluation_exact({pomdp}, torch.tensor(arg0), torch.tensor(arg1)).state_controller_value", {"arg0": vp[0], "arg1": vp[1]})
        ctx.check(ok, "WIRE-1", val, val.node, "value(...) is the exact evaluation of its own arguments on this POMDP", "", "value() does not evaluate the controller it is given")
    # initial node: best node for the initial state distribution
    icv, e1 = S.first(f"initial_controller_values = V @ {pomdp}.initial_state_vec", env)
    ok = icv is not None and _single(S, e1["initial_controller_values"])
    ctx.check(ok, "WIRE-1", f, icv if icv is not None else f.node, "initial controller values = V @ initial_state_vec", "", "initial controller values are not V @ initial_state_vec")
    if ok:
        env["initial_controller_values"] = e1["initial_controller_values"]
    ini, e2 = S.first("fsc_initial_state[np.argmax(initial_controller_values)] = 1", env)
    ctx.check(ini is not None and ok, "WIRE-1", f, ini if ini is not None else f.node, "initial node = best node for the initial state distribution", "", "initial node selection changed")
    if ini is not None and ok:
        env["fsc_initial_state"] = e2["fsc_initial_state"]
    bound = "fsc_initial_state" in env
    # result wiring
    rets = _returned_calls(S, f)
    if rets:
        r = _resolve(S, rets[0].value)
        pol = kwarg(r, "policy")
        ok = bound and pol is not None and S.m(f"StochasticFiniteStateController({pomdp}, fsc_action, fsc_state, fsc_initial_state)", pol, env) is not None
        ctx.check(ok, "WIRE-1", f, rets[0], "returned controller is built from the improved strategies", "", f"returned policy is `{_roles(pol, env)}`")
        v = kwarg(r, "value")
        ok = bound and v is not None and S.m("fsc_initial_state @ initial_controller_values", v, env) is not None
        ctx.check(ok, "WIRE-1", f, rets[0], "reported value = initial node distribution . (V . initial_state_vec)", "", f"reported value is `{_roles(v, env)}`")
        scv = kwarg(r, "state_controller_value")
        ctx.check(S.m("V", scv, env) is not None, "WIRE-1", f, rets[0], "reported state_controller_value is V", "", "reported value table is not V")
    # monotonicity assertion precedes the in-place update (of the same improvement result)
    mb = S.solve(["assert_value_improvement(V, lambda: r.add_to_fsc(fsc_action, fsc_state, inplace=False))", "r.add_to_fsc(fsc_action, fsc_state, inplace=True)"], env)
    ok = mb is not None and (mb[1][0].lineno, mb[1][0].col_offset) < (mb[1][1].lineno, mb[1][1].col_offset)
    ctx.check(ok, "CFG-3", f, mb[1][0] if mb else f.node,
              "value improvement is asserted on a copy before the in-place update", "", "the monotonic-improvement assertion is gone")
    sd = f.nested.get("sample_distribution")
    if sd is not None:
        ok = pat.Snips(sd).has("return d / d.sum(axis=-1, keepdims=True)")
        ctx.check(ok, "VALID-1", sd, sd.node, "initial strategies are normalised over the last axis", "", "sampled strategies are not normalised")
    imp = P.fn("improve_node_matrix_constraint")
    node_p = imp.positional_params[2]
    Si = pat.Snips(imp, literals=set(imp.nested))
    # roles: canz = the reshaped LP solution, c_a = its marginal over next nodes at one observation, the two improved strategies
    nb = Si.solve(["canz = np_no_copy_reshape(result.solution[ANY], ANY)",
                   "c_a = canz[:, ANY, :].sum(axis=-1)",
                   "observation_strategy = canz / c_a[:, None, None]",
                   "assert np.allclose(observation_strategy.sum(-1), 1)"])
    ok = nb is not None and all(_single(Si, nb[0][k]) for k in ("canz", "c_a"))
    ctx.check(ok, "VALID-1", imp, imp.node, "improved node strategy: c_{a,n_z}/c_a with row-sum assertion", "", "node strategy normalisation / assertion changed")
    atf = imp.nested.get("add_to_fsc")
    ok = False
    if nb is not None and atf is not None and len(atf.positional_params) == 2:
        ienv = {k: nb[0][k] for k in ("c_a", "observation_strategy")}
        ienv.update(arg0=atf.positional_params[0], arg1=atf.positional_params[1])
        Sa = pat.Snips(atf)
        # the improved action strategy IS c_a: written as c_a itself or through a (single-assignment) alias of it
        alias = [ienv["c_a"]] + [e["action_strategy"] for _n, e in Si.find("action_strategy = c_a", ienv) if _single(Si, e["action_strategy"])]
        ok = any(Sa.has(f"arg0[{node_p}] = action_strategy", dict(ienv, action_strategy=x)) for x in alias) \
            and Sa.has(f"arg1[{node_p}] = observation_strategy", ienv)
    ctx.check(ok, "VALID-1", imp, imp.node, "add_to_fsc writes the improved node's own rows", "", "improved strategies are written to the wrong rows")


def _softmax_of(S: "pat.Snips", node: Optional[ast.AST]):
    """('softmax', logit variable, axis text) when `node` is -- directly or through a single-assignment temporary -- `<logit>.softmax(<axis>)` of
    a *named* logit (distinct logits are never identified by the text of their initialisers); otherwise ('expr', text)."""
    if node is None:
        return ("none",)
    e = S.m("logit.softmax(E_axis)", node)
    if e is not None and isinstance(e["logit"], str):
        return ("softmax", e["logit"], pat.txt(e["axis"]))
    return ("expr", pat.txt(node))


def rule_ga(ctx: Ctx):
    P = ctx.P
    f = P.method("FSCGradientAscent", "train_on")
    pomdp = f.positional_params[1]
    S = pat.Snips(f, literals=set(f.nested))
    val = f.nested.get("value")
    rets = _returned_calls(S, f)
    if val is None or not rets:
        raise AnalysisError("FSCGradientAscent.train_on: value closure / result vanished")
    Sv = pat.Snips(val, literals=set(f.nested))
    res = _resolve(S, rets[0].value)
    c = [n for n, _e in Sv.find("stochastic_fsc_policy_evaluation_exact(REST, REST=ANY)")]
    # the controller that is evaluated / returned: each strategy in canonical form (which logit, softmax over which axis), so that it does not
    # matter whether `<logit>.softmax(-1)` is written in place or named by a temporary
    ev_nodes = (list(ordered_args(c[0])[1:3]) + [kwarg(c[0], "fsc_initial_state")]) if c else []       # by parameter, positional or keyword
    pol = _resolve(S, kwarg(res, "policy"))
    pol_nodes = list(ordered_args(pol)[1:]) if isinstance(pol, ast.Call) else []
    ev_can = [_softmax_of(Sv, a) for a in ev_nodes]
    pol_can = [_softmax_of(S, a) for a in pol_nodes]
    # the logit locals, named by their position in the returned controller
    lenv: Dict[str, object] = {}
    for role, k in zip(("action_logit", "node_logit", "initial_node_logit"), pol_can):
        if k[0] == "softmax":
            lenv[role] = k[1]
        elif k[0] == "expr" and k[1].isidentifier():
            lenv[role] = k[1]

    def show_can(ks):
        inv = {v: r for r, v in lenv.items()}
        return [(f"<{inv[k[1]]}>.softmax({k[2]})" if k[1] in inv else "<other logit>.softmax(%s)" % k[2]) if k[0] == "softmax"
                else (f"<{inv[k[1]]}>" if k[0] == "expr" and k[1] in inv else (k[1] if len(k) > 1 else "None")) for k in ks]
    shown = show_can(pol_can)
    ctx.check(bool(ev_can) and ev_can == pol_can, "WIRE-1", f, rets[0], "returned controller and evaluated controller are the same softmax of the same logits", str(shown),
              f"the evaluated controller {show_can(ev_can)} differs from the returned one {shown}")
    ctx.check(len(pol_can) == 3 and all(k[0] == "softmax" and k[2] == "-1" for k in pol_can), "VALID-1", f, rets[0], "returned strategies are softmax over the last axis", "",
              "returned strategies are not softmax(-1) of the logits")
    # the reported value is a call of value() that is executed after the optimisation loop(s): a temporary is looked through, but only to a
    # definition that itself lies behind every loop (a `result = value()` inside the loop is a stale evaluation)
    v = _resolve(S, kwarg(res, "value"))
    loops = [n for n in fn_body_nodes(f) if isinstance(n, (ast.For, ast.While))]
    opt_loops = [lp for lp in loops if S.has("ANY.step()", within=lp) or S.has("ANY.backward()", within=lp)]
    ok = v is not None and S.m("value()", v) is not None and isinstance(v, ast.Call) and all(v.lineno > lp.end_lineno for lp in opt_loops)
    ctx.check(ok, "CFG-3", f, rets[0], "reported value is evaluated after the last optimiser step", "", "reported value is a stale evaluation from inside the optimisation loop")
    ok = bool(c) and Sv.m(f"stochastic_fsc_policy_evaluation_exact({pomdp}, REST, REST=ANY)", c[0]) is not None
    ctx.check(ok, "WIRE-1", val, c[0] if c else val.node, "evaluation runs on the given POMDP", "", "evaluation runs on a different problem")
    # objective: the loss that is back-propagated is minus the expected value of the current evaluation
    ob = None
    for lp in loops:
        ob = ob or S.solve(["result = value()", "loss = -result.expected_value", "loss.backward()"], within=lp)
    ok = ob is not None and _single(S, ob[0]["result"]) and _single(S, ob[0]["loss"])
    ctx.check(ok, "WIRE-1", f, ob[1][1] if ob else f.node, "ascent maximises the expected value at the initial distributions", "", "objective changed")


def run(ctx: Ctx):
    P = ctx.P
    G = CallGraph(P, ctx.X)
    rule_evaluator(ctx)
    rule_execution(ctx)
    from .c14 import pomdp_rollout
    pomdp_rollout(ctx)
    rule_bpi(ctx)
    rule_ga(ctx)
    mods = ("msdm.algorithms.fscgradientascent", "msdm.algorithms.fscboundedpolicyiteration", "msdm.core.pomdp.finitestatecontroller")
    arg_permutation_rule(ctx, G, [x for x in P.all_functions() if x.module.name in mods], "ARG")
    for r, k in (("TEN-1", 3), ("BEL-2", 5), ("BEL-1", 5), ("INIT-1", 1), ("EXEC-1", 3), ("EXEC-2", 2), ("IDX-1", 3), ("CFG-3", 4), ("WIRE-1", 9),
                 ("VALID-1", 6), ("SIM-1", 1), ("SIM-3", 1), ("SIM-4", 2), ("SIM-5", 7), ("OBS-1", 4)):
        ctx.require(r, k)
    ctx.assume("LP solutions returned by scipy/cvxpy satisfy their constraints (monotone improvement is asserted at run time, not decided here)")

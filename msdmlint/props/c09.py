"""C09 — finite-state controllers.  Evaluator typing / Bellman form (absorbing mask: known finding), controller execution
(conditional must-read: known finding), roll-out protocol, freshness typestate of the learners' value tables, validity."""
from __future__ import annotations

import ast
from typing import Dict, List, Optional

from ..bellman import check_einsums_in_function, check_einsums, monomials, classify_monomial, calls_of, loc_of, is_discount
from ..callgraph import CallGraph, ext_name
from ..cfg import cfg_of
from ..dag import T, walk, show, deep_inline, simplify
from ..model import FunctionInfo, AnalysisError, dotted
from ..report import Ctx
from ..tensor import Typer, MODEL_ARRAYS
from ..util import norm, fn_body_nodes, walk_local, kwarg
from .common import arg_permutation_rule, names_in, calls_named

EXPLANATION = (
    "Evaluator: einsum axis roles of the cross-product chain (node roles N/N'), I - gamma*T_mu system, C_mu = pi R^T, and the "
    "Bellman-ingredient rule that an episode-ending absorbing mask must reach chain and reward (violated on the pinned tree: "
    "known finding). Execution: the action mixture reads node distribution and action strategy; because the agent state is a "
    "distribution over nodes the node update must condition on the action taken, i.e. read the action strategy (violated: known "
    "finding). Roll-out loop: simulation protocol. Learners: the reported value table is fresh with respect to the last controller "
    "write (typestate), reported value wiring, strategies normalised by construction. Monotone improvement (LP solutions) and "
    "roll-out statistics are not decided.")
RULES = ("TEN-1 einsum kinds incl. node roles; BEL-2 system matrix I - gamma*T_mu and reward C_mu; BEL-1 absorbing mask reaches chain and "
         "reward; INIT-1 value at the initial node/state distributions; EXEC-1 action mixture; EXEC-2 node update conditions on the action "
         "taken (conditional must-read); IDX-1 strategy axes indexed by the matching index; SIM-* roll-out protocol; CFG-3 value table "
         "fresh w.r.t. controller writes; WIRE-1 reported value / controller wiring; VALID-1 strategies normalised by construction")


def rule_evaluator(ctx: Ctx):
    P, X = ctx.P, ctx.X
    f = P.fn("stochastic_fsc_policy_evaluation_exact")
    typer = Typer(param_roles={"fsc_action": ("N", "A"), "fsc_state": ("N", "A", "O", "N2"), "fsc_initial_state": ("N",)})
    n = check_einsums_in_function(ctx, f, typer)
    # the cross-product einsum binds exactly the expected operands
    es = [c for c in fn_body_nodes(f) if isinstance(c, ast.Call) and ast.unparse(c.func) == "torch.einsum"]
    if es:
        ops = [ast.unparse(a) for a in es[0].args[1:]]
        ok = ops == ["fsc_action", "T", "O", "fsc_state"]
        ctx.check(ok, "TEN-1", f, es[0], "chain einsum contracts (action strategy, T, O, node strategy)", str(ops), f"chain is built from {ops}")
        spec = es[0].args[0].value.replace(" ", "")
        ins, out = spec.split("->")
        subs = ins.split(",")
        # output pairs (node, state) -> (next node, next state)
        n_, a_ = subs[0]
        s_, _, t_ = subs[1]
        m_ = subs[3][-1]
        ok = out == n_ + s_ + m_ + t_
        ctx.check(ok, "TEN-1", f, es[0], "chain output is indexed (node, state, next node, next state)", out,
                  f"chain output '{out}' is not (node, state, next node, next state) = '{n_ + s_ + m_ + t_}': the flattened cross-product chain would be transposed")
    term = simplify(X.returns(f))
    invs = [x for x in walk(term) if x.op == "call" and x.args[0].op == "attr" and x.args[0].args[1] == "inverse"]
    if not invs:
        ctx.violation("BEL-2", f, f.node, "evaluator: fundamental equation solved by an inverse", "no inverse reaches the result")
        return
    A = invs[0].args[0].args[0]
    ifi, inode = loc_of(invs[0], f)
    ms = monomials(A)
    eye = [m for m in ms if classify_monomial(typer, m)["eye"]]
    ctx.check(bool(eye), "BEL-2", ifi, inode, "evaluator: system matrix has the identity term", "", "no identity term in the system matrix")
    chain = [m for m in ms if classify_monomial(typer, m)["T"]]
    for m in chain[:1]:
        d = classify_monomial(typer, m)["disc"]
        ctx.check(d == 1, "BEL-2", ifi, inode, "evaluator: chain term discounted exactly once", f"degree {d}", f"the cross-product chain carries the discount rate {d} time(s)")
    if not chain:
        ctx.unknown("BEL-2", ifi, inode, "evaluator: chain term", "not recognised")
    ok = A.op == "binop" and A.args[0] == "-"
    ctx.check(ok, "BEL-2", ifi, inode, "evaluator: system matrix is eye - gamma*T_mu", "", f"system matrix is `{show(A, 60)}`")
    # reward vector C_mu = fsc_action @ R.T
    cm = [n2 for n2 in fn_body_nodes(f) if isinstance(n2, ast.Assign) and ast.unparse(n2.targets[0]) == "Cmu"]
    ok = bool(cm) and ast.unparse(cm[0].value).replace(" ", "") == "fsc_action@R.T"
    ctx.check(ok, "BEL-2", f, cm[0] if cm else f.node, "evaluator: C_mu[n, s] = sum_a pi(a|n) R(s, a)", "", "expected immediate reward is not pi . R^T")
    rdef = [n2 for n2 in fn_body_nodes(f) if isinstance(n2, ast.Assign) and ast.unparse(n2.targets[0]) == "R"]
    ok = bool(rdef) and "state_action_reward_matrix" in ast.unparse(rdef[0].value)
    ctx.check(ok, "BEL-2", f, rdef[0] if rdef else f.node, "evaluator: R is the state-action reward matrix", "", "reward source changed")
    # BEL-1: episode ends on entering an absorbing state -> mask must reach chain and reward
    vterm = None
    for x in walk(term):
        if x.op == "call" and x.args[0].op == "classref" and x.args[2]:
            kw = dict(x.args[2])
            if "state_controller_value" in kw:
                vterm = kw["state_controller_value"]
    if vterm is None:
        ctx.unknown("BEL-1", f, f.node, "evaluator: value table", "result constructor not found")
    else:
        leaves = typer.leaves(vterm)
        ok = "absorbing_state_vec" in leaves or any(x.op == "attr" and x.args[1] == "is_absorbing" for x in walk(vterm))
        ctx.check(ok, "BEL-1", f, f.node, "evaluator: absorbing mask reaches chain and reward",
                  "", "the value table does not depend on the POMDP's absorbing states on any def-use path: the evaluator keeps collecting reward after an "
                  "absorbing state is entered, whereas executing the controller (POMDPPolicy.run_on) ends the episode there")
        for need in ("transition_matrix", "observation_matrix", "state_action_reward_matrix|reward_matrix", "discount_rate"):
            ok = any(a in leaves for a in need.split("|"))
            ctx.check(ok, "BEL-1", f, f.node, f"evaluator: value depends on {need}", "", f"value table does not depend on {need}")
    # initial distributions
    src = ast.unparse(f.node)
    ok = "state_value = fsc_initial_state @ V" in src and "expected_value=state_value @ s0" in src and "s0 = torch.tensor(pomdp.initial_state_vec" in src
    ctx.check(ok, "INIT-1", f, f.node, "expected value = initial node distribution . V . initial state distribution", "", "expected value is not <fsc_initial_state, V, initial_state_vec>")
    asserts = [a for a in fn_body_nodes(f) if isinstance(a, ast.Assert) and "allclose" in ast.unparse(a.test) and "sum" in ast.unparse(a.test)]
    ctx.check(len(asserts) >= 2, "VALID-1", f, asserts[0] if asserts else f.node, "evaluator asserts both strategies are row-stochastic", "", "row-sum assertions on the strategies are gone")


def rule_execution(ctx: Ctx):
    P, X = ctx.P, ctx.X
    C = P.cls("StochasticFiniteStateController")
    ad = C.methods["action_dist"]
    ag = ad.positional_params[1]
    src = ast.unparse(ad.node)
    ok = f"{ag} @ self.action_strategy" in src
    ctx.check(ok, "EXEC-1", ad, ad.node, "action distribution = node distribution @ action strategy", "", "action mixture is not <node distribution, action strategy>")
    dc = [n for n in ast.walk(ad.node) if isinstance(n, ast.DictComp)]
    ok = bool(dc) and ast.unparse(dc[0].generators[0].iter) == "enumerate(self.pomdp.action_list)"
    if ok:
        i, a = [e.id for e in dc[0].generators[0].target.elts]
        ok = ast.unparse(dc[0].key) == a and isinstance(dc[0].value, ast.Subscript) and ast.unparse(dc[0].value.slice) == i
    ctx.check(ok, "EXEC-1", ad, dc[0] if dc else ad.node, "action probabilities are labelled with action_list in order", "", "mixture entries are paired with the wrong actions")
    na = C.methods["next_agentstate"]
    t = X.returns(na)
    takes_rng = any(p in ("rng", "rnd") for p in na.param_names)
    reads_action = any(x.op == "attr" and x.args[1] == "action_strategy" for x in walk(t))
    reads_obs = any(x.op == "attr" and x.args[1] == "observation_strategy" for x in walk(t))
    ctx.check(reads_obs, "EXEC-2", na, na.node, "node update reads the observation strategy", "", "node update ignores the node-transition strategy")
    if not takes_rng:
        ctx.check(reads_action, "EXEC-2", na, na.node, "node update conditions on the action taken (reads action_strategy)", "",
                  "the agent state is a *distribution over nodes* (action_dist is the mixture ag @ action_strategy and next_agentstate draws no sample), "
                  "so after observing its own action the node distribution must be re-weighted by action_strategy[:, a]; the update reads only "
                  "observation_strategy[:, a, o], so executed action/observation histories do not have the probabilities the controller defines")
    # index provenance
    for sub in ast.walk(na.node):
        if isinstance(sub, ast.Subscript) and isinstance(sub.value, ast.Attribute) and sub.value.attr == "observation_strategy":
            items = list(sub.slice.elts) if isinstance(sub.slice, ast.Tuple) else [sub.slice]
            roles = ("N", "A", "O", "N2")
            for k, it in enumerate(items):
                if isinstance(it, ast.Name) and it.id in ("ai", "oi"):
                    want = {"ai": "A", "oi": "O"}[it.id]
                    ctx.check(roles[k] == want, "IDX-1", na, sub, f"observation_strategy axis {k} ({roles[k]}) indexed by `{it.id}`", "",
                              f"`{it.id}` indexes axis {k} of the node-transition strategy, whose role is {roles[k]}")
    src = ast.unparse(na.node)
    ok = "oi = self.pomdp.observation_index[o]" in src and "ai = self.pomdp.action_list.index(a)" in src
    ctx.check(ok, "IDX-1", na, na.node, "ai / oi are the positions of the given action / observation", "", "index variables are not derived from the given action and observation")
    ia = C.methods["initial_agentstate"]
    ctx.check("return self.initial_state_dist" in ast.unparse(ia.node), "EXEC-1", ia, ia.node, "initial agent state is the initial node distribution", "", "initial agent state changed")
    init = C.methods["__init__"]
    n_asserts = sum(isinstance(n, ast.Assert) for n in ast.walk(init.node))
    ctx.check(n_asserts >= 3, "VALID-1", init, init.node, "controller constructor asserts the three strategy shapes", "", "shape assertions removed")


def rule_bpi(ctx: Ctx):
    P = ctx.P
    f = P.method("FSCBoundedPolicyIteration", "train_on")
    # CFG-3: after every controller write the value table is recomputed before it is read again
    writes: List[ast.stmt] = []
    for n in fn_body_nodes(f):
        if isinstance(n, ast.Expr) and isinstance(n.value, ast.Call) and "add_to_fsc" in ast.unparse(n.value.func):
            ip = kwarg(n.value, "inplace")
            if ip is not None and isinstance(ip, ast.Constant) and ip.value is True:
                writes.append(n)
        if isinstance(n, ast.Assign) and isinstance(n.targets[0], ast.Tuple) and [ast.unparse(e) for e in n.targets[0].elts] == ["fsc_action", "fsc_state"] \
                and "add_to_fsc" in ast.unparse(n.value):
            writes.append(n)
    if not writes:
        ctx.violation("CFG-3", f, f.node, "controller writes in the improvement loop", "no controller write recognised")
    for w in writes:
        block = None
        for n in ast.walk(f.node):
            for fld in ("body", "orelse"):
                b = getattr(n, fld, None)
                if isinstance(b, list) and w in b:
                    block = b
        fresh = False
        if block is not None:
            for st in block[block.index(w) + 1:]:
                if isinstance(st, ast.Assign) and ast.unparse(st.targets[0]) == "V" and ast.unparse(st.value) == "value(fsc_action, fsc_state)":
                    fresh = True
                    break
                if "V" in names_in(st):
                    break
        ctx.check(fresh, "CFG-3", f, w, f"value table recomputed after `{norm(w, 50)}`", "",
                  f"after the controller write `{norm(w, 50)}` the value table V is read (or the block ends) before `V = value(fsc_action, fsc_state)`: "
                  f"the reported value would not be the evaluation of the returned controller")
    # value() evaluates the arrays it is given with the exact evaluator on this pomdp
    val = f.nested.get("value")
    if val is not None:
        src = ast.unparse(val.node)
        ok = "stochastic_fsc_policy_evaluation_exact(pomdp, torch.tensor(fsc_action), torch.tensor(fsc_state))" in src and ".state_controller_value" in src
        ctx.check(ok, "WIRE-1", val, val.node, "value(...) is the exact evaluation of its own arguments on this POMDP", "", "value() does not evaluate the controller it is given")
    # result wiring
    rets = [n for n in fn_body_nodes(f) if isinstance(n, ast.Return) and isinstance(n.value, ast.Call)]
    if rets:
        r = rets[0].value
        pol = kwarg(r, "policy")
        ok = pol is not None and ast.unparse(pol) == "StochasticFiniteStateController(pomdp, fsc_action, fsc_state, fsc_initial_state)"
        ctx.check(ok, "WIRE-1", f, rets[0], "returned controller is built from the improved strategies", "", f"returned policy is `{norm(pol) if pol is not None else None}`")
        v = kwarg(r, "value")
        ok = v is not None and ast.unparse(v).replace(" ", "") == "fsc_initial_state@initial_controller_values"
        ctx.check(ok, "WIRE-1", f, rets[0], "reported value = initial node distribution . (V . initial_state_vec)", "", f"reported value is `{norm(v) if v is not None else None}`")
        scv = kwarg(r, "state_controller_value")
        ctx.check(scv is not None and ast.unparse(scv) == "V", "WIRE-1", f, rets[0], "reported state_controller_value is V", "", "reported value table is not V")
    src = ast.unparse(f.node)
    ctx.check("initial_controller_values = V @ pomdp.initial_state_vec" in src, "WIRE-1", f, f.node, "initial controller values = V @ initial_state_vec", "", "initial controller values are not V @ initial_state_vec")
    ctx.check("fsc_initial_state[np.argmax(initial_controller_values)] = 1" in src, "WIRE-1", f, f.node, "initial node = best node for the initial state distribution", "", "initial node selection changed")
    # monotonicity assertion precedes the in-place update
    ctx.check("assert_value_improvement(V, lambda: r.add_to_fsc(fsc_action, fsc_state, inplace=False))" in src, "CFG-3", f, f.node,
              "value improvement is asserted on a copy before the in-place update", "", "the monotonic-improvement assertion is gone")
    sd = f.nested.get("sample_distribution")
    if sd is not None:
        ok = "d / d.sum(axis=-1, keepdims=True)" in ast.unparse(sd.node)
        ctx.check(ok, "VALID-1", sd, sd.node, "initial strategies are normalised over the last axis", "", "sampled strategies are not normalised")
    imp = P.fn("improve_node_matrix_constraint")
    src = ast.unparse(imp.node)
    ok = "observation_strategy = canz / c_a[:, None, None]" in src and "assert np.allclose(observation_strategy.sum(-1), 1)" in src
    ctx.check(ok, "VALID-1", imp, imp.node, "improved node strategy: c_{a,n_z}/c_a with row-sum assertion", "", "node strategy normalisation / assertion changed")
    ok = "fsc_action[node] = action_strategy" in src and "fsc_state[node] = observation_strategy" in src
    ctx.check(ok, "VALID-1", imp, imp.node, "add_to_fsc writes the improved node's own rows", "", "improved strategies are written to the wrong rows")


def rule_ga(ctx: Ctx):
    P = ctx.P
    f = P.method("FSCGradientAscent", "train_on")
    val = f.nested.get("value")
    rets = [n for n in fn_body_nodes(f) if isinstance(n, ast.Return) and isinstance(n.value, ast.Call)]
    if val is None or not rets:
        raise AnalysisError("FSCGradientAscent.train_on: value closure / result vanished")
    c = [x for x in ast.walk(val.node) if isinstance(x, ast.Call) and "stochastic_fsc_policy_evaluation_exact" in ast.unparse(x.func)]
    ev_args = [ast.unparse(a) for a in c[0].args[1:]] + [ast.unparse(kwarg(c[0], "fsc_initial_state"))] if c else []
    pol = kwarg(rets[0].value, "policy")
    pol_args = [ast.unparse(a) for a in pol.args[1:]] if isinstance(pol, ast.Call) else []
    ctx.check(bool(ev_args) and ev_args == pol_args, "WIRE-1", f, rets[0], "returned controller and evaluated controller are the same softmax of the same logits", str(pol_args),
              f"the evaluated controller {ev_args} differs from the returned one {pol_args}")
    ctx.check(all(a.endswith(".softmax(-1)") for a in pol_args) and len(pol_args) == 3, "VALID-1", f, rets[0], "returned strategies are softmax over the last axis", "", "returned strategies are not softmax(-1) of the logits")
    v = kwarg(rets[0].value, "value")
    ok = v is not None and ast.unparse(v) == "value()"
    ctx.check(ok, "CFG-3", f, rets[0], "reported value is evaluated after the last optimiser step", "", "reported value is a stale evaluation from inside the optimisation loop")
    ctx.check(bool(c) and ast.unparse(c[0].args[0]) == "pomdp", "WIRE-1", val, c[0] if c else val.node, "evaluation runs on the given POMDP", "", "evaluation runs on a different problem")
    src = ast.unparse(f.node)
    ctx.check("loss = -result.expected_value" in src, "WIRE-1", f, f.node, "ascent maximises the expected value at the initial distributions", "", "objective changed")


def run(ctx: Ctx):
    P = ctx.P
    G = CallGraph(P, ctx.X)
    rule_evaluator(ctx)
    rule_execution(ctx)
    from .c14 import pomdp_rollout
    pomdp_rollout(ctx)
    rule_bpi(ctx)
    rule_ga(ctx)
    mods = ("msdm.algorithms.fscgradientascent", "msdm.algorithms.fscboundedpolicyiteration", "msdm.core.pomdp.finitestatecontroller")
    arg_permutation_rule(ctx, G, [x for x in P.all_functions() if x.module.name in mods], "ARG")
    for r, k in (("TEN-1", 3), ("BEL-2", 5), ("BEL-1", 5), ("INIT-1", 1), ("EXEC-1", 3), ("EXEC-2", 2), ("IDX-1", 3), ("CFG-3", 4), ("WIRE-1", 9),
                 ("VALID-1", 6), ("SIM-1", 1), ("SIM-3", 1), ("SIM-4", 2), ("SIM-5", 7), ("OBS-1", 4)):
        ctx.require(r, k)
    ctx.assume("LP solutions returned by scipy/cvxpy satisfy their constraints (monotone improvement is asserted at run time, not decided here)")

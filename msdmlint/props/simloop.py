"""E5 — simulation-loop protocol (SIM-1..6), shared by C14, C10, C17, C04, C09."""
from __future__ import annotations

import ast
from dataclasses import dataclass, field
from typing import Dict, List, Optional, Tuple

from ..cfg import cfg_of
from ..model import FunctionInfo, AnalysisError, dotted
from ..report import Ctx
from ..util import norm, fn_body_nodes, walk_local, kwarg, parents, is_none_test
from .common import names_in


@dataclass
class SimLoop:
    fi: FunctionInfo
    loop: ast.AST                    # For | While
    sample_stmt: ast.stmt            # ns = X.next_state_dist(s, a).sample(...)
    model: str                       # receiver text, e.g. 'mdp'
    s: str
    a: Optional[str]
    ns: str
    a_expr: ast.AST = None           # the action argument expression
    body: List[ast.stmt] = field(default_factory=list)

    def idx(self, st: ast.stmt) -> int:
        """index of the top-level body statement containing st."""
        for i, b in enumerate(self.body):
            if any(x is st for x in ast.walk(b)):
                return i
        return -1


def find_loops(fi: FunctionInfo) -> List[SimLoop]:
    out = []
    for node in fn_body_nodes(fi):
        if not isinstance(node, (ast.For, ast.While)):
            continue
        for st in node.body:
            for sub in walk_local(st):
                if isinstance(sub, ast.Assign) and len(sub.targets) == 1 and isinstance(sub.targets[0], ast.Name):
                    v = sub.value
                    if isinstance(v, ast.Call) and isinstance(v.func, ast.Attribute) and v.func.attr == "sample" \
                            and isinstance(v.func.value, ast.Call) and isinstance(v.func.value.func, ast.Attribute) \
                            and v.func.value.func.attr == "next_state_dist":
                        nsd = v.func.value
                        # innermost loop only
                        inner = [n for n in ast.walk(node) if isinstance(n, (ast.For, ast.While)) and n is not node
                                 and any(x is sub for x in ast.walk(n))]
                        if inner:
                            continue
                        if len(nsd.args) != 2 or not isinstance(nsd.args[0], ast.Name):
                            continue
                        a = nsd.args[1].id if isinstance(nsd.args[1], ast.Name) else None
                        out.append(SimLoop(fi, node, sub, ast.unparse(nsd.func.value), nsd.args[0].id, a,
                                           sub.targets[0].id, a_expr=nsd.args[1], body=list(node.body)))
    return out


def _absorbing_call(node: ast.AST, model: str) -> Optional[ast.Call]:
    if isinstance(node, ast.Call) and isinstance(node.func, ast.Attribute) and node.func.attr == "is_absorbing" \
            and ast.unparse(node.func.value) == model:
        return node
    return None


def sim1_absorbing_guard(ctx: Ctx, L: SimLoop, rule="SIM-1"):
    """the absorbing test on the current-state variable guards the sampling statements and leads to loop exit."""
    fi = L.fi
    ok = None
    where = L.loop
    detail = ""
    if isinstance(L.loop, ast.While):
        t = L.loop.test
        if isinstance(t, ast.UnaryOp) and isinstance(t.op, ast.Not):
            c = _absorbing_call(t.operand, L.model)
            if c is not None:
                ok = len(c.args) == 1 and isinstance(c.args[0], ast.Name) and c.args[0].id == L.s
                detail = f"loop guard tests is_absorbing({norm(c.args[0]) if c.args else ''})"
    if ok is None:
        # `if X.is_absorbing(s): break` before the sampling statement at the top level of the body
        for i, st in enumerate(L.body):
            if i >= L.idx(L.sample_stmt):
                break
            if isinstance(st, ast.If) and any(isinstance(x, (ast.Break, ast.Return)) for x in st.body):
                c = _absorbing_call(st.test, L.model)
                if c is not None:
                    ok = len(c.args) == 1 and isinstance(c.args[0], ast.Name) and c.args[0].id == L.s
                    where = st
                    detail = f"`{norm(st.test)}` breaks out before sampling"
    if ok is None:
        ctx.violation(rule, fi, L.loop, f"absorbing test on current state `{L.s}` guards the step",
                      f"no is_absorbing({L.s}) test guards the sampling statement `{norm(L.sample_stmt)}`: steps would be taken from absorbing states")
    else:
        ctx.check(ok, rule, fi, where, f"absorbing test on current state `{L.s}` guards the step", detail,
                  f"the absorbing test is applied to a variable other than the current state `{L.s}` ({detail})")


def sim2_action_source(ctx: Ctx, L: SimLoop, rule="SIM-2", allowed_sources=("action_dist", "epsilon_softmax_sample", "_act", "policy")):
    """the action is chosen in the same iteration from the policy / Q-row of the *current* state."""
    fi = L.fi
    cfg = cfg_of(fi)
    if L.a is None:
        # inline expression, e.g. self.policy(mdp, s)
        ok = L.s in names_in(L.a_expr)
        ctx.check(ok, rule, fi, L.sample_stmt, "action is a function of the current state", norm(L.a_expr),
                  f"the action expression `{norm(L.a_expr)}` does not depend on the current state `{L.s}`")
        return
    node = cfg.node_for(L.sample_stmt)
    defs = cfg.reaching(node, L.a)
    if not defs:
        ctx.unknown(rule, fi, L.sample_stmt, "action definition", "no reaching definition")
        return
    for d in defs:
        st = d.stmt
        inst = f"action `{L.a}` defined by `{norm(st, 70)}`"
        if isinstance(st, ast.Assign) and isinstance(st.targets[0], ast.Tuple) and isinstance(st.value, ast.Tuple):
            # simultaneous advance  s, a = ns, na : na must come from the row of ns
            tn = [getattr(e, "id", None) for e in st.targets[0].elts]
            vn = [getattr(e, "id", None) for e in st.value.elts]
            if L.s in tn and L.a in tn:
                s_src, a_src = vn[tn.index(L.s)], vn[tn.index(L.a)]
                nd = cfg.reaching(cfg.node_for(st), a_src) if a_src else []
                ok = bool(nd) and all(s_src in names_in(x.value) for x in nd if x.value is not None)
                ctx.check(ok, rule, fi, st, inst, f"`{a_src}` was chosen from the row of `{s_src}`",
                          f"the carried action `{a_src}` was not chosen at the state `{s_src}` that becomes current")
                continue
        val = d.value
        if val is None:
            ctx.unknown(rule, fi, st, inst, "unrecognised definition")
            continue
        ok = L.s in names_in(val)
        ctx.check(ok, rule, fi, st, inst, "depends on the current state",
                  f"the action is not chosen at the current state `{L.s}`")


def sim3_reward_args(ctx: Ctx, L: SimLoop, rule="SIM-3") -> Optional[str]:
    """reward(s, a, ns) receives exactly the current state, that action and the sampled successor. Returns reward var."""
    fi = L.fi
    rvar = None
    found = False
    for st in L.body:
        for sub in walk_local(st):
            if isinstance(sub, ast.Call) and isinstance(sub.func, ast.Attribute) and sub.func.attr == "reward" \
                    and ast.unparse(sub.func.value) == L.model:
                found = True
                got = [ast.unparse(a) for a in sub.args]
                want = [L.s, ast.unparse(L.a_expr), L.ns]
                ctx.check(got == want, rule, fi, sub, f"reward({', '.join(want)})", "",
                          f"the reward is computed for ({', '.join(got)}) but the step taken is ({', '.join(want)})")
        if isinstance(st, ast.Assign) and isinstance(st.value, ast.Call) and isinstance(st.value.func, ast.Attribute) \
                and st.value.func.attr == "reward" and isinstance(st.targets[0], ast.Name):
            rvar = st.targets[0].id
    if not found:
        ctx.violation(rule, fi, L.loop, f"reward({L.s}, {L.a}, {L.ns})", "the loop never asks the model for the reward of the step it takes")
    # the successor is sampled from next_state_dist of the same model the absorbing test / reward use
    return rvar


def sim4_advance(ctx: Ctx, L: SimLoop, rule="SIM-4", must_follow: Tuple[str, ...] = ()):
    """the only redefinition of the current-state variable in the body is `s = ns`, after recording/updating."""
    fi = L.fi
    adv = []
    for st in L.body:
        for sub in walk_local(st):
            if isinstance(sub, ast.Assign):
                for t in sub.targets:
                    names = [t.id] if isinstance(t, ast.Name) else [getattr(e, "id", None) for e in getattr(t, "elts", [])]
                    if L.s in names:
                        adv.append(sub)
            elif isinstance(sub, (ast.AugAssign, ast.For)) and isinstance(getattr(sub, "target", None), ast.Name) and sub.target.id == L.s:
                adv.append(sub)
    if not adv:
        ctx.violation(rule, fi, L.loop, f"state advance {L.s} = {L.ns}", f"the current state `{L.s}` is never advanced to the sampled successor")
        return
    for st in adv:
        src = None
        if isinstance(st, ast.Assign):
            t = st.targets[0]
            if isinstance(t, ast.Name) and isinstance(st.value, ast.Name):
                src = st.value.id
            elif isinstance(t, ast.Tuple) and isinstance(st.value, ast.Tuple):
                tn = [getattr(e, "id", None) for e in t.elts]
                src = getattr(st.value.elts[tn.index(L.s)], "id", None)
            elif st is L.sample_stmt:
                src = L.ns          # s = next_state_dist(s, a).sample()  (LRTDP style: s is its own successor)
        ctx.check(src == L.ns, rule, fi, st, f"state advance {L.s} = {L.ns}", "",
                  f"the current state is redefined by `{norm(st)}`, not advanced to the sampled successor `{L.ns}`: consecutive steps would not chain")
    if adv and all(a is not L.sample_stmt for a in adv):
        ai = min(L.idx(a) for a in adv)
        late = []
        for i, st in enumerate(L.body):
            if i <= ai:
                continue
            used = names_in(st)
            if L.ns in used and L.s in used:
                late.append(st)
        ctx.check(not late, rule, fi, adv[0], "advance follows every statement that uses (s, ns) of this step", "",
                  f"`{norm(late[0], 60) if late else ''}` uses the step's state and successor after the state was advanced")
        # named statements (update / record) must precede the advance
        for st in L.body:
            txt = ast.unparse(st)
            if any(m in txt for m in must_follow) and L.idx(st) > ai:
                ctx.violation(rule, fi, st, "update/record precedes the advance", f"`{norm(st, 60)}` runs after the state advance")


def initial_state_rule(ctx: Ctx, fi: FunctionInfo, L: SimLoop, model: str, rule="SIM-0", param="initial_state"):
    """the roll-out starts at the given state, or at one sampled from the model with the supplied generator."""
    cfg = cfg_of(fi)
    node = cfg.node_for(L.loop)
    defs = cfg.reaching(node, L.s)
    pre = [d for d in defs if not any(d.stmt is x for x in ast.walk(L.loop))]
    if len(pre) != 1:
        ctx.unknown(rule, fi, L.loop, "initial state", f"{len(pre)} definitions reach the loop")
        return
    d = pre[0]
    ok_src = isinstance(d.value, ast.Name) and d.value.id == param
    ctx.check(ok_src, rule, fi, d.stmt, f"roll-out starts at `{param}`", "", f"the first state is `{norm(d.value) if d.value is not None else '?'}`, not the `{param}` argument")
    # the parameter is replaced only under `is None`
    found = False
    for n in cfg.nodes:
        if n.kind == "if":
            r = is_none_test(n.ast.test)
            if r and isinstance(r[0], ast.Name) and r[0].id == param and r[1]:
                found = True
                samp = [s for s in n.ast.body if isinstance(s, ast.Assign) and isinstance(s.targets[0], ast.Name) and s.targets[0].id == param]
                ok = bool(samp) and "initial_state_dist" in ast.unparse(samp[0].value) and ast.unparse(samp[0].value).startswith(model + ".")
                ctx.check(ok, rule, fi, n.ast, f"`{param}` sampled from {model}.initial_state_dist() only when it is None", "",
                          "the default start state is not drawn from the model's initial-state distribution")
    if not found:
        # truthiness idioms
        bad = [x for x in fn_body_nodes(fi) if isinstance(x, ast.BoolOp) and isinstance(x.op, ast.Or)
               and isinstance(x.values[0], ast.Name) and x.values[0].id == param]
        bad += [x for x in fn_body_nodes(fi) if isinstance(x, ast.If) and (
            (isinstance(x.test, ast.UnaryOp) and isinstance(x.test.op, ast.Not) and isinstance(x.test.operand, ast.Name) and x.test.operand.id == param)
            or (isinstance(x.test, ast.Name) and x.test.id == param))]
        if bad:
            ctx.violation(rule, fi, bad[0], f"`{param}` tested by identity (is None)",
                          f"`{norm(bad[0], 60)}` replaces a falsy but valid start state (e.g. state 0) by a sampled one")
        else:
            ctx.unknown(rule, fi, fi.node, f"`{param}` default", "no `is None` test found")

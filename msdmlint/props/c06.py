"""C06 — matrix, table and wrapper views of an MDP.  TEN-4 index provenance, sibling zero-probability discipline,
from_matrices reader/writer agreement, QuickMDP forwarding, reachability closure."""
from __future__ import annotations

import ast
from typing import Dict, List, Optional, Tuple

from ..bellman import check_einsums
from ..callgraph import CallGraph
from ..cfg import cfg_of
from ..dag import T, walk, show, deep_inline, simplify
from ..model import FunctionInfo, AnalysisError, dotted
from ..report import Ctx
from ..tensor import Typer, MODEL_ARRAYS
from ..pat import Snips
from ..util import ordered_args, zero_test, cmp_views, has_cmp, norm, fn_body_nodes, walk_local, kwarg, lexical_guards, atomic_facts
from .common import arg_permutation_rule, names_in, calls_named

EXPLANATION = (
    "Index-provenance typing of every element store that builds a model array (axis <-> list <-> entity <-> value), the "
    "zero-probability discipline shared by all consumers of next_state_dist(...).items() that index the state list "
    "(sibling rule, reference: reachable_states), reader/writer agreement of the from_matrices closures with the array "
    "layouts, forwarding of QuickMDP's parameters, and the structure of the reachability closure. Equality of planning "
    "results and behaviour under max_states cut-offs are not decided.")
RULES = ("TEN-4 element store X[i,j,k]=v: each index is the position, in the list that axis was allocated from, of the entity v was "
         "computed from; ZERO-1 zero-probability entries are skipped before the key is looked up in the state list; REACH-1..3 "
         "closure structure; VEC-1 vector/derived arrays; FM-1 from_matrices closures read axis k with the index map of its list; "
         "QK-1 QuickMDP forwarding; LIST-1 state/action list inference")

LISTS = {"state_list": "S", "action_list": "A", "observation_list": "O"}


INDEX_MAP_OF = {"observation_index": "observation_list"}


def _chain(S: Snips, e: ast.AST, fi: Optional[FunctionInfo] = None, at: Optional[ast.AST] = None) -> List[ast.AST]:
    """e, then the defining expression of e when e is a local bound by plain assignment, and so on: a value may be named by a
    temporary or written in place.  A local with several assignments is followed to the last one textually before `at`."""
    out = [e]
    seen = set()
    while isinstance(e, ast.Name) and e.id not in seen:
        seen.add(e.id)
        d = S.defs.get(e.id)
        if d is None and fi is not None and at is not None:
            prev = [st for st in _stores_of(fi, e.id) if st.lineno < at.lineno]
            last = max(prev, key=lambda st: st.lineno) if prev else None
            if isinstance(last, ast.Assign) and len(last.targets) == 1 and isinstance(last.targets[0], ast.Name):
                d = last.value
        if d is None:
            break
        out.append(d)
        e = d
    return out


def _resolve(S: Snips, e: ast.AST, fi: Optional[FunctionInfo] = None, at: Optional[ast.AST] = None) -> ast.AST:
    return _chain(S, e, fi, at)[-1]


def _entity(S: Snips, e: ast.AST) -> Optional[str]:
    """the variable an expression denotes (aliases followed); None when it is not a plain variable."""
    names = [x.id for x in _chain(S, e) if isinstance(x, ast.Name)]
    return names[-1] if names else None


def _is_var(S: Snips, e: ast.AST, name: Optional[str]) -> bool:
    return name is not None and any(isinstance(x, ast.Name) and x.id == name for x in _chain(S, e))


def _list_of(S: Snips, e: ast.AST) -> Optional[str]:
    """the model list (`self.state_list`, ...) an expression denotes, directly or through a local bound to it."""
    r = _resolve(S, e)
    return r.attr if isinstance(r, ast.Attribute) and r.attr in LISTS else None


def _enclosing_loops(fi: FunctionInfo, node: ast.AST) -> List[ast.For]:
    return [n for n in fn_body_nodes(fi) if isinstance(n, ast.For) and any(node is x for x in ast.walk(n))]


def _items_call(S: Snips, it: ast.AST) -> Optional[ast.Call]:
    """the call D(...) when `it` is `D(...).items()`, each part written in place or named by a temporary."""
    en = S.m("E_d.items()", it)
    d = _resolve(S, en["d"]) if en is not None else None
    return d if isinstance(d, ast.Call) else None


def index_provenance(fi: FunctionInfo, S: Snips, store: ast.AST, e: ast.AST) -> Tuple[Optional[str], Optional[str]]:
    """(list attribute, entity variable) such that the index expression `e` of `store` is the position of the entity in that list.
    `e` is the position variable of an enclosing `for i, x in enumerate(L)`, or `L.index(x)`, or `M[x]` for an element -> position
    map M -- each written in place or named by a temporary."""
    if isinstance(e, ast.Name):
        for lp in _enclosing_loops(fi, store):
            if isinstance(lp.target, ast.Tuple) and len(lp.target.elts) == 2 and all(isinstance(t, ast.Name) for t in lp.target.elts) \
                    and lp.target.elts[0].id == e.id:
                en = S.m("enumerate(E_l)", lp.iter)
                if en is not None and _list_of(S, en["l"]) is not None:
                    return _list_of(S, en["l"]), lp.target.elts[1].id
    r = _resolve(S, e, fi, store)
    en = S.m("E_l.index(E_x)", r)
    if en is not None and _list_of(S, en["l"]) is not None:
        return _list_of(S, en["l"]), _entity(S, en["x"])
    en = S.m("E_m[E_x]", r)
    if en is not None and not isinstance(en["x"], (ast.Tuple, ast.Slice)):
        mp = _resolve(S, en["m"])
        if isinstance(mp, ast.Attribute) and "index" in mp.attr:
            return INDEX_MAP_OF.get(mp.attr, mp.attr), _entity(S, en["x"])
        dc = S.m("{e: i for i, e in enumerate(E_l)}", mp)
        if dc is not None and _list_of(S, dc["l"]) is not None:
            return _list_of(S, dc["l"]), _entity(S, en["x"])
    return None, None


def index_sources(fi: FunctionInfo, store: ast.AST) -> Dict[str, Tuple[str, str]]:
    """index variable -> (list attribute, entity variable) for the index variables of `store`."""
    S = Snips(fi)
    out: Dict[str, Tuple[str, str]] = {}
    t = store.targets[0]
    for e in (t.slice.elts if isinstance(t.slice, ast.Tuple) else [t.slice]):
        if isinstance(e, ast.Name):
            l, x = index_provenance(fi, S, store, e)
            if l is not None and x is not None:
                out[e.id] = (l, x)
    return out


def _allocations(S: Snips, var: str, ctors=("np.zeros", "np.ones")) -> List[Tuple[ast.AST, ast.AST]]:
    """(statement, shape expression) of every `var = np.zeros(shape, ...)`."""
    out = []
    for c in ctors:
        for st, e in S.find(f"V_arr = {c}(E_shape, REST, REST=ANY)", {"arr": var}):
            out.append((st, e["shape"]))
    out.sort(key=lambda x: x[0].lineno)
    return out


def alloc_lists(fi: FunctionInfo, var: str) -> Optional[List[str]]:
    """list attribute per axis of `var = np.zeros((len(self.L1), len(self.L2), ...))` (local aliases and temporaries resolved)."""
    S = Snips(fi)
    for _, shape in _allocations(S, var):
        shape = _resolve(S, shape)
        if not isinstance(shape, ast.Tuple):
            continue
        out = []
        for e in shape.elts:
            en = S.m("len(E_l)", e)
            out.append((_list_of(S, en["l"]) if en is not None else None) or "?")
        return out
    return None


def rule_store(ctx: Ctx, fi: FunctionInfo, what: str, dist_method: Optional[str], value_kind: str, axes_entities: Tuple[str, ...]):
    """TEN-4 for one array-building property.  axes_entities names the interface roles of the axes, e.g. ('s','a','ns')."""
    S = Snips(fi)
    stores = [n for n in fn_body_nodes(fi) if isinstance(n, ast.Assign) and isinstance(n.targets[0], ast.Subscript)
              and isinstance(n.targets[0].value, ast.Name) and isinstance(n.targets[0].slice, ast.Tuple)]
    if not stores:
        ctx.violation("TEN-4", fi, fi.node, f"{what}: element store", "the array is never filled from the functional interface")
        return
    st = stores[0]
    var = st.targets[0].value.id
    lists = alloc_lists(fi, var)
    # each index, named by a temporary or written in place, is the position of an entity in a list
    got_lists: List[Optional[str]] = []
    ents: List[Optional[str]] = []
    for e_ast in st.targets[0].slice.elts:
        l, x = index_provenance(fi, S, st, e_ast)
        got_lists.append(l)
        ents.append(x)
    roles = ", ".join(axes_entities)
    inst = f"{what}: element store [{roles}] index provenance"
    if lists is None or None in got_lists or "?" in lists:
        ctx.unknown("TEN-4", fi, st, inst, f"allocation lists {lists}, index lists {got_lists}")
        return
    ctx.check(got_lists == lists, "TEN-4", fi, st, f"{what}: each index is a position in the list its axis was allocated from",
              f"axes {lists}", f"the array is allocated over {lists} but the store indexes it with positions from {got_lists}")
    # entities of the axes feed the value
    if dist_method is not None:
        loops = []
        for n in _enclosing_loops(fi, st):
            d = _items_call(S, n.iter)
            if d is not None and dist_method in ast.unparse(d.func):
                loops.append((n, d))
        if not loops:
            ctx.violation("TEN-4", fi, st, f"{what}: value comes from {dist_method}(...).items()", f"the store is not inside a loop over {dist_method}(...).items()")
            return
        lp, call = loops[0]
        cargs = [_entity(S, a) for a in ordered_args(call)]
        key, val = [e.id if isinstance(e, ast.Name) else None for e in lp.target.elts] if isinstance(lp.target, ast.Tuple) and len(lp.target.elts) == 2 else (None, None)
        want_call = ents[:len(cargs)]
        ctx.check(cargs == want_call and ents[len(cargs)] == key if len(ents) > len(cargs) else cargs == want_call, "TEN-4", fi, st,
                  f"{what}: axes ({roles}) are the arguments and key of {dist_method}(...).items()", "",
                  f"the store's axes correspond to entities ({', '.join(map(str, ents))}) but the distribution is {dist_method}({', '.join(map(str, cargs))}) with key `{key}`: "
                  f"a value is written at the position of a different entity than the one it was computed from")
        if value_kind == "prob":
            ctx.check(_is_var(S, st.value, val), "TEN-4", fi, st, f"{what}: stored value is the probability of that key", "",
                      f"stored value `{norm(st.value)}` is not the probability `{val}` paired with the key")
        elif value_kind == "reward":
            v = _resolve(S, st.value)
            ok = isinstance(v, ast.Call) and isinstance(v.func, ast.Attribute) and v.func.attr == "reward" and \
                None not in ents and [_entity(S, a) for a in ordered_args(v)] == ents
            ctx.check(ok, "TEN-4", fi, st, f"{what}: stored value is reward({roles}) of the written cell", "",
                      f"stored value `{norm(v)}` is not the reward of the (s, a, ns) whose cell is written")
    elif value_kind == "one":
        v = _resolve(S, st.value)
        ok = isinstance(v, ast.Constant) and not isinstance(v.value, bool) and v.value == 1
        ctx.check(ok, "TEN-4", fi, st, f"{what}: availability entries are 1", "", f"stored value is {norm(st.value)}")
    # the action loop enumerates the row state's own actions
    al = []
    for n in _enclosing_loops(fi, st):
        it = _resolve(S, n.iter)
        if isinstance(it, ast.Call) and "actions" in ast.unparse(it.func):
            al.append((n, it))
    if al and ents and ents[0] is not None and "a" in axes_entities and axes_entities[0] == "s":
        a_ent = ents[axes_entities.index("a")]
        lp_a, it = al[0]
        ok = isinstance(lp_a.target, ast.Name) and lp_a.target.id == a_ent and [_entity(S, x) for x in ordered_args(it)] == [ents[0]]
        ctx.check(ok, "TEN-4", fi, lp_a, f"{what}: actions enumerated are the row state's own", "", f"actions come from `{norm(it)}`, not from the row state `{ents[0]}`")
    # zero initialisation for everything else
    zeros = [z for z, _ in _allocations(S, var, ("np.zeros",))]
    ctx.check(bool(zeros), "TEN-4", fi, zeros[0] if zeros else fi.node, f"{what}: all other cells are zero-initialised", "", "the array is not zero-initialised")
    # returned array is the one filled
    rets = [n for n in fn_body_nodes(fi) if isinstance(n, ast.Return)]
    ctx.check(bool(rets) and rets[0].value is not None and _is_var(S, rets[0].value, var), "TEN-4", fi, rets[0] if rets else fi.node, f"{what}: returns the filled array", "", "a different array is returned")


def local_list_aliases(fi: FunctionInfo) -> Dict[str, str]:
    """local name -> text of the attribute chain it is bound to (`nss = self.state_list`)."""
    out: Dict[str, str] = {}
    for n in fn_body_nodes(fi):
        if isinstance(n, ast.Assign) and len(n.targets) == 1 and isinstance(n.targets[0], ast.Name) and isinstance(n.value, ast.Attribute) and dotted(n.value):
            out[n.targets[0].id] = ast.unparse(n.value)
    return out


def local_index_maps(fi: FunctionInfo) -> Dict[str, str]:
    """locals that ARE element -> position maps, recognised by their definition and not by their spelling:
    bound to an `*index*` attribute (`m = self.observation_index`) or to `{e: i for i, e in enumerate(L)}`."""
    out: Dict[str, str] = {}
    S = Snips(fi)
    for n in fn_body_nodes(fi):
        if not (isinstance(n, ast.Assign) and len(n.targets) == 1 and isinstance(n.targets[0], ast.Name)):
            continue
        if isinstance(n.value, ast.Attribute) and "index" in n.value.attr:
            out[n.targets[0].id] = n.value.attr
        else:
            e = S.m("{e: i for i, e in enumerate(E_list)}", n.value)
            if e is not None:
                out[n.targets[0].id] = ast.unparse(e["list"])
    return out


def rule_zero_prob(ctx: Ctx, fns: List[FunctionInfo], list_attr: str, dist_names: Tuple[str, ...], rule="ZERO-1"):
    """D6: every loop over items() of a model distribution that looks the key up in `list_attr` filters zero
    probabilities first (as the function that builds the list does)."""
    n = 0
    for fi in fns:
        cfg = cfg_of(fi)
        top_params = set(fi.param_names)
        aliases, maps = local_list_aliases(fi), local_index_maps(fi)
        S = Snips(fi)
        k_fn = 0
        for lp in fn_body_nodes(fi):
            if not (isinstance(lp, ast.For) and isinstance(lp.target, ast.Tuple) and len(lp.target.elts) == 2):
                continue
            dcall = _items_call(S, lp.iter)         # the distribution call, written in the loop header or named by a temporary
            if dcall is None or not any(d in ast.unparse(dcall.func) for d in dist_names):
                continue
            key, prob = [e.id if isinstance(e, ast.Name) else None for e in lp.target.elts]
            lookups = []
            for c in ast.walk(lp):
                if isinstance(c, ast.Call) and isinstance(c.func, ast.Attribute) and c.func.attr == "index" and c.args and _is_var(S, c.args[0], key):
                    # receiver: the list attribute itself, or a local bound to it
                    recv = c.func.value
                    rtxt = aliases[recv.id] if isinstance(recv, ast.Name) and recv.id in aliases else ast.unparse(recv)
                    if list_attr in rtxt:
                        lookups.append(c)
                if isinstance(c, ast.Subscript) and isinstance(c.slice, ast.Name) and c.slice.id == key:
                    # element -> position map: a local bound to one (by its definition), an `*index*` attribute, or an `*index*` parameter
                    v = c.value
                    if (isinstance(v, ast.Name) and (v.id in maps or (v.id in top_params and "index" in v.id))) \
                            or (isinstance(v, ast.Attribute) and "index" in v.attr):
                        lookups.append(c)
            lookups.sort(key=lambda x: (x.lineno, x.col_offset))
            for lk in lookups:
                n += 1
                k_fn += 1
                node = cfg.node_for(lk)
                ok = False
                for g in cfg.nodes:
                    if g.kind == "if" and any(g.ast is x for x in ast.walk(lp)):
                        zt = zero_test(g.ast.test, prob)
                        if zt == "zero" and any(isinstance(b, ast.Continue) for b in g.ast.body):
                            # `if p == 0: continue` must come before the lookup
                            ok = ok or (g.id != node and cfg.dominates(g.id, node))
                        if zt == "nonzero" and any(lk is x for b in g.ast.body for x in ast.walk(b)):
                            ok = True
                ctx.check(ok, rule, fi, lk, f"{list_attr} lookup of the distribution key happens only for non-zero probability" + (f" (lookup #{k_fn})" if k_fn > 1 else ""), "",
                          f"`{norm(lk)}` is evaluated before / without the zero-probability filter: a successor listed with probability 0 need not be in "
                          f"the inferred {list_attr} (reachable_states skips it) and the lookup raises")
    return n


def rule_reachability(ctx: Ctx):
    P = ctx.P
    f = P.method("mdp.mdp.MarkovDecisionProcess", "reachable_states")
    S = Snips(f)
    cfg = cfg_of(f)
    # roles of the locals, bound by what they are: the worklist is the set that is popped, the popped element is the state that is
    # expanded, the result is the name that is returned, the seed is the set comprehension over initial_state_dist().items()
    _, e = S.first("s = frontier.pop()")
    svar, frontier = (e["s"], e["frontier"]) if e else (None, None)
    ret, e = S.first("return visited")
    visited = e["visited"] if e else None
    seeds = S.find("S0 = {e for e, p in self.initial_state_dist().items() if p > 0}") or S.find("S0 = {e for e, p in self.initial_state_dist().items() if p != 0}")
    seed = seeds[0][1]["S0"] if seeds else None
    if seed is None:        # a seed with a different filter is still the seed (the filter itself is REACH-3's first obligation)
        anyseed = [n for n in fn_body_nodes(f) if isinstance(n, ast.Assign) and len(n.targets) == 1 and isinstance(n.targets[0], ast.Name)
                   and isinstance(n.value, ast.SetComp) and S.m("self.initial_state_dist().items()", n.value.generators[0].iter) is not None]
        seed = anyseed[0].targets[0].id if anyseed else None
    loops = [n for n in fn_body_nodes(f) if isinstance(n, ast.For)]
    # the successor loop: its iterable (written in the header or named by a temporary) reads next_state_dist
    succ = []
    for l in loops:
        it_l, call_l = _resolve(S, l.iter), _items_call(S, l.iter)
        if "next_state_dist" in ast.unparse(it_l) or (call_l is not None and "next_state_dist" in ast.unparse(call_l)):
            succ.append((l, it_l, call_l))
    if not succ:
        ctx.violation("REACH-1", f, f.node, "successors enumerated from next_state_dist", "the closure does not enumerate next_state_dist")
        return
    lp, it, call = succ[0]
    is_items = call is not None and isinstance(lp.target, ast.Tuple) and len(lp.target.elts) == 2 and all(isinstance(x, ast.Name) for x in lp.target.elts)
    if not is_items:
        ctx.violation("REACH-1", f, lp, "successors are filtered by positive probability",
                      f"the closure iterates `{norm(it)}`: successors listed with probability 0 (e.g. members of .support) are added to the reachable set")
    else:
        key, prob = [x.id for x in lp.target.elts]
        skip = [n for n in lp.body if isinstance(n, ast.If) and zero_test(n.test, prob) == "zero" and any(isinstance(b, ast.Continue) for b in n.body)]
        adds = [c for c in ast.walk(lp) if isinstance(c, ast.Call) and isinstance(c.func, ast.Attribute) and c.func.attr == "add"]
        ok = bool(skip) and all(lp.body.index(skip[0]) < min(i for i, b in enumerate(lp.body) if any(a is x for x in ast.walk(b))) for a in adds)
        ctx.check(ok, "REACH-1", f, lp, "zero-probability successors are skipped before anything is added", "",
                  "zero-probability successors are not skipped before being added to the reachable set")
        outer = [l for l in loops if any(lp is x for x in ast.walk(l)) and l is not lp]
        oit = _resolve(S, outer[0].iter) if outer else None
        ok = bool(outer) and svar is not None and isinstance(oit, ast.Call) and "actions" in ast.unparse(oit.func) \
            and [_entity(S, a) for a in ordered_args(oit)] == [svar] \
            and [_entity(S, a) for a in ordered_args(call)] == [svar, outer[0].target.id if isinstance(outer[0].target, ast.Name) else "?"]
        ctx.check(ok, "REACH-2", f, lp, "expands next_state_dist(s, a) for every a in actions(s) of the popped state", "", "the expansion does not cover exactly the popped state's own actions")
        env = {"ns": key, "visited": visited, "frontier": frontier}
        # the result set is a different object from the worklist; successors are added to each by `<set>.add(<key>)`
        vis = [n for n, _ in S.find("visited.add(ns)", env, within=lp)] if visited is not None and visited != frontier else []
        fr = [n for n, _ in S.find("frontier.add(ns)", env, within=lp)] if frontier is not None else []
        ctx.check(bool(vis) and not cfg.control_deps(cfg.node_for(vis[0])) or (bool(vis) and all(b == cfg.node_for(skip[0]) if skip else False for b, _ in cfg.control_deps(cfg.node_for(vis[0])))),
                  "REACH-2", f, vis[0] if vis else lp, "every positive-probability successor is added to the reachable set", "", "some positive-probability successors are not added to the set that is returned")
        if fr:
            facts = atomic_facts(lexical_guards(f, fr[0]))
            ok = (f"{key} in {visited}", False) in facts and (f"self.is_absorbing({key})", False) in facts
            ctx.check(ok, "REACH-2", f, fr[0], "only unvisited, non-absorbing successors are expanded further", "",
                      "the successor is put on the worklist without the guard `not in <result set> and not self.is_absorbing(<successor>)`")
        else:
            ctx.violation("REACH-2", f, lp, "successors are expanded further", "successors are never added to the worklist that is popped")
    ctx.check(bool(seeds), "REACH-3", f, seeds[0][0] if seeds else f.node, "starts from the positive-probability initial states", "", "the closure does not start from exactly the positive-probability initial states")
    # the returned name is the result set: seeded with (a copy of) the initial states, not the worklist
    ok = visited is not None and seed is not None and visited != frontier and \
        (visited == seed or S.has("visited = set(S0)", {"visited": visited, "S0": seed}) or S.has("visited = S0.copy()", {"visited": visited, "S0": seed}))
    ok = ok and frontier is not None and (S.has("frontier = set(S0)", {"frontier": frontier, "S0": seed}) or S.has("frontier = S0.copy()", {"frontier": frontier, "S0": seed}))
    ctx.check(ok, "REACH-3", f, ret if ret is not None else f.node, "returns the visited set", "", "returns something other than the visited set (seeded with the initial states, distinct from the worklist)")


def _stores_of(fi: FunctionInfo, name: str) -> List[ast.stmt]:
    """statements of fi that (re)bind the local `name`."""
    out = []
    for n in fn_body_nodes(fi):
        if isinstance(n, ast.Assign) and any(isinstance(x, ast.Name) and x.id == name for t in n.targets for x in ast.walk(t) if isinstance(getattr(x, "ctx", None), ast.Store)):
            out.append(n)
        elif isinstance(n, (ast.AugAssign, ast.AnnAssign)) and isinstance(n.target, ast.Name) and n.target.id == name:
            out.append(n)
    return out


def rule_vectors(ctx: Ctx, typer: Typer):
    P = ctx.P
    C = P.cls("TabularMarkovDecisionProcess")
    f = C.methods["initial_state_vec"]
    S = Snips(f)
    comps = [n for n in ast.walk(f.node) if isinstance(n, ast.ListComp)]
    ok = bool(comps) and S.m("[E_d.prob(s) for s in self.state_list]", comps[0]) is not None
    ctx.check(ok, "VEC-1", f, comps[0] if comps else f.node, "initial_state_vec[i] = initial_state_dist().prob(state_list[i])", "", "initial_state_vec is not the initial probability of each listed state, in list order")
    # the distribution whose .prob is read is the MDP's own initial_state_dist(): the call itself, or a local bound to exactly that call
    recv = [e["d"] for _, e in S.find("E_d.prob(ANY)")]

    def is_own_initial(d: ast.AST) -> bool:
        if S.m("self.initial_state_dist()", d) is not None:
            return True
        if not isinstance(d, ast.Name):
            return False
        defs = [st for st in _stores_of(f, d.id) if st.lineno < d.lineno and not any(d is x for x in ast.walk(st))]
        return bool(defs) and S.m("V_x = self.initial_state_dist()", max(defs, key=lambda st: st.lineno)) is not None
    ctx.check(bool(recv) and all(is_own_initial(d) for d in recv), "VEC-1", f, f.node, "initial_state_vec reads the MDP's own initial_state_dist()", "", "initial distribution source changed")
    f = C.methods["state_action_reward_matrix"]
    t = simplify(ctx.X.returns(f))
    n = check_einsums(ctx, t, typer, f, rule1="VEC-1", rule2="VEC-1")
    es = [c for c in ast.walk(f.node) if isinstance(c, ast.Call) and ast.unparse(c.func) == "np.einsum"]
    ok = bool(es) and es[0].args[0].value.replace(" ", "") == "san,san->sa"
    ctx.check(ok, "VEC-1", f, es[0] if es else f.node, "state_action_reward_matrix = sum over successors of R*T", "", "expected reward does not contract reward and transition over the successor axis")
    f = C.methods["absorbing_state_vec"]
    S = Snips(f)
    comps = [n for n in ast.walk(f.node) if isinstance(n, ast.ListComp) and "is_absorbing" in ast.unparse(n)]
    ok = bool(comps) and S.m("[self.is_absorbing(s) for s in self.state_list]", comps[0]) is not None
    ctx.check(ok, "VEC-1", f, comps[0] if comps else f.node, "explicit absorbing flags are is_absorbing(s) in state_list order", "", "absorbing flags are not is_absorbing(s) over the state list")
    # role binding: `flags` is the local that receives the explicit flags; the returned local is `<derived> | flags`
    fdef = [st for st in fn_body_nodes(f) if comps and isinstance(st, ast.Assign) and len(st.targets) == 1 and isinstance(st.targets[0], ast.Name) and any(comps[0] is x for x in ast.walk(st.value))]
    ok = False
    if fdef:
        flags = fdef[0].targets[0].id
        sol = S.solve(["out = E_derived | flags", "return out"], {"flags": flags})
        if sol is not None:
            (env, (ost, rst)) = sol
            # `flags` still holds the explicit flags where it is or-ed in, and the or-ed value is what reaches the return
            ok = fdef[0].lineno < ost.lineno < rst.lineno \
                and not [st for st in _stores_of(f, flags) if fdef[0].lineno < st.lineno < ost.lineno] \
                and not [st for st in _stores_of(f, env["out"]) if ost.lineno < st.lineno < rst.lineno]
    ctx.check(ok, "VEC-1", f, f.node, "explicitly absorbing states are always absorbing (or-ed in)", "", "explicit absorbing flags can be masked out")
    # VEC-2 (written after seed C01-b / C06-b): a per-state vector derived from an (S, A, S') model array keeps the SOURCE-state axis,
    # i.e. a reduction applied directly to (a comparison of) self.reward_matrix / self.transition_matrix reduces exactly axes 1 and 2
    for red in [c for c in ast.walk(f.node) if isinstance(c, ast.Call) and isinstance(c.func, ast.Attribute) and c.func.attr in ("all", "any", "sum", "max", "min")]:
        recv = red.func.value
        arrays = {a.attr for a in ast.walk(recv) if isinstance(a, ast.Attribute) and isinstance(a.value, ast.Name) and a.value.id == f.self_name}
        if not arrays or not arrays <= {"reward_matrix", "transition_matrix"} or any(isinstance(x, ast.Call) for x in ast.walk(recv)):
            continue
        ax = kwarg(red, "axis") or (red.args[0] if red.args else None)
        try:
            axes = ast.literal_eval(ax) if ax is not None else None
        except Exception:
            axes = "?"
        axes = {axes} if isinstance(axes, int) else (set(axes) if isinstance(axes, (tuple, list)) else axes)
        ok = axes in ({1, 2}, {-1, -2}, {1, -1}, {-2, 2}) if isinstance(axes, set) else None
        ctx.check(ok, "VEC-2", f, red, f"per-state flag derived from {'/'.join(sorted(arrays))} keeps the source-state axis (reduces the action and successor axes)", str(axes),
                  f"`{norm(red, 70)}` reduces axes {axes} of an (S, A, S') array: what is left is not indexed by the source state, so the flag of a state is computed "
                  f"from the transitions INTO it")
    # (written after seed C06-e) "every reward out of the state is 0" is an all() over element-wise equality; a sum that is 0 is a different predicate
    zr = S.find("(self.reward_matrix == 0).all(REST, REST=ANY)") or S.find("(self.reward_matrix == 0).all(REST=ANY)")
    sums = [c for c in ast.walk(f.node) if isinstance(c, ast.Compare) and len(c.ops) == 1 and isinstance(c.ops[0], ast.Eq)
            and any(isinstance(x, ast.Call) and isinstance(x.func, ast.Attribute) and x.func.attr in ("sum", "mean") and "reward" in ast.unparse(x.func.value) for x in ast.walk(c))]
    if not zr and sums:
        ctx.violation("VEC-2", f, sums[0], "zero-reward flag = all rewards out of the state are 0",
                      f"`{norm(sums[0], 70)}` tests that rewards SUM to zero: rewards of opposite sign cancel, and a state with non-zero rewards is flagged absorbing")
    f = C.methods["_unable_to_reach_absorbing"]
    src = ast.unparse(f.node)
    ctx.check(has_cmp(f.node, "self.discount_rate", "<", "1.0") and "floyd_warshall" in src and "self.absorbing_state_vec" in src, "VEC-1", f, f.node,
              "cannot-reach vector: zero when discounted, else no path to an absorbing state", "", "cannot-reach analysis lost a component")


def rule_from_matrices(ctx: Ctx):
    P = ctx.P
    f = P.method("TabularMarkovDecisionProcess", "from_matrices")
    S = Snips(f, literals=["QuickTabularMDP"])
    top_params = set(f.param_names)
    maps: Dict[str, str] = {}
    for n in fn_body_nodes(f):
        if isinstance(n, ast.Assign) and isinstance(n.value, ast.DictComp) and isinstance(n.targets[0], ast.Name):
            dc = n.value
            it = dc.generators[0].iter
            if isinstance(it, ast.Call) and isinstance(it.func, ast.Name) and it.func.id == "enumerate" and isinstance(it.args[0], ast.Name):
                ok = S.m("{e: i for i, e in enumerate(E_list)}", dc) is not None
                ctx.check(ok, "FM-1", f, n, f"the index map built from {it.args[0].id if it.args[0].id in top_params else 'a local list'} maps each element to its position", "",
                          f"index map `{norm(n.value)}` does not map element -> position")
                maps[n.targets[0].id] = it.args[0].id
    want_axis = {"transition_matrix": ["state_list", "action_list", "state_list"], "reward_matrix": ["state_list", "action_list", "state_list"],
                 "action_matrix": ["state_list", "action_list"], "absorbing_state_vec": ["state_list"], "initial_state_vec": ["state_list"]}
    ent_axis = {"transition_matrix": ["s", "a", "ns"], "reward_matrix": ["s", "a", "ns"], "action_matrix": ["s", "a"], "absorbing_state_vec": ["s"]}
    # interface role of each closure = the keyword under which it is handed to the rebuilt MDP (not the spelling of its name)
    q = calls_named(f, "QuickTabularMDP")
    closure_role: Dict[str, str] = {}
    if q:
        for kw in q[0].keywords:
            if kw.arg and isinstance(kw.value, ast.Name) and kw.value.id in f.nested:
                closure_role.setdefault(kw.value.id, kw.arg)

    def arrays_read(nf: FunctionInfo) -> set:
        return {sub.value.id for sub in ast.walk(nf.node) if isinstance(sub, ast.Subscript) and isinstance(sub.value, ast.Name) and sub.value.id in want_axis
                and isinstance(sub.ctx, ast.Load)}
    for nf in f.nested.values():
        params = nf.positional_params
        role_nf = closure_role.get(nf.name, nf.name)
        Sn = Snips(nf)
        for sub in ast.walk(nf.node):
            if isinstance(sub, ast.Subscript) and isinstance(sub.value, ast.Name) and sub.value.id in want_axis and isinstance(sub.ctx, ast.Load):
                arr = sub.value.id
                items = list(sub.slice.elts) if isinstance(sub.slice, ast.Tuple) else [sub.slice]
                for k, it in enumerate(items):
                    if isinstance(it, ast.Slice):
                        continue
                    it = _resolve(Sn, it)           # the index, written in place or named by a temporary
                    lst = ent = None
                    if isinstance(it, ast.Subscript) and isinstance(it.value, ast.Name) and it.value.id in maps:
                        lst, ent = maps[it.value.id], ast.unparse(it.slice)
                    elif isinstance(it, ast.Call) and isinstance(it.func, ast.Attribute) and it.func.attr == "index" and isinstance(it.func.value, ast.Name):
                        lst, ent = it.func.value.id, ast.unparse(it.args[0])
                    if lst is None:
                        ctx.unknown("FM-1", nf, sub, f"{role_nf}: {arr} axis {k}", f"index `{norm(it)}` not recognised")
                        continue
                    ok = k < len(want_axis[arr]) and lst == want_axis[arr][k]
                    ctx.check(ok, "FM-1", nf, sub, f"{role_nf}: {arr} axis {k} is indexed by a position in the list that axis is laid out over", "",
                              f"axis {k} of {arr} is laid out over {want_axis[arr][k] if k < len(want_axis[arr]) else '?'} but is read with a position in {lst if lst in top_params else 'another list'}")
                    if arr in ent_axis and k < len(ent_axis[arr]) and len(params) >= 1:
                        # the entity is the closure's own parameter playing that role (by position in the interface)
                        role = ent_axis[arr][k]
                        want = {"s": params[0] if params else None, "a": params[1] if len(params) > 1 else None, "ns": params[2] if len(params) > 2 else None}[role]
                        got = f"its parameter #{params.index(ent)}" if ent in params else "an expression that is not one of its parameters"
                        ctx.check(ent == want, "FM-1", nf, sub, f"{role_nf}: {arr} axis {k} uses the closure's `{role}` argument", "",
                                  f"axis {k} ({role}) of {arr} is indexed with {got}, but the closure's {role} argument is parameter #{params.index(want) if want in params else '?'}")
        # zips pair arrays with the list of the same axis
        for z in ast.walk(nf.node):
            if isinstance(z, ast.Call) and isinstance(z.func, ast.Name) and z.func.id == "zip" and len(z.args) == 2 and isinstance(z.args[0], ast.Name):
                lst = z.args[0].id
                if role_nf == "next_state_dist":
                    ctx.check(lst == "state_list", "FM-1", nf, z, "next_state_dist pairs successor probabilities with state_list", "", "pairs with a different list")
                if role_nf == "actions":
                    ctx.check(lst == "action_list", "FM-1", nf, z, "actions pairs availability flags with action_list", "", "pairs with a different list")
    # the initial distribution: the local bound to DictDistribution over (state_list, initial_state_vec) restricted to p > 0 (whole statement)
    init = S.find("isd = DictDistribution({s: p for s, p in zip(state_list, initial_state_vec) if p > 0})")
    isd = init[0][1]["isd"] if init else None
    # constructor wiring
    closure_array = {"next_state_dist": ("transition_matrix", 2), "reward": ("reward_matrix", 3), "actions": ("action_matrix", 1), "is_absorbing": ("absorbing_state_vec", 1)}
    if q:
        for k in ("next_state_dist", "reward", "actions", "initial_state_dist", "is_absorbing", "discount_rate"):
            v = kwarg(q[0], k)
            if k in closure_array:
                arr, arity = closure_array[k]
                nf = f.nested.get(v.id) if isinstance(v, ast.Name) else None
                ok = nf is not None and arrays_read(nf) == {arr} and len(nf.positional_params) == arity
                what = f"the {arity}-argument closure that reads {arr}"
            elif k == "initial_state_dist":
                ok = isinstance(v, ast.Name) and isd is not None and v.id == isd
                what = "the distribution rebuilt from (state_list, initial_state_vec)"
            else:
                ok = isinstance(v, ast.Name) and v.id == k and k in top_params
                what = f"the `{k}` argument"
            ctx.check(ok, "FM-1", f, q[0], f"rebuilt MDP gets {k} = {what}", "", f"`{k}` of the rebuilt MDP is not {what} ({'missing' if v is None else 'something else is passed'})")
    # the rebuilt MDP is the local bound to the constructor call; it keeps the given lists and is what is returned
    built = [n for n in fn_body_nodes(f) if q and isinstance(n, ast.Assign) and len(n.targets) == 1 and isinstance(n.targets[0], ast.Name) and n.value is q[0]]
    mdp = built[0].targets[0].id if built else None
    returned = mdp is not None and S.has("return mdp", {"mdp": mdp})
    for attr, lst in (("_state_list", "state_list"), ("_action_list", "action_list")):
        st = S.find(f"mdp.{attr} = E_v", {"mdp": mdp}) if mdp is not None else []
        ok = bool(st) and returned and lst in names_in(st[0][1]["v"])
        ctx.check(ok, "FM-1", f, st[0][0] if st else f.node, f"rebuilt MDP keeps the given {lst}", "", f"the given {lst} is not attached to the rebuilt MDP that is returned")
    ctx.check(bool(init), "FM-1", f, init[0][0] if init else f.node, "initial distribution pairs state_list with initial_state_vec (p > 0)", "", "initial distribution is not rebuilt from (state_list, initial_state_vec)")


def rule_quick(ctx: Ctx):
    P = ctx.P
    C = P.cls("quickmdp.QuickMDP")
    init = C.methods["__init__"]
    for name in ("next_state_dist", "reward", "actions", "initial_state_dist", "is_absorbing"):
        m = C.methods.get(name)
        if m is None:
            raise AnalysisError(f"QuickMDP.{name} vanished")
        params = m.positional_params[1:]
        rets = [n for n in ast.walk(m.node) if isinstance(n, ast.Return)]
        Sm = Snips(m)
        rv = _resolve(Sm, rets[0].value) if len(rets) == 1 and rets[0].value is not None else None      # returned call, in place or via a temporary
        ok = isinstance(rv, ast.Call) and ast.unparse(rv.func) == f"self._{name}" and [_entity(Sm, a) for a in ordered_args(rv)] == params
        ctx.check(ok, "QK-1", m, m.node, f"QuickMDP.{name} forwards ({', '.join(params)}) in order to self._{name}", "", f"`{norm(rv) if rv is not None else '?'}` does not forward the parameters in order")
        stores = [n for n in ast.walk(init.node) if isinstance(n, ast.Assign) and ast.unparse(n.targets[0]) == f"self._{name}"]
        ok = bool(stores) and all(name in names_in(s.value) or (name == "next_state_dist" and "next_state" in names_in(s.value))
                                  or (name == "initial_state_dist" and "initial_state" in names_in(s.value)) for s in stores)
        ctx.check(ok, "QK-1", init, stores[0] if stores else init.node, f"self._{name} is initialised from the `{name}` argument", "", f"self._{name} is initialised from a different argument")
    st = [n for n in ast.walk(init.node) if isinstance(n, ast.Assign) and ast.unparse(n.targets[0]) == "self.discount_rate"]
    ctx.check(bool(st) and ast.unparse(st[0].value) == "discount_rate", "QK-1", init, st[0] if st else init.node, "discount_rate stored", "", "discount_rate argument is not stored")
    # deterministic wrappers
    S = Snips(init)
    w = S.find("self._next_state_dist = lambda s, a: DeterministicDistribution(next_state(s, a))")
    ctx.check(bool(w), "QK-1", init, w[0][0] if w else init.node, "next_state wrapper = DeterministicDistribution(next_state(s, a))", "", "deterministic transition wrapper changed")
    w = S.find("self._initial_state_dist = lambda: DeterministicDistribution(initial_state)")
    ctx.check(bool(w), "QK-1", init, w[0][0] if w else init.node, "initial_state wrapper = DeterministicDistribution(initial_state)", "", "deterministic initial-state wrapper changed")


def rule_lists(ctx: Ctx):
    P = ctx.P
    C = P.cls("TabularMarkovDecisionProcess")
    sl = C.methods["state_list"]
    src = ast.unparse(sl.node)
    ctx.check("self.reachable_states()" in src, "LIST-1", sl, sl.node, "inferred state list = reachable_states()", "", "inferred state list is not the reachable set")
    ctx.check("domaintuple(self._state_list)" in src, "LIST-1", sl, sl.node, "an explicit _state_list is used as given", "", "explicit state list is ignored")
    al = C.methods["action_list"]
    S = Snips(al)
    # the accumulator is the local keyed by every a in _cached_actions(s) for every s in state_list, and it is what domaintuple(...) returns
    sol = S.solve(["for s in self.state_list:\n    for a in self._cached_actions(s):\n        acc[a] = ANY"])
    rets = [n for n in fn_body_nodes(al) if isinstance(n, ast.Return)]
    inferred = [r for r in rets if sol is not None and (S.m("return domaintuple(acc)", r, sol[0]) is not None or S.m("return domaintuple(sorted(acc))", r, sol[0]) is not None)]
    ok = bool(inferred) and all(r in inferred or S.m("return domaintuple(self._action_list)", r) is not None for r in rets)
    ctx.check(ok, "LIST-1", al, al.node, "inferred action list = union of actions(s) over the state list", "", "inferred action list is not the union of the listed states' actions")
    # (written after seed C06-d) an explicitly given list lays out the arrays in the order it was given: it is never re-sorted
    for m_, attr in ((sl, "_state_list"), (al, "_action_list")):
        holders = {f"{m_.self_name}.{attr}"}
        for n in ast.walk(m_.node):
            if isinstance(n, ast.Assign) and len(n.targets) == 1 and isinstance(n.targets[0], ast.Name):
                v = ast.unparse(n.value).replace('"', "'")
                if v == f"{m_.self_name}.{attr}" or v.startswith(f"getattr({m_.self_name}, '{attr}'"):
                    holders.add(n.targets[0].id)
        resorted = [c for c in ast.walk(m_.node) if isinstance(c, ast.Call) and isinstance(c.func, ast.Name) and c.func.id == "sorted" and c.args
                    and ast.unparse(c.args[0]) in holders]
        ctx.check(not resorted, "LIST-1", m_, resorted[0] if resorted else m_.node, f"an explicit {attr} keeps the order it was given in", "",
                  f"`{norm(resorted[0], 60) if resorted else ''}` re-orders an explicitly supplied list: arrays rebuilt with from_matrices(…, {attr[1:]}=…) come out permuted along that axis")


def run(ctx: Ctx):
    P = ctx.P
    G = CallGraph(P, ctx.X)
    typer = Typer()
    C = P.cls("TabularMarkovDecisionProcess")
    rule_store(ctx, C.methods["transition_matrix"], "transition_matrix", "next_state_dist", "prob", ("s", "a", "ns"))
    rule_store(ctx, C.methods["reward_matrix"], "reward_matrix", "next_state_dist", "reward", ("s", "a", "ns"))
    rule_store(ctx, C.methods["action_matrix"], "action_matrix", None, "one", ("s", "a"))
    fns = [C.methods["transition_matrix"], C.methods["reward_matrix"]]
    n = rule_zero_prob(ctx, fns, "state_list", ("next_state_dist",))
    rule_reachability(ctx)
    rule_vectors(ctx, typer)
    rule_from_matrices(ctx)
    rule_quick(ctx)
    rule_lists(ctx)
    mods = ("msdm.core.mdp.mdp", "msdm.core.mdp.tabularmdp", "msdm.core.mdp.quickmdp")
    arg_permutation_rule(ctx, G, [f for f in P.all_functions() if f.module.name in mods], "ARG")
    for r, k in (("TEN-4", 17), ("ZERO-1", 2), ("REACH-1", 1), ("REACH-2", 3), ("REACH-3", 2), ("VEC-1", 7), ("VEC-2", 1), ("FM-1", 25), ("QK-1", 13), ("LIST-1", 5), ("ARG", 5)):
        ctx.require(r, k)
    ctx.assume("Table._validate_table rejects duplicate coordinates; state/action lists inferred from sets are duplicate-free")

"""C12 — tables.  IFC-3 exception coverage, resolution order in the selector resolver, no-op shortcut by full index
equality, keys/len/validation structure, probability rows."""
from __future__ import annotations

import ast
from typing import Dict, List, Optional

from ..callgraph import CallGraph
from ..cfg import cfg_of
from ..model import FunctionInfo, ClassInfo, AnalysisError
from ..report import Ctx
from ..util import norm, fn_body_nodes, walk_local, kwarg
from .c11 import raise_set, exc_ancestors

EXPLANATION = (
    "Structural necessary conditions of C12: in the selector resolver the lookup of the selector as an element of the outermost "
    "domain precedes every other interpretation; a selection is treated as a no-op only when the resulting index EQUALS the "
    "table's index (fields and ordered domains), not merely has its shape; keys / len read the outermost field's domain; a "
    "probability-table selection becomes a distribution exactly at probability rank; list selectors rebuild the outer domain "
    "from the selector's own index list in order; MDP tables convert every key-not-in-domain error (KeyError, IndexError and "
    "its subclasses, DomainError) into the state/action index error and Table.get covers the same set; validation compares "
    "coordinate counts with unique counts. Full selector semantics under colliding runtime keys are not decided.")
RULES = ("ORD-1 outermost-domain lookup first; NOOP-1 no-op shortcut compares indices with ==, and TableIndex.__eq__ compares ordered fields; "
         "KEY-1 keys/len/items; ROW-1 probability rows; LIST-1 list selectors; IFC-3 raise-set vs handlers (StateTable.__getitem__, "
         "AbstractTable.get); VAL-1 validation; POL-1 action_dist")


def run(ctx: Ctx):
    P = ctx.P
    G = CallGraph(P, ctx.X)
    TI = P.cls("TableIndex")
    ai = TI.methods["_array_index"]
    first = ai.node.body[0]
    ok = isinstance(first, ast.Try) and any(isinstance(n, ast.Return) and ast.unparse(n.value).replace(" ", "") == "(idx,)" for n in ast.walk(first)) \
        and "self.fields[0].domain.index(selector)" in ast.unparse(first)
    ctx.check(ok, "ORD-1", ai, first, "an element of the outermost domain is resolved before any other interpretation of the selector", "",
              "the outermost-domain lookup is not the first step of selector resolution: a key that is itself a tuple/list element of the domain can be "
              "interpreted as a multi-field selector")
    if isinstance(first, ast.Try):
        hs = [getattr(t, "id", "?") for h in first.handlers for t in (h.type.elts if isinstance(h.type, ast.Tuple) else [h.type])]
        ctx.check({"KeyError", "TypeError"} <= set(hs), "ORD-1", ai, first, "a failed domain lookup (missing or unhashable key) falls through to the other interpretations", str(hs),
                  f"the domain lookup only tolerates {hs}: an unhashable selector (a list of keys) would raise instead of being interpreted")
    # no-op shortcut
    for cname in ("table.table.Table", "ProbabilityTable"):
        gi = P.cls(cname).methods["__getitem__"]
        ifs = [n for n in gi.node.body if isinstance(n, ast.If) and any(isinstance(b, ast.Return) and ast.unparse(b.value) == "self" for b in n.body)]
        if not ifs:
            ctx.unknown("NOOP-1", gi, gi.node, f"{P.cls(cname).name}: no-op selection shortcut", "not present")
            continue
        t = ifs[0].test
        ok = isinstance(t, ast.Compare) and isinstance(t.ops[0], ast.Eq) and {ast.unparse(t.left), ast.unparse(t.comparators[0])} == {"new_table_index", "self.table_index"}
        ctx.check(ok, "NOOP-1", gi, ifs[0], f"{P.cls(cname).name}: selection is a no-op only if the new index equals the table's index", norm(t),
                  f"the shortcut returns the table itself when `{norm(t)}`: a selection that permutes or restricts keys but keeps the shape is returned unpermuted")
        nd = [n for n in gi.node.body if isinstance(n, ast.Assign) and ast.unparse(n.targets[0]) == "new_data"]
        ok = bool(nd) and ast.unparse(nd[0].value) == "self._data[array_index]"
        ctx.check(ok, "NOOP-1", gi, nd[0] if nd else gi.node, f"{P.cls(cname).name}: data selected with the resolved array index", "", "data is not selected with the array index resolved from the selector")
        ui = [n for n in gi.node.body if isinstance(n, ast.Assign) and ast.unparse(n.targets[0]) == "new_table_index"]
        ok = bool(ui) and ast.unparse(ui[0].value) == "self.table_index._updated_index(array_index)"
        ctx.check(ok, "NOOP-1", gi, ui[0] if ui else gi.node, f"{P.cls(cname).name}: new index derived from the same array index", "", "index and data are derived from different selections")
    eq = TI.methods["__eq__"]
    ok = ast.unparse(eq.node.body[-1]).replace(" ", "") == "returnself._fields==other._fields"
    ctx.check(ok, "NOOP-1", eq, eq.node, "TableIndex equality compares the ordered fields (names and domains)", "", "index equality does not compare ordered fields")
    # keys / len
    T = P.cls("table.table.Table")
    ctx.check("self.table_index.fields[0].domain" in ast.unparse(T.methods["keys"].node), "KEY-1", T.methods["keys"], T.methods["keys"].node, "keys iterate the outermost domain in order", "", "keys do not iterate the outermost domain")
    ctx.check("len(self.table_index.fields[0].domain)" in ast.unparse(T.methods["__len__"].node), "KEY-1", T.methods["__len__"], T.methods["__len__"].node, "len is the size of the outermost domain", "", "len is not the outermost domain's size")
    AT = P.cls("AbstractTable")
    ctx.check("((k, self[k]) for k in self.keys())" in ast.unparse(AT.methods["items"].node), "KEY-1", AT.methods["items"], AT.methods["items"].node, "items pair every outer key with its own entry", "", "items pairing changed")
    # probability rows
    PT = P.cls("ProbabilityTable").methods["__getitem__"]
    src = ast.unparse(PT.node)
    ok = "if new_data.ndim <= -self.probs_start_index" in src and "TableDistribution(data=new_data, table_index=new_table_index)" in src
    ctx.check(ok, "ROW-1", PT, PT.node, "a selection of probability rank becomes a distribution over the remaining domain", "", "probability rows are not turned into distributions at probability rank")
    ad = P.method("TabularPolicy", "action_dist")
    last = ad.node.body[-1]
    ok = isinstance(last, ast.Return) and isinstance(last.value, ast.Subscript) and ast.unparse(last.value.value) == ad.self_name \
        and ast.unparse(last.value.slice).strip("(),") == ad.positional_params[1]
    ctx.check(ok, "POL-1", ad, ad.node, "action_dist(s) is the policy table's row of s", "", "action_dist is not the row selection")
    # list selectors
    ui = TI.methods["_updated_index"]
    src = ast.unparse(ui.node)
    ok = "domaintuple([self.fields[0].domain[i] for i in array_index])" in src and "*self.fields[1:]" in src
    ctx.check(ok, "LIST-1", ui, ui.node, "a list of outer keys restricts the outer field to those keys in the given order", "", "list selection does not rebuild the outer domain from the selector's index list")
    ok = "new_domain = domaintuple([field.domain[i] for i in field_index])" in src
    ctx.check(ok, "LIST-1", ui, ui.node, "inner list selectors restrict their field in the given order", "", "inner list selection changed")
    idd = TI.methods["_index_into_domain"]
    ok = "type(field_selector)([domain.index(e) for e in field_selector])" in ast.unparse(idd.node)
    ctx.check(ok, "LIST-1", idd, idd.node, "selector keys are mapped to their positions in order", "", "key-to-position mapping changed")
    dt = P.cls("domaintuple").methods["index"]
    ctx.check("return self._index[element]" in ast.unparse(dt.node), "LIST-1", dt, dt.node, "domain position lookup is by the element itself", "", "domain index lookup changed")
    # IFC-3: MDP tables
    st = P.method("StateTable", "__getitem__")
    hs = [h for n in ast.walk(st.node) if isinstance(n, ast.Try) for h in n.handlers]
    handled = []
    for h in hs:
        ts = [h.type] if not isinstance(h.type, ast.Tuple) else list(h.type.elts)
        handled += [getattr(t, "id", getattr(t, "attr", "?")) for t in ts if t is not None]
    rs = raise_set(ctx, G, P.method("table.table.Table", "__getitem__"))
    for m in ("_array_index", "_updated_index", "_index_into_fields", "_index_into_domain", "_pad_out_ellipses"):
        if m in TI.methods:
            for k, v in raise_set(ctx, G, TI.methods[m]).items():
                rs.setdefault(k, v)
    ctx.extra["raise_set"] = sorted(rs)
    for e in sorted(x for x in rs if x != "SliceError"):
        f, node = rs[e]
        covered = any(a in handled for a in exc_ancestors(P, e))
        ctx.check(covered, "IFC-3", st, node, f"StateTable.__getitem__ converts {e} into the state/action index error", f"handlers {handled}",
                  f"`{e}` (raised in {f.name} for a key outside the domain) is not caught by StateTable.__getitem__ ({handled}): MDP tables raise a foreign error type")
    ok = any(isinstance(n, ast.Raise) and "StateActionIndexError" in ast.unparse(n) for h in hs for n in ast.walk(h))
    ctx.check(ok, "IFC-3", st, st.node, "the handler raises StateActionIndexError", "", "the handler does not raise the state/action index error")
    get = P.method("AbstractTable", "get")
    hs2 = [h for n in ast.walk(get.node) if isinstance(n, ast.Try) for h in n.handlers]
    handled2 = []
    for h in hs2:
        ts = [h.type] if not isinstance(h.type, ast.Tuple) else list(h.type.elts)
        handled2 += [getattr(t, "id", getattr(t, "attr", "?")) for t in ts if t is not None]
    for e in sorted(x for x in rs if x != "SliceError"):
        covered = any(a in handled2 for a in exc_ancestors(P, e))
        ctx.check(covered, "IFC-3", get, rs[e][1], f"get() returns the default for {e}", f"handlers {handled2}", f"`{e}` escapes AbstractTable.get ({handled2})")
    sai = P.find_cls("StateActionIndexError")
    ok = sai is not None and "IndexError" in exc_ancestors(P, "StateActionIndexError")
    ctx.check(ok, "IFC-3", st, st.node, "StateActionIndexError is an IndexError", "", "the index error class changed its base")
    # validation
    vt = T.methods["_validate_table"]
    src = ast.unparse(vt.node)
    ok = "len(set(c))" in src and "data_shape == coords_shape == unique_shape" in src and "raise ValueError" in src
    ctx.check(ok, "VAL-1", vt, vt.node, "validation rejects duplicate coordinates and shape mismatches", "", "validation no longer compares data shape, coordinate counts and unique counts")
    init = T.methods["__init__"]
    ctx.check("self._validate_table()" in ast.unparse(init.node), "VAL-1", init, init.node, "tables are validated on construction", "", "validation is not run on construction")
    for rr, k in (("ORD-1", 2), ("NOOP-1", 7), ("KEY-1", 3), ("ROW-1", 1), ("POL-1", 1), ("LIST-1", 4), ("IFC-3", 10), ("VAL-1", 2)):
        ctx.require(rr, k)
    ctx.assume("keys of different fields do not collide with domain elements of the outermost field in ways that change resolution (runtime values)")
